//! C11 — rule switches do exactly what they say.
//! K: the configuration algebra (`cfg` ops) against the real `LintGroupConfig`; `lg` ops where
//! the harness supplies the per-rule tables (every rule run ALONE) and the model predicts the
//! combined output of the real group under combined configurations.
//! O: the property read directly on the real outputs.
use crate::common::*;
use crate::lg::*;
use harper_core::linting::{Lint, LintGroupConfig, Linter};
use serde_json::{Value, json};
use std::collections::BTreeMap;

const STATES: [Option<Option<bool>>; 4] = [None, Some(None), Some(Some(false)), Some(Some(true))];

fn cfg_of(keys: &[&str], code: usize) -> CfgMap {
    let mut m = CfgMap::new();
    let mut c = code;
    for k in keys {
        if let Some(v) = STATES[c % 4] {
            m.insert(k.to_string(), v);
        }
        c /= 4;
    }
    m
}

fn grp(s: &str) -> String {
    if s.is_empty() { String::new() } else { format!(" {}", s) }
}

#[derive(Clone, Debug)]
enum COp {
    Set(String, bool),
    Unset(String),
    SetIfUnset(String, bool),
    Clear,
    /// self.merge_from(&mut other)
    Merge(CfgMap),
    /// other.merge_from(&mut self); self = other
    MergeInto(CfgMap),
    /// other.merge_from(&mut self); keep what is left of self
    Other(CfgMap),
    Fill,
}

fn b01(b: bool) -> &'static str {
    if b { "1" } else { "0" }
}

impl COp {
    fn words(&self, curated: &CfgMap) -> String {
        match self {
            COp::Set(k, b) => format!("set {} {}", enc_name(k), b01(*b)),
            COp::Unset(k) => format!("unset {}", enc_name(k)),
            COp::SetIfUnset(k, b) => format!("setifunset {} {}", enc_name(k), b01(*b)),
            COp::Clear => "clear".to_string(),
            COp::Merge(o) => format!("merge{}", grp(&show_cfg(o))),
            COp::MergeInto(o) => format!("mergeinto{}", grp(&show_cfg(o))),
            COp::Other(o) => format!("other{}", grp(&show_cfg(o))),
            COp::Fill => format!("fill{}", grp(&show_cfg(curated))),
        }
    }
    fn json(&self) -> Value {
        match self {
            COp::Set(k, b) => json!({"op": "set", "key": k, "val": b}),
            COp::Unset(k) => json!({"op": "unset", "key": k}),
            COp::SetIfUnset(k, b) => json!({"op": "setifunset", "key": k, "val": b}),
            COp::Clear => json!({"op": "clear"}),
            COp::Merge(o) => json!({"op": "merge", "other": o}),
            COp::MergeInto(o) => json!({"op": "mergeinto", "other": o}),
            COp::Other(o) => json!({"op": "other", "other": o}),
            COp::Fill => json!({"op": "fill"}),
        }
    }
    fn from_json(v: &Value) -> Option<COp> {
        let key = || v["key"].as_str().unwrap_or("").to_string();
        let val = || v["val"].as_bool().unwrap_or(false);
        let other = || serde_json::from_value::<CfgMap>(v["other"].clone()).unwrap_or_default();
        Some(match v["op"].as_str()? {
            "set" => COp::Set(key(), val()),
            "unset" => COp::Unset(key()),
            "setifunset" => COp::SetIfUnset(key(), val()),
            "clear" => COp::Clear,
            "merge" => COp::Merge(other()),
            "mergeinto" => COp::MergeInto(other()),
            "other" => COp::Other(other()),
            "fill" => COp::Fill,
            _ => return None,
        })
    }
    /// the REAL operation
    fn apply(&self, c: &mut LintGroupConfig) {
        match self {
            COp::Set(k, b) => c.set_rule_enabled(k, *b),
            COp::Unset(k) => c.unset_rule_enabled(k),
            COp::SetIfUnset(k, b) => c.set_rule_enabled_if_unset(k, *b),
            COp::Clear => c.clear(),
            COp::Merge(o) => {
                let mut o = to_real(o);
                c.merge_from(&mut o);
            }
            COp::MergeInto(o) => {
                let mut o = to_real(o);
                o.merge_from(c);
                *c = o;
            }
            COp::Other(o) => {
                let mut o = to_real(o);
                o.merge_from(c);
            }
            COp::Fill => c.fill_with_curated(),
        }
    }
    /// what the property (and the doc comments) say the operation does, on plain maps
    fn expected(&self, before: &CfgMap, curated: &CfgMap) -> CfgMap {
        let merge = |s: &CfgMap, o: &CfgMap| {
            let mut r = s.clone();
            for (k, v) in o {
                if v.is_some() {
                    r.insert(k.clone(), *v);
                }
            }
            r
        };
        let cleared = |s: &CfgMap| s.keys().map(|k| (k.clone(), None)).collect::<CfgMap>();
        let mut a = before.clone();
        match self {
            COp::Set(k, b) => {
                a.insert(k.clone(), Some(*b));
            }
            COp::Unset(k) => {
                a.remove(k);
            }
            COp::SetIfUnset(k, b) => {
                if !a.contains_key(k) {
                    a.insert(k.clone(), Some(*b));
                }
            }
            COp::Clear => a = cleared(before),
            COp::Merge(o) => a = merge(before, o),
            COp::MergeInto(o) => a = merge(o, before),
            COp::Other(_) => a = cleared(before),
            COp::Fill => a = merge(curated, before),
        }
        a
    }
}

struct Gen {
    names: Vec<String>,
    unknown: Vec<String>,
}

impl Gen {
    fn key(&self, rng: &mut Rng) -> String {
        if rng.chance(1, 5) { rng.pick(&self.unknown).clone() } else { rng.pick(&self.names).clone() }
    }
    fn val(&self, rng: &mut Rng) -> Option<bool> {
        match rng.below(5) {
            0 => None,
            1 | 2 => Some(false),
            _ => Some(true),
        }
    }
    fn cfg(&self, rng: &mut Rng, max: usize) -> CfgMap {
        let n = rng.below(max + 1);
        (0..n).map(|_| (self.key(rng), self.val(rng))).collect()
    }
    fn op(&self, rng: &mut Rng) -> COp {
        match rng.below(12) {
            0 | 1 | 2 => COp::Set(self.key(rng), rng.chance(1, 2)),
            3 | 4 => COp::Unset(self.key(rng)),
            5 | 6 => COp::SetIfUnset(self.key(rng), rng.chance(1, 2)),
            7 => COp::Clear,
            8 => COp::Merge(self.cfg(rng, 6)),
            9 => COp::MergeInto(self.cfg(rng, 6)),
            10 => COp::Other(self.cfg(rng, 4)),
            _ => COp::Fill,
        }
    }
}

/// serde_json round trip (oracle + monitor) and `Config::from_lsp_config`
fn json_checks(sess: &mut Session, m: &CfgMap, lsp: bool) {
    let real = to_real(m);
    let text = serde_json::to_string(&real).unwrap_or_default();
    let back: Result<LintGroupConfig, _> = serde_json::from_str(&text);
    let ok = matches!(&back, Ok(b) if *b == real) && from_real(&real) == *m;
    sess.monitor("serde-json-roundtrip-identity", ok);
    sess.o();
    if !ok {
        sess.fail("json-roundtrip", format!("configuration does not survive a JSON round trip: {}", trunc(&text, 200)), json!({"kind": "json", "config": m}), None);
    }
    if lsp {
        sess.o();
        let v = json!({"harper-ls": {"linters": m}});
        match guarded(|| crate::config::Config::from_lsp_config(v)) {
            Ok(Ok(c)) if c.lint_config == real => {}
            other => {
                let what = match other {
                    Ok(Ok(_)) => "differs".to_string(),
                    Ok(Err(e)) => format!("error {}", e),
                    Err(_) => "panic".to_string(),
                };
                sess.fail("lsp-config", format!("Config::from_lsp_config(linters) {}", what), json!({"kind": "json", "config": m}), None);
            }
        }
    }
}

/// one `cfg seq` history on one real configuration
fn eval_seq(sess: &mut Session, init: &CfgMap, ops: &[COp], curated: &CfgMap, origin: &str) {
    let mut real = to_real(init);
    let mut op = format!("cfg seq |{}", grp(&show_cfg(init)));
    let mut cur = init.clone();
    let mut bad: Option<String> = None;
    let r = guarded(|| {
        for o in ops {
            op.push_str(" | ");
            op.push_str(&o.words(curated));
            o.apply(&mut real);
            let now = from_real(&real);
            let want = o.expected(&cur, curated);
            if now != want && bad.is_none() {
                bad = Some(format!("{:?} on {:?}: got {:?}, the property says {:?}", o, cur, now, want));
            }
            cur = now;
        }
    });
    let imp = if r.is_ok() { format!("ok{}", grp(&show_cfg(&cur))) } else { "panic".to_string() };
    let case = sess.k(&op, &imp);
    sess.count(&format!("cfg:{}", origin));
    let input = json!({"kind": "seq", "init": init, "ops": ops.iter().map(|o| o.json()).collect::<Vec<_>>()});
    if r.is_err() {
        sess.fail("panic", "configuration operation panicked".into(), input, Some(case));
    } else if let Some(b) = bad {
        sess.fail("cfg-op", b, input, Some(case));
    }
    if ops.len() > 1 {
        sess.nontrivial(&op);
    }
}

fn eval_merge(sess: &mut Session, s: &CfgMap, o: &CfgMap) {
    let mut rs = to_real(s);
    let mut ro = to_real(o);
    rs.merge_from(&mut ro);
    let (s2, o2) = (from_real(&rs), from_real(&ro));
    let op = format!("cfg merge |{} |{}", grp(&show_cfg(s)), grp(&show_cfg(o)));
    let imp = format!("ok{} |{}", grp(&show_cfg(&s2)), grp(&show_cfg(&o2)));
    let case = sess.k(&op, &imp);
    sess.count("cfg:merge");
    // Some values of the argument override, None skipped, argument left all-None
    let mut ok = o2.len() == o.len() && o2.iter().all(|(k, v)| v.is_none() && o.contains_key(k));
    let keys: std::collections::BTreeSet<&String> = s.keys().chain(o.keys()).chain(s2.keys()).collect();
    for k in keys {
        let want = match o.get(k) {
            Some(Some(b)) => Some(Some(*b)),
            _ => s.get(k).cloned(),
        };
        ok &= s2.get(k).cloned() == want;
    }
    if !ok {
        sess.fail("cfg-merge", format!("merge_from: {:?} <- {:?} gave {:?} / {:?}", s, o, s2, o2), json!({"kind": "merge", "self": s, "other": o}), Some(case));
    }
    if o.values().any(|v| v.is_some()) && !s.is_empty() {
        sess.nontrivial(&op);
    }
}

fn eval_fill(sess: &mut Session, u: &CfgMap, curated: &CfgMap, names: &[String]) {
    let mut r = to_real(u);
    r.fill_with_curated();
    let got = from_real(&r);
    let op = format!("cfg fill |{} |{}", grp(&show_cfg(u)), grp(&show_cfg(curated)));
    let case = sess.k(&op, &format!("ok{}", grp(&show_cfg(&got))));
    sess.count("cfg:fill");
    let mut ok = true;
    let keys: std::collections::BTreeSet<&String> = u.keys().chain(curated.keys()).chain(got.keys()).collect();
    for k in keys {
        let want = match u.get(k) {
            Some(Some(b)) => Some(Some(*b)), // explicit user choices always win
            _ => curated.get(k).cloned(),   // unmentioned rules take their curated default
        };
        ok &= got.get(k).cloned() == want;
        ok &= r.is_rule_enabled(k) == want.flatten().unwrap_or(false);
    }
    // every real rule has a definite value afterwards
    ok &= names.iter().all(|n| matches!(got.get(n), Some(Some(_))));
    if !ok {
        sess.fail("cfg-fill", format!("fill_with_curated of {:?} gave {:?}", u, trunc(&format!("{:?}", got), 300)), json!({"kind": "fill", "user": u}), Some(case));
    }
    if u.values().any(|v| v.is_some()) {
        sess.nontrivial(&op);
    }
}

fn eval_single(sess: &mut Session, c: &CfgMap, o: &COp, curated: &CfgMap) {
    let mut real = to_real(c);
    o.apply(&mut real);
    let got = from_real(&real);
    let w = o.words(curated);
    let op = format!("cfg {} |{}", w, grp(&show_cfg(c)));
    let case = sess.k(&op, &format!("ok{}", grp(&show_cfg(&got))));
    sess.count("cfg:single");
    let want = o.expected(c, curated);
    if got != want {
        sess.fail("cfg-op", format!("{:?} on {:?}: got {:?}, the property says {:?}", o, c, got, want), json!({"kind": "seq", "init": c, "ops": [o.json()]}), Some(case));
    }
}

fn eval_enabled(sess: &mut Session, c: &CfgMap, k: &str) {
    let real = to_real(c);
    let got = real.is_rule_enabled(k);
    let op = format!("cfg enabled {} |{}", enc_name(k), grp(&show_cfg(c)));
    let case = sess.k(&op, &format!("ok {}", b01(got)));
    sess.count("cfg:enabled");
    if got != (c.get(k) == Some(&Some(true))) {
        sess.fail("cfg-enabled", format!("is_rule_enabled({:?}) on {:?} = {}", k, c, got), json!({"kind": "enabled", "config": c, "key": k}), Some(case));
    }
}

// ---------------------------------------------------------------------------------------------
// lint_is_combination

struct DocResult {
    k: Option<(String, String)>,
    fails: Vec<(String, String, Value)>,
    counts: Vec<String>,
    monitors: Vec<(String, bool)>,
    o_cases: usize,
    nontrivial: bool,
    table: Option<DocTable>,
}

fn is_subsequence(a: &[Lint], b: &[Lint]) -> bool {
    let mut i = 0;
    for x in b {
        if i < a.len() && a[i] == *x {
            i += 1;
        }
    }
    i == a.len()
}

fn multiset(ls: &[Lint]) -> BTreeMap<String, usize> {
    let mut m = BTreeMap::new();
    for l in ls {
        *m.entry(format!("{}:{}:{}", l.span.start, l.span.end, payload(l))).or_insert(0) += 1;
    }
    m
}

/// all the configurations tried on one document; `extra` (from a replay) first
fn configs_for(rng: &mut Rng, names: &RuleNames, firing: &[String], curated: &CfgMap, gen_: &Gen, extra: &[CfgMap]) -> Vec<(String, CfgMap)> {
    let all = names.all();
    let mut out: Vec<(String, CfgMap)> = extra.iter().map(|c| ("replay".to_string(), c.clone())).collect();
    // all rules on
    out.push(("all-on".into(), all.iter().map(|n| (n.clone(), Some(true))).collect()));
    // the curated defaults overlaid with a small user configuration
    let mut user = CfgMap::new();
    for r in firing {
        if rng.chance(1, 2) {
            user.insert(r.clone(), gen_.val(rng));
        }
    }
    user.insert(rng.pick(&gen_.unknown).clone(), Some(true));
    let mut filled = to_real(&user);
    filled.fill_with_curated();
    out.push(("curated+user".into(), from_real(&filled)));
    // only the firing rules
    out.push(("firing-only".into(), firing.iter().map(|n| (n.clone(), Some(true))).collect()));
    // sparse random subsets: each firing rule on/off/unset/null, a few others on, unknown keys
    for _ in 0..3 {
        let mut m = CfgMap::new();
        for r in firing {
            match rng.below(6) {
                0 => {}
                1 => {
                    m.insert(r.clone(), None);
                }
                2 => {
                    m.insert(r.clone(), Some(false));
                }
                _ => {
                    m.insert(r.clone(), Some(true));
                }
            }
        }
        for _ in 0..rng.below(12) {
            m.entry(rng.pick(&all).clone()).or_insert(Some(rng.chance(2, 3)));
        }
        if rng.chance(1, 2) {
            m.insert(rng.pick(&gen_.unknown).clone(), gen_.val(rng));
        }
        out.push(("sparse".into(), m));
    }
    // a dense random subset
    if rng.chance(1, 3) {
        out.push(("dense".into(), all.iter().filter(|_| rng.chance(1, 2)).map(|n| (n.clone(), Some(true))).collect()));
    }
    let _ = curated;
    out
}

fn eval_doc(dict: &Dict, names: &RuleNames, cap: usize, curated: &CfgMap, gen_: &Gen, text: &str, lang: Lang, seed: u64, extra: &[CfgMap]) -> DocResult {
    let mut rng = Rng(seed);
    let mut res = DocResult { k: None, fails: vec![], counts: vec![], monitors: vec![], o_cases: 0, nontrivial: false, table: None };
    let t = build_table(dict, names, text, lang, true);
    if t.panicked {
        res.counts.push("doc:rule-panicked(skipped)".into());
        return res;
    }
    res.monitors.push(("pattern-lint-starts-inside-one-chunk-in-order".into(), t.attributed));
    for r in &t.fresh_mismatch {
        res.fails.push(("alone-not-fresh".into(), format!("rule {} alone: a group that had run other rules alone before differs from a brand-new group", r), json!({"kind": "doc", "text": text, "lang": lang.name(), "configs": []})));
    }
    if !t.attributed {
        return res;
    }
    if !t.shared_fired.is_empty() {
        res.counts.push("doc:a-name-shared-by-both-rule-maps-fires(no K line, multiset oracle)".into());
    }
    let firing: Vec<String> = t.alone.keys().cloned().collect();
    res.counts.push(format!("doc:firing-rules:{}", firing.len().min(9)));
    res.counts.push(format!("doc:chunks:{}", t.chunks.len().min(9)));
    let doc = make_doc(text, lang, dict);
    let mut g = new_group(dict); // one long-lived group per document: the `lg` line is its whole history
    let mut line = LgLine::new(cap, names);
    let mut cfgs = configs_for(&mut rng, names, &firing, curated, gen_, extra);
    // toggles: a configuration with firing rule r on, then the same with r switched off
    if !firing.is_empty() {
        let r = rng.pick(&firing).clone();
        let mut on: CfgMap = firing.iter().map(|n| (n.clone(), Some(true))).collect();
        for _ in 0..rng.below(8) {
            on.entry(rng.pick(&names.pat).clone()).or_insert(Some(true));
        }
        let mut off = on.clone();
        match rng.below(3) {
            0 => {
                off.remove(&r);
            }
            1 => {
                off.insert(r.clone(), None);
            }
            _ => {
                off.insert(r.clone(), Some(false));
            }
        }
        cfgs.push((format!("toggle-on:{}", r), on));
        cfgs.push((format!("toggle-off:{}", r), off));
    }
    // a partition of an enabled set into two halves
    {
        let mut e: Vec<String> = firing.clone();
        for _ in 0..rng.below(10) {
            let n = rng.pick(&names.doc).clone();
            if !e.contains(&n) {
                e.push(n);
            }
        }
        let whole: CfgMap = e.iter().map(|n| (n.clone(), Some(true))).collect();
        let mut h1 = CfgMap::new();
        let mut h2 = CfgMap::new();
        for n in &e {
            if rng.chance(1, 2) { h1.insert(n.clone(), Some(true)); } else { h2.insert(n.clone(), Some(true)); }
        }
        cfgs.push(("part-whole".into(), whole));
        cfgs.push(("part-1".into(), h1));
        cfgs.push(("part-2".into(), h2));
    }
    // unknown keys on top of an earlier configuration
    {
        let (_, base) = cfgs[rng.below(cfgs.len())].clone();
        let mut with = base.clone();
        for u in &gen_.unknown {
            if rng.chance(1, 2) && !with.contains_key(u) {
                with.insert(u.clone(), gen_.val(&mut rng));
            }
        }
        cfgs.push(("unknown-base".into(), base));
        cfgs.push(("unknown-added".into(), with));
    }
    let mut outs: Vec<Vec<Lint>> = vec![];
    for (tag, c) in &cfgs {
        g.config = to_real(c);
        let real = match guarded(|| g.lint(&doc)) {
            Ok(l) => l,
            Err(_) => {
                res.counts.push("doc:group-panicked(skipped)".into());
                return res;
            }
        };
        line.cfg(c);
        if t.k_usable() {
            line.lint(&t, &real);
        }
        res.o_cases += 1;
        res.counts.push(format!("config:{}", tag.split(':').next().unwrap()));
        // the property read directly
        let mut want = combine(&t, &enabled_in(c));
        let mut got: Vec<L> = real.iter().map(to_l).collect();
        if !t.k_usable() {
            // one switch name, two rules: compare as multisets at the level of switch names
            want = t.alone.iter().filter(|(r, _)| enabled_in(c)(r.as_str())).flat_map(|(_, l)| l.iter().map(to_l)).collect();
            want.sort();
            got.sort();
        }
        if want != got {
            let culprit = format!("{} lint(s) under the configuration, {} from the enabled rules alone", got.len(), want.len());
            res.fails.push(("combination".into(), format!("lints under a configuration are not the combination of its enabled rules' own lints ({}): {}", tag, culprit), json!({"kind": "doc", "text": text, "lang": lang.name(), "configs": [c]})));
        }
        // a disabled rule contributes nothing: every lint is a lint of an enabled rule
        let enabled_total: usize = t.alone.iter().filter(|(r, _)| enabled_in(c)(r.as_str())).map(|(_, l)| l.len()).sum();
        if real.len() != enabled_total {
            res.fails.push(("disabled-contributes".into(), format!("{} lints but the enabled rules alone give {} ({})", real.len(), enabled_total, tag), json!({"kind": "doc", "text": text, "lang": lang.name(), "configs": [c]})));
        }
        outs.push(real);
    }
    // toggling r leaves the others' lints alone
    for i in 0..cfgs.len() {
        if let Some(r) = cfgs[i].0.strip_prefix("toggle-on:") {
            let (on, off) = (&outs[i], &outs[i + 1]);
            res.o_cases += 1;
            let ok = is_subsequence(off, on) && on.len() - off.len().min(on.len()) == t.alone[r].len();
            if !ok {
                res.fails.push(("toggle".into(), format!("switching {} off changed other rules' lints", r), json!({"kind": "doc", "text": text, "lang": lang.name(), "configs": [cfgs[i].1, cfgs[i + 1].1]})));
            }
        }
        if cfgs[i].0 == "part-whole" {
            res.o_cases += 1;
            let mut both = outs[i + 1].clone();
            both.extend(outs[i + 2].iter().cloned());
            if multiset(&outs[i]) != multiset(&both) {
                res.fails.push(("partition".into(), "lints of an enabled set are not the union of the lints of its two halves".into(), json!({"kind": "doc", "text": text, "lang": lang.name(), "configs": [cfgs[i].1, cfgs[i + 1].1, cfgs[i + 2].1]})));
            }
        }
        if cfgs[i].0 == "unknown-base" {
            res.o_cases += 1;
            if outs[i] != outs[i + 1] {
                res.fails.push(("unknown-key".into(), "adding unknown rule names changed the lints".into(), json!({"kind": "doc", "text": text, "lang": lang.name(), "configs": [cfgs[i].1, cfgs[i + 1].1]})));
            }
        }
    }
    res.nontrivial = firing.len() >= 2;
    if t.k_usable() {
        res.k = Some(line.finish());
    }
    res.table = Some(t);
    res
}

fn absorb(sess: &mut Session, hloc: &mut HLoc, r: DocResult) {
    let mut case = None;
    if let Some((op, imp)) = &r.k {
        case = Some(sess.k(op, imp));
        if r.nontrivial {
            sess.nontrivial(op);
        }
    }
    for _ in 0..r.o_cases {
        sess.o();
    }
    for c in &r.counts {
        sess.count(c);
    }
    for (m, ok) in &r.monitors {
        sess.monitor(m, *ok);
    }
    for (class, desc, input) in r.fails {
        sess.fail(&class, desc, input, case);
    }
    if let Some(t) = &r.table {
        let bad = hloc.add(t);
        sess.monitor("H_loc: a pattern rule's lints relative to the chunk start depend only on the chunk's characters and relative tokens", bad.is_empty());
    }
}

fn gen_text(rng: &mut Rng, sents: &[String]) -> String {
    let n = rng.range(1, 3);
    let mut parts = vec![];
    for _ in 0..n {
        parts.push(rng.pick(sents).clone());
    }
    let sep = *rng.pick(&[" ", " ", "\n\n", " "]);
    parts.join(sep)
}

/// The switches at the SERVER: one session per user configuration through the real `Backend`
/// (in process, over the wire format). Between two publications the client asks for code actions,
/// ignores nothing, changes the text: every publication must be exactly what harper-core reports
/// for that text under that configuration (curated defaults for what the user left open, the
/// user's explicit choices everywhere else) — before AND after every other request.
fn eval_server(sess: &mut Session, ctx: &Ctx, linters: &Value, script: &[&str], texts: &[String]) -> Result<(), crate::lsclient::LsError> {
    use crate::config::Config;
    use crate::diagnostics::lints_to_diagnostics;
    use crate::lsclient::*;
    use harper_core::linting::LintGroup;
    use harper_core::{Document, FstDictionary};
    set_home(&ctx.out.join("c11-home"));
    let cfg = json!({"harper-ls": {"linters": linters}});
    let expected = |text: &str| -> Vec<String> {
        let dict = FstDictionary::curated();
        let lcfg = Config::from_lsp_config(cfg.clone()).unwrap();
        let doc = Document::new_plain_english(text, &dict);
        let mut g = LintGroup::new_curated(dict.clone(), lcfg.dialect).with_lint_config(lcfg.lint_config.clone());
        g.config.fill_with_curated();
        let lints = g.lint(&doc);
        let v = serde_json::to_value(lints_to_diagnostics(doc.get_full_content(), &lints, lcfg.diagnostic_severity)).unwrap();
        let mut out: Vec<String> = v.as_array().map(|a| a.iter().map(|d| format!("{}:{}-{}:{} {}", d["range"]["start"]["line"], d["range"]["start"]["character"], d["range"]["end"]["line"], d["range"]["end"]["character"], d["message"].as_str().unwrap_or(""))).collect()).unwrap_or_default();
        out.sort();
        out
    };
    // w25: the lints (serialised, sorted) that overlap column `c` of the first line under the configuration
    let expected_action_lints = |text: &str, c: usize| -> Vec<String> {
        let dict = FstDictionary::curated();
        let lcfg = Config::from_lsp_config(cfg.clone()).unwrap();
        let doc = Document::new_plain_english(text, &dict);
        let mut g = LintGroup::new_curated(dict.clone(), lcfg.dialect).with_lint_config(lcfg.lint_config.clone());
        g.config.fill_with_curated();
        let at = harper_core::Span::new(c, c + 1); // first line, BMP text: column = char index
        let mut out: Vec<String> = g.lint(&doc).iter().filter(|l| l.span.overlaps_with(at)).map(|l| serde_json::to_value(l).map(|v| v.to_string()).unwrap_or_default()).collect();
        out.sort();
        out
    };
    let show = |v: &Value| -> Vec<String> {
        let mut out: Vec<String> = v.as_array().map(|a| a.iter().map(|d| format!("{}:{}-{}:{} {}", d["range"]["start"]["line"], d["range"]["start"]["character"], d["range"]["end"]["line"], d["range"]["end"]["character"], d["message"].as_str().unwrap_or(""))).collect()).unwrap_or_default();
        out.sort();
        out
    };
    let uri = "file:///c11-server/doc.txt".to_string();
    let mut ls = LsSession::start()?;
    ls.initialize(&cfg)?;
    let mut ver = 0usize;
    let mut cur: Option<String> = None;
    let mut done: Vec<String> = vec![];
    for step in script {
        match *step {
            "open" | "change" => {
                let t = texts[ver % texts.len()].clone();
                ver += 1;
                if *step == "open" {
                    ls.notify("textDocument/didOpen", did_open(&uri, "plaintext", &t))?;
                } else {
                    ls.notify("textDocument/didChange", did_change(&uri, ver as i64, &t))?;
                }
                ls.quiesce(&cfg)?;
                cur = Some(t);
            }
            "action" => {
                // a request at every fourth column of the first line (some inside a flagged word)
                let n = cur.as_ref().map(|t| t.lines().next().unwrap_or("").chars().count()).unwrap_or(0);
                for c in (0..n).step_by(4) {
                    let params = json!({"textDocument": {"uri": uri}, "range": {"start": {"line": 0, "character": c}, "end": {"line": 0, "character": c + 1}}, "context": {"diagnostics": []}});
                    let resp = ls.request_sync("textDocument/codeAction", params, &cfg)?;
                    // w25: the code actions come from a lint pass of their own (generate_code_actions):
                    // the lints they are offered for (each carries its lint in its HarperIgnoreLint
                    // command) are exactly harper-core's lints under this configuration at that column
                    if let Some(t) = &cur {
                        let want = expected_action_lints(t, c);
                        let mut got: Vec<String> = resp["result"].as_array().map(|a| a.iter().filter(|x| x["command"].as_str() == Some("HarperIgnoreLint")).map(|x| x["arguments"][1].to_string()).collect()).unwrap_or_default();
                        got.sort();
                        sess.o();
                        sess.count(&format!("server:code-action-lints:{}", want.len().min(3)));
                        if got != want {
                            let show = |v: &[String]| v.iter().map(|s| serde_json::from_str::<Value>(s).map(|l| l["message"].as_str().unwrap_or("").to_string()).unwrap_or_default()).take(3).collect::<Vec<_>>();
                            sess.fail(
                                "server-action-switch-not-obeyed",
                                format!("through the real Backend, linters = {}: after {:?} the code actions at column {} of {:?} are offered for {} lint(s) {:?}; harper-core under this configuration has {} there {:?}", linters, done, c, t, got.len(), show(&got), want.len(), show(&want)),
                                json!({"kind": "server", "linters": linters, "script": script, "texts": texts}),
                                None,
                            );
                            ls.shutdown(&cfg)?;
                            return Ok(());
                        }
                    }
                }
            }
            "close" => {
                ls.notify("textDocument/didClose", did_close(&uri))?;
                ls.quiesce(&cfg)?;
                cur = None;
            }
            _ => {}
        }
        done.push(step.to_string());
        if let (Some(t), true) = (&cur, *step == "open" || *step == "change") {
            sess.o();
            let want = expected(t);
            let got = ls.last_publication(&uri).map(|v| show(v)).unwrap_or_default();
            sess.count(&format!("server:diagnostics:{}", want.len().min(6)));
            if want != got {
                let only_pub: Vec<&String> = got.iter().filter(|g| !want.contains(g)).take(3).collect();
                let only_core: Vec<&String> = want.iter().filter(|g| !got.contains(g)).take(3).collect();
                sess.fail(
                    "server-switch-not-obeyed",
                    format!("through the real Backend, linters = {}: after {:?} the publication for {:?} is not what harper-core reports under this configuration — published only: {:?}; expected only: {:?}", linters, done, t, only_pub, only_core),
                    json!({"kind": "server", "linters": linters, "script": script, "texts": texts}),
                    None,
                );
                break;
            } else {
                sess.nontrivial(&format!("server|{}|{:?}", linters, done));
            }
        }
    }
    ls.shutdown(&cfg)?;
    Ok(())
}

/// The switches at the JS API (`harper_wasm::Linter::{set_lint_config_from_json, lint,
/// get_lint_config_as_json}`, built natively): under a user configuration the reported lints are
/// harper-core's under curated defaults + the explicit choices; the configuration read back is the
/// one that was set, also after linting (lint() fills in defaults temporarily and must restore).
fn eval_js(sess: &mut Session, linters: &Value, texts: &[String]) {
    use harper_core::linting::LintGroup;
    use harper_core::{Document, FstDictionary};
    use harper_wasm::{Dialect as WDialect, Language, Linter as WLinter};
    let dict = FstDictionary::curated();
    let user: LintGroupConfig = match serde_json::from_value(linters.clone()) {
        Ok(c) => c,
        Err(_) => return,
    };
    let expected = |text: &str| -> Vec<(usize, usize, String)> {
        let doc = Document::new_plain_english(text, &dict);
        let mut g = LintGroup::new_curated(dict.clone(), harper_core::Dialect::American).with_lint_config(user.clone());
        g.config.fill_with_curated();
        let mut l = g.lint(&doc);
        harper_core::remove_overlaps(&mut l);
        l.iter().map(|l| (l.span.start, l.span.end, l.message.clone())).collect()
    };
    let mut js = WLinter::new(WDialect::American);
    let inp = json!({"kind": "js", "linters": linters, "texts": texts});
    if let Err(e) = js.set_lint_config_from_json(linters.to_string()) {
        sess.count(&format!("js:config-rejected:{}", e.chars().take(30).collect::<String>()));
        return;
    }
    let set_as: Value = serde_json::from_str(&js.get_lint_config_as_json()).unwrap_or(Value::Null);
    for (i, t) in texts.iter().enumerate() {
        let Ok(out) = guarded(|| js.lint(t.clone(), Language::Plain)) else { return };
        let got: Vec<(usize, usize, String)> = out.iter().map(|l| (l.span().start, l.span().end, l.message())).collect();
        let want = expected(t);
        sess.o();
        if got != want {
            sess.fail("js-switch-not-obeyed", format!("harper_wasm::Linter with linters = {}: lint #{} of {:?} reports {:?}, harper-core under that configuration {:?}", linters, i, t, got.iter().take(4).collect::<Vec<_>>(), want.iter().take(4).collect::<Vec<_>>()), inp.clone(), None);
            return;
        }
        let now: Value = serde_json::from_str(&js.get_lint_config_as_json()).unwrap_or(Value::Null);
        if now != set_as {
            sess.fail("js-config-changed-by-lint", format!("get_lint_config_as_json after lint() differs from what it returned right after set_lint_config_from_json ({} keys vs {})", now.as_object().map(|o| o.len()).unwrap_or(0), set_as.as_object().map(|o| o.len()).unwrap_or(0)), inp.clone(), None);
            return;
        }
    }
    sess.nontrivial(&format!("js|{}", linters));
    sess.count("origin:js-session");
}

// =============================================================================================
// w25 — oracle-only additions (notes/asbuilt_w25_C11.md): the switch clauses read WITHOUT per-rule
// tables on groups of every dialect, over a merged dictionary with user words, on documents of
// every language of the server and on text families the rule-test sentences do not contain; the
// group-level entry points (`set_all_rules_to`, `new_curated_empty_config`, `with_lint_config`);
// the JS API in Markdown, in other dialects and across `import_words`, and its JSON round trip;
// code actions at the server.

fn ms_l(ls: &[Lint]) -> BTreeMap<String, usize> {
    multiset(ls)
}

fn ms_add(a: &BTreeMap<String, usize>, b: &BTreeMap<String, usize>) -> BTreeMap<String, usize> {
    let mut m = a.clone();
    for (k, v) in b {
        *m.entry(k.clone()).or_insert(0) += v;
    }
    m
}

struct LightResult {
    fails: Vec<(String, String)>,
    o_cases: usize,
    counts: Vec<String>,
    nontrivial: bool,
    skipped: bool,
}

/// The clauses that need no per-rule table, on ONE new group per configuration (so that nothing
/// here depends on C05): dialect × dictionary × document language × text.
fn eval_light_on<D: harper_core::Dictionary + 'static>(dict: &std::sync::Arc<D>, dialect: harper_core::Dialect, id: &str, text: &str, seed: u64, unknown: &[String]) -> LightResult {
    use harper_core::linting::LintGroup;
    let mut res = LightResult { fails: vec![], o_cases: 0, counts: vec![], nontrivial: false, skipped: false };
    let mut rng = Rng(seed);
    let doc = crate::frontends::parser_for(id, false).and_then(|p| guarded(|| harper_core::Document::new(text, &p, &**dict)).ok());
    let Some(doc) = doc else {
        res.skipped = true;
        return res;
    };
    let lint_under = |cfg: LintGroupConfig| -> Option<Vec<Lint>> {
        let mut g = LintGroup::new_curated(dict.clone(), dialect).with_lint_config(cfg);
        guarded(|| g.lint(&doc)).ok()
    };
    let names: Vec<String> = LintGroup::new_curated(dict.clone(), dialect).iter_keys().map(|s| s.to_string()).collect::<std::collections::BTreeSet<_>>().into_iter().collect();
    let on: CfgMap = names.iter().map(|n| (n.clone(), Some(true))).collect();
    // group-level entry points
    {
        let mut g = LintGroup::new_curated(dict.clone(), dialect);
        g.set_all_rules_to(Some(true));
        res.o_cases += 1;
        if from_real(&g.config) != on {
            res.fails.push(("set-all-rules".into(), "set_all_rules_to(Some(true)) does not give every registered rule the value true".into()));
        }
        g.set_all_rules_to(Some(false));
        res.o_cases += 1;
        match guarded(|| g.lint(&doc)) {
            Ok(l) if !l.is_empty() => res.fails.push(("all-off-lints".into(), format!("every rule switched off (set_all_rules_to(Some(false))), still {} lint(s): {:?}", l.len(), l.iter().map(|l| (l.span.start, l.span.end, l.message.clone())).take(3).collect::<Vec<_>>()))),
            _ => {}
        }
        g.set_all_rules_to(None);
        res.o_cases += 1;
        if names.iter().any(|n| from_real(&g.config).contains_key(n)) {
            res.fails.push(("set-all-rules".into(), "set_all_rules_to(None) leaves a registered rule mentioned".into()));
        }
        // an explicit off for every rule as a user configuration overlaid on the curated defaults
        let mut u = to_real(&names.iter().map(|n| (n.clone(), Some(false))).collect::<CfgMap>());
        u.fill_with_curated();
        res.o_cases += 1;
        if let Some(l) = lint_under(u) {
            if !l.is_empty() {
                res.fails.push(("all-off-lints".into(), format!("every rule explicitly off, overlaid on the curated defaults: still {} lint(s)", l.len())));
            }
        }
    }
    let Some(all) = lint_under(to_real(&on)) else {
        res.skipped = true;
        return res;
    };
    res.counts.push(format!("light:lints-all-on:{}", all.len().min(9)));
    // which switches matter here: the hot ones and a few random ones
    let mut picks: Vec<String> = ["SpellCheck", "SentenceCapitalization", "RepeatedWords", "AnA", "LongSentences", "Spaces", "SpelledNumbers"].iter().map(|s| s.to_string()).filter(|n| names.contains(n)).collect();
    for _ in 0..3 {
        picks.push(rng.pick(&names).clone());
    }
    let mut fired = 0;
    for r in &picks {
        let mut off = on.clone();
        let how = rng.below(3);
        match how {
            0 => {
                off.remove(r);
            }
            1 => {
                off.insert(r.clone(), None);
            }
            _ => {
                off.insert(r.clone(), Some(false));
            }
        }
        let alone: CfgMap = [(r.clone(), Some(true))].into_iter().collect();
        let (Some(l_off), Some(l_alone)) = (lint_under(to_real(&off)), lint_under(to_real(&alone))) else { continue };
        res.o_cases += 1;
        if !l_alone.is_empty() {
            fired += 1;
        }
        // switching r off removes exactly r's own lints and leaves the others as they were, in order
        if !is_subsequence(&l_off, &all) || ms_l(&all) != ms_add(&ms_l(&l_off), &ms_l(&l_alone)) {
            res.fails.push(("light-toggle".into(), format!("rule {} ({}): all rules on give {} lints, all but {} give {}, {} alone gives {} — not (others unchanged) + (its own)", r, ["absent", "null", "off"][how], all.len(), r, l_off.len(), r, l_alone.len())));
        }
    }
    // a partition of all switches into two halves
    {
        let mut h1 = CfgMap::new();
        let mut h2 = CfgMap::new();
        for n in &names {
            if rng.chance(1, 2) { h1.insert(n.clone(), Some(true)); } else { h2.insert(n.clone(), Some(true)); }
        }
        // explicit off for the other half in h1, nothing in h2: both spellings of "off"
        for n in h2.keys() {
            h1.insert(n.clone(), Some(false));
        }
        if let (Some(a), Some(b)) = (lint_under(to_real(&h1)), lint_under(to_real(&h2))) {
            res.o_cases += 1;
            if ms_l(&all) != ms_add(&ms_l(&a), &ms_l(&b)) || !is_subsequence(&a, &all) || !is_subsequence(&b, &all) {
                res.fails.push(("light-partition".into(), format!("all rules on give {} lints, the two halves of a partition {} + {}", all.len(), a.len(), b.len())));
            }
        }
    }
    // unknown names are harmless
    {
        let mut with = on.clone();
        for u in unknown {
            with.insert(u.clone(), Some(rng.chance(1, 2)));
        }
        if let Some(l) = lint_under(to_real(&with)) {
            res.o_cases += 1;
            if l != all {
                res.fails.push(("light-unknown-key".into(), format!("unknown rule names changed the lints ({} vs {})", l.len(), all.len())));
            }
        }
    }
    // a sparse user configuration overlaid on the curated defaults = the curated group with exactly those switches changed
    {
        let mut user = CfgMap::new();
        for r in picks.iter().take(5) {
            user.insert(r.clone(), if rng.chance(1, 4) { None } else { Some(rng.chance(1, 2)) });
        }
        let mut filled = to_real(&user);
        filled.fill_with_curated();
        let mut by_hand = LintGroupConfig::new_curated();
        for (k, v) in &user {
            if let Some(b) = v {
                by_hand.set_rule_enabled(k, *b);
            }
        }
        if let (Some(a), Some(b)) = (lint_under(filled), lint_under(by_hand)) {
            res.o_cases += 1;
            if a != b {
                res.fails.push(("light-overlay".into(), format!("user configuration {:?} overlaid on the curated defaults gives {} lints, the curated defaults with those switches set by hand {}", user, a.len(), b.len())));
            }
        }
    }
    res.nontrivial = fired >= 2;
    res
}

fn eval_light(dialect: harper_core::Dialect, words: &[String], id: &str, text: &str, seed: u64, unknown: &[String]) -> LightResult {
    if words.is_empty() { eval_light_on(&harper_core::FstDictionary::curated(), dialect, id, text, seed, unknown) } else { eval_light_on(&crate::c05::user_merged(words), dialect, id, text, seed, unknown) }
}

fn light_stream(sess: &mut Session, rng: &mut Rng, gen_: &Gen, thorough: bool, only: Option<&Value>) {
    let words: Vec<String> = crate::c05::USER_WORDS.iter().map(|s| s.to_string()).collect();
    let mut jobs: Vec<(harper_core::Dialect, Vec<String>, String, &'static str, String, u64)> = vec![];
    if let Some(v) = only {
        let w: Vec<String> = serde_json::from_value(v["words"].clone()).unwrap_or_default();
        jobs.push((crate::c05::dialect_of(v["dialect"].as_str().unwrap_or("")), w, v["lang"].as_str().unwrap_or("plaintext").to_string(), "replay", v["text"].as_str().unwrap_or("").to_string(), v["seed"].as_u64().unwrap_or(1)));
    } else {
        let fams = crate::c05::family_texts(thorough);
        let langs: Vec<String> = crate::c05::XLANGS.iter().filter(|id| crate::frontends::parser_for(id, false).is_some()).map(|s| s.to_string()).collect();
        let n = if thorough { 400 } else { 48 };
        for i in 0..n {
            let d = crate::c05::DIALECTS[i % 4].0;
            let w = if (i / 4) % 2 == 0 { vec![] } else { words.clone() };
            let (tag, prose) = fams[(i / 8 + i) % fams.len()].clone();
            let id = if i % 3 == 0 { "plaintext".to_string() } else { rng.pick(&langs).clone() };
            let text = crate::frontends::embed(&id, &prose, rng.below(4));
            jobs.push((d, w, id, tag, text, rng.next()));
        }
    }
    let results = par_map(jobs.len(), 16, |i| eval_light(jobs[i].0, &jobs[i].1, &jobs[i].2, &jobs[i].4, jobs[i].5, &gen_.unknown));
    for (r, (d, w, id, tag, text, seed)) in results.into_iter().zip(jobs.iter()) {
        for _ in 0..r.o_cases.max(1) {
            sess.o();
        }
        if r.skipped {
            sess.count("light:skipped(front-end or all-on group panicked)");
            continue;
        }
        sess.count(&format!("light:dialect:{}", crate::c05::dialect_name(*d)));
        sess.count(if w.is_empty() { "light:dictionary:curated" } else { "light:dictionary:merged-with-user-words" });
        sess.count(&format!("light:lang:{}", id));
        sess.count(&format!("light:family:{}", tag));
        for c in &r.counts {
            sess.count(c);
        }
        if r.nontrivial {
            sess.nontrivial(&format!("light|{}|{}|{}|{}", crate::c05::dialect_name(*d), w.len(), id, text));
        }
        for (class, desc) in r.fails {
            sess.fail(&class, format!("dialect {}, user words {:?}, language {}: {}", crate::c05::dialect_name(*d), w, id, desc), json!({"kind": "light", "dialect": crate::c05::dialect_name(*d), "words": w, "lang": id, "text": text, "seed": seed}), None);
        }
    }
}

/// The JS API beyond plain American text: Markdown, other dialects, user words imported between
/// lints (the rebuild must keep the switches), and the configuration's JSON round trip through
/// `get_lint_config_as_json` / `set_lint_config_from_json` of a second Linter.
fn eval_js_ext(sess: &mut Session, linters: &Value, texts: &[String]) {
    use crate::c05::WOp;
    use harper_wasm::{Dialect as WDialect, Linter as WLinter};
    let inp = |what: &str| json!({"kind": "js-ext", "linters": linters, "texts": texts, "what": what});
    // round trip
    if let Ok(Ok((a, b, c))) = guarded(|| -> Result<(Value, Value, Value), String> {
        let mut one = WLinter::new(WDialect::American);
        one.set_lint_config_from_json(linters.to_string())?;
        let a = one.get_lint_config_as_json();
        let mut two = WLinter::new(WDialect::British);
        two.set_lint_config_from_json(a.clone())?;
        let b = two.get_lint_config_as_json();
        // and through import_words (rebuilds the group)
        one.import_words(vec!["tset".to_string()]);
        let c = one.get_lint_config_as_json();
        Ok((serde_json::from_str(&a).unwrap_or(Value::Null), serde_json::from_str(&b).unwrap_or(Value::Null), serde_json::from_str(&c).unwrap_or(Value::Null)))
    }) {
        sess.o();
        if a != b {
            sess.fail("js-config-roundtrip", format!("linters = {}: get_lint_config_as_json of one Linter, set on a second one, reads back differently", linters), inp("roundtrip"), None);
        }
        sess.o();
        if a != c {
            sess.fail("js-config-changed-by-import", format!("linters = {}: get_lint_config_as_json differs after import_words", linters), inp("import"), None);
        }
        // what was set is what is read: every explicit choice is there, nothing else has a value
        sess.o();
        let explicit: BTreeMap<String, bool> = linters.as_object().map(|o| o.iter().filter_map(|(k, v)| v.as_bool().map(|b| (k.clone(), b))).collect()).unwrap_or_default();
        let read: BTreeMap<String, bool> = a.as_object().map(|o| o.iter().filter_map(|(k, v)| v.as_bool().map(|b| (k.clone(), b))).collect()).unwrap_or_default();
        if explicit != read {
            sess.fail("js-config-readback", format!("linters = {}: the explicit choices read back are {:?}", linters, read), inp("readback"), None);
        }
    }
    // switches obeyed in Markdown, in every dialect, before and after import_words
    for (i, (d, _)) in crate::c05::DIALECTS.iter().enumerate() {
        let mut ops = vec![WOp::SetCfg(linters.to_string())];
        for (j, t) in texts.iter().enumerate() {
            ops.push(WOp::Lint(t.clone(), (i + j) % 2 == 0));
        }
        ops.push(WOp::Import(vec!["tset".to_string(), "Wrods".to_string()]));
        for (j, t) in texts.iter().enumerate() {
            ops.push(WOp::Lint(t.clone(), (i + j) % 2 == 1));
        }
        sess.o();
        sess.count(&format!("js-ext:dialect:{}", crate::c05::dialect_name(*d)));
        match crate::c05::eval_wasm_dict(*d, &ops) {
            Ok(None) => sess.nontrivial(&format!("js-ext|{}|{}", linters, i)),
            Ok(Some((_, desc))) => sess.fail("js-switch-not-obeyed", desc, json!({"kind": "js-ext", "linters": linters, "texts": texts, "dialect": crate::c05::dialect_name(*d), "what": "lint"}), None),
            Err(_) => sess.count("js-ext:panicked(skipped)"),
        }
    }
}

/// The switches at the COMMAND LINE (`harper-cli lint --count --only-lint-with R …`, the real
/// executable, built like C13 does): only the named rules contribute — the count under a set of
/// rules is the sum of the counts under each rule alone, equals harper-core's count under that
/// configuration, and an unknown rule name changes nothing.
fn cli_stream(sess: &mut Session, ctx: &Ctx, rng: &mut Rng, thorough: bool) {
    use harper_core::linting::LintGroup;
    let target = std::path::PathBuf::from(env!("CARGO_MANIFEST_DIR")).join("target").join("lsbin");
    let built = std::process::Command::new("cargo")
        .args(["build", "--offline", "--locked", "-p", "harper-cli", "--manifest-path", "/repo/Cargo.toml", "--target-dir"])
        .arg(&target)
        .env("CARGO_NET_OFFLINE", "true")
        .stdout(std::process::Stdio::null())
        .stderr(std::process::Stdio::null())
        .status()
        .map(|s| s.success())
        .unwrap_or(false);
    sess.count(if built { "cli:built" } else { "cli:not-built(stream skipped)" });
    if !built {
        return;
    }
    let bin = target.join("debug").join("harper-cli");
    let dir = ctx.out.join("c11-cli");
    let _ = std::fs::create_dir_all(&dir);
    let dict = harper_core::FstDictionary::curated();
    let texts = [
        "There is a tset here, and we bought 3 apples. this is very boring, and it is an test of the the thing.\n",
        "He held his baited **breath** again; back in the days it were a alot worse then, and teh end is is near.\n",
        "Teh café was naïve — teh résumé 😀 is an test.\r\nthe the end\r\n",
    ];
    let hot = ["SpellCheck", "RepeatedWords", "AnA", "SentenceCapitalization", "SpelledNumbers", "BoringWords", "BaitedBreath", "ALot"];
    let count_of = |file: &std::path::Path, rules: &[String], dialect: &str| -> Option<usize> {
        let mut cmd = std::process::Command::new(&bin);
        cmd.arg("lint").arg(file).arg("--count").arg("--dialect").arg(dialect).arg("--user-dict-path").arg(dir.join("no_user_dict.txt")).arg("--file-dict-path").arg(dir.join("no_file_dicts"));
        for r in rules {
            cmd.arg("--only-lint-with").arg(r);
        }
        let out = cmd.output().ok()?;
        String::from_utf8_lossy(&out.stdout).lines().last()?.trim().parse::<usize>().ok()
    };
    let nsets = if thorough { 6 } else { 1 };
    // the cases first, then every invocation of the executable side by side (a debug build of
    // harper-cli spends > 1 s loading the dictionary)
    let mut cases: Vec<(usize, std::path::PathBuf, harper_core::Dialect, &'static str, Vec<String>)> = vec![];
    for (ti, text) in texts.iter().enumerate() {
        let file = dir.join(format!("input{}.md", ti));
        let _ = std::fs::write(&file, text);
        for si in 0..nsets {
            let (dialect, dname) = crate::c05::DIALECTS[(ti + si) % 4];
            let mut rules: Vec<String> = vec![];
            for _ in 0..rng.range(2, 3) {
                let r = rng.pick(&hot).to_string();
                if !rules.contains(&r) {
                    rules.push(r);
                }
            }
            cases.push((ti, file.clone(), dialect, dname, rules));
        }
    }
    let mut queries: Vec<(usize, Vec<String>)> = vec![];
    for (ci, c) in cases.iter().enumerate() {
        queries.push((ci, c.4.clone()));
        for r in &c.4 {
            queries.push((ci, vec![r.clone()]));
        }
        let mut with = c.4.clone();
        with.push("NoSuchRule".to_string());
        queries.push((ci, with));
    }
    let answers: Vec<Option<usize>> = par_map(queries.len(), 16, |i| count_of(&cases[queries[i].0].1, &queries[i].1, cases[queries[i].0].3));
    let mut qi = 0;
    for (ti, _, dialect, dname, rules) in &cases {
        let text = texts[*ti];
        let whole = answers[qi];
        let alone: Vec<Option<usize>> = answers[qi + 1..qi + 1 + rules.len()].to_vec();
        let unknown = answers[qi + 1 + rules.len()];
        qi += rules.len() + 2;
        let inp = json!({"kind": "cli", "text": text, "rules": rules, "dialect": dname});
        let Some(whole) = whole else {
            sess.count("cli:no-count(skipped)");
            continue;
        };
        sess.o();
        sess.count("origin:cli");
        if alone.iter().all(|a| a.is_some()) && whole != alone.iter().map(|a| a.unwrap()).sum::<usize>() {
            sess.fail("cli-combination", format!("harper-cli lint --count ({}) on {:?}: --only-lint-with {:?} counts {}, each rule alone {:?}", dname, text, rules, whole, alone), inp.clone(), None);
        }
        // harper-core under the same configuration (Markdown file, curated dictionary)
        let doc = harper_core::Document::new_markdown_default(text, &dict);
        let mut g = LintGroup::new_curated(dict.clone(), *dialect);
        g.config = to_real(&rules.iter().map(|r| (r.clone(), Some(true))).collect::<CfgMap>());
        if let Ok(want) = guarded(|| g.lint(&doc)) {
            sess.o();
            if want.len() != whole {
                sess.fail("cli-switch-not-obeyed", format!("harper-cli lint --count ({}) on {:?}: --only-lint-with {:?} counts {}, harper-core with exactly these rules on {}", dname, text, rules, whole, want.len()), inp.clone(), None);
            } else if whole > 0 {
                sess.nontrivial(&format!("cli|{}|{:?}|{}", ti, rules, dname));
            }
        }
        // an unknown name is harmless
        if let Some(n) = unknown {
            sess.o();
            if n != whole {
                sess.fail("cli-unknown-key", format!("harper-cli lint --count on {:?}: adding --only-lint-with NoSuchRule to {:?} changes the count {} → {}", text, rules, whole, n), inp.clone(), None);
            }
        }
    }
}

fn run_server(sess: &mut Session, ctx: &Ctx, only: Option<(&Value, Vec<String>, Vec<String>)>) {
    let texts: Vec<String> = vec![
        "There is a tset here, and we bought 3 apples. this is very boring, and it is an test.".into(),
        "There is a tset here, and we bought 3 apples. this is very boring, and it is an test. More text.".into(),
        "We bought 3 apples and a tset. this is very very boring.".into(),
    ];
    let configs = [
        json!({}),
        json!({"SpellCheck": false, "SpelledNumbers": true}),
        json!({"SentenceCapitalization": false, "BoringWords": true}),
        json!({"AnA": false, "RepeatedWords": false, "SpellCheck": true}),
        json!({"SpellCheck": null, "BoringWords": true, "NoSuchRule": true}),
    ];
    let scripts: [&[&str]; 4] = [
        &["open", "change", "change"],
        &["open", "action", "change", "action", "change"],
        &["action", "open", "action", "action", "change", "close", "open", "action", "change"],
        &["open", "change", "action", "close", "action", "open", "change"],
    ];
    let mut ok = true;
    if let Some((l, sc, tx)) = only {
        let sc: Vec<&str> = sc.iter().map(|s| s.as_str()).collect();
        ok &= eval_server(sess, ctx, l, &sc, &tx).is_ok();
    } else {
        for l in &configs {
            for sc in scripts {
                ok &= eval_server(sess, ctx, l, sc, &texts).is_ok();
                sess.count("origin:server-session");
            }
            eval_js(sess, l, &texts);
            eval_js_ext(sess, l, &texts);
        }
    }
    sess.monitor("the in-process language server completed the C11 sessions", ok);
}

pub fn run(ctx: &Ctx) {
    if std::env::var_os("HOME").is_none() {
        unsafe { std::env::set_var("HOME", "/tmp") };
    }
    let mut sess = Session::new(ctx);
    let mut rng = Rng::new(ctx.seed);
    let dict: Dict = harper_core::FstDictionary::curated();
    let names = rule_names(&new_group(&dict));
    let curated = from_real(&LintGroupConfig::new_curated());
    let (cap, cap_ok) = capacity_from_source("/repo/harper-core/src/linting/lint_group.rs");
    let all = names.all();
    let gen_ = Gen {
        names: all.clone(),
        unknown: ["NoSuchRule", "spellcheck", "", "~", "A=1", "Spell Check", "Règle", "名前", "😀rule", "a.b", "A|B", "-", "SpellCheck ", "\u{1}\u{1}AnA", "z\u{0}"].iter().map(|s| s.to_string()).collect(),
    };
    sess.monitor("iter_keys() splits into sorted whole-document rules then sorted pattern rules", names.split_ok);
    sess.monitor("every registered rule has a curated default", all.iter().all(|n| matches!(curated.get(n), Some(Some(_)))) && curated.len() == all.len());
    let shared = names.shared();
    sess.add("rule names that are keys of both rule maps (one switch, two rules)", shared.len() as u64);

    if let Some(v) = replay_input(ctx) {
        match v["kind"].as_str().unwrap_or("") {
            "seq" => {
                let init: CfgMap = serde_json::from_value(v["init"].clone()).unwrap_or_default();
                let ops: Vec<COp> = v["ops"].as_array().map(|a| a.iter().filter_map(COp::from_json).collect()).unwrap_or_default();
                eval_seq(&mut sess, &init, &ops, &curated, "replay");
            }
            "merge" => {
                let s: CfgMap = serde_json::from_value(v["self"].clone()).unwrap_or_default();
                let o: CfgMap = serde_json::from_value(v["other"].clone()).unwrap_or_default();
                eval_merge(&mut sess, &s, &o);
            }
            "fill" => {
                let u: CfgMap = serde_json::from_value(v["user"].clone()).unwrap_or_default();
                eval_fill(&mut sess, &u, &curated, &all);
            }
            "enabled" => {
                let c: CfgMap = serde_json::from_value(v["config"].clone()).unwrap_or_default();
                eval_enabled(&mut sess, &c, v["key"].as_str().unwrap_or(""));
            }
            "json" => {
                let c: CfgMap = serde_json::from_value(v["config"].clone()).unwrap_or_default();
                json_checks(&mut sess, &c, true);
            }
            "js" => {
                let tx: Vec<String> = serde_json::from_value(v["texts"].clone()).unwrap_or_default();
                eval_js(&mut sess, &v["linters"], &tx);
            }
            "js-ext" => {
                let tx: Vec<String> = serde_json::from_value(v["texts"].clone()).unwrap_or_default();
                eval_js_ext(&mut sess, &v["linters"], &tx);
            }
            "light" => light_stream(&mut sess, &mut rng, &gen_, false, Some(&v)),
            "server" => {
                let sc: Vec<String> = serde_json::from_value(v["script"].clone()).unwrap_or_default();
                let tx: Vec<String> = serde_json::from_value(v["texts"].clone()).unwrap_or_default();
                run_server(&mut sess, ctx, Some((&v["linters"], sc, tx)));
            }
            _ => {
                let extra: Vec<CfgMap> = serde_json::from_value(v["configs"].clone()).unwrap_or_default();
                let r = eval_doc(&dict, &names, cap, &curated, &gen_, v["text"].as_str().unwrap_or(""), Lang::from_name(v["lang"].as_str().unwrap_or("plain")), ctx.seed, &extra);
                let mut hloc = HLoc::default();
                absorb(&mut sess, &mut hloc, r);
            }
        }
        sess.nontrivial("replay-a");
        sess.nontrivial("replay-b");
        sess.finish("replay of one recorded input", false, json!({}));
        return;
    }

    // ---- 1. corpus -------------------------------------------------------------------------
    let m = |kv: &[(&str, Option<bool>)]| kv.iter().map(|(k, v)| (k.to_string(), *v)).collect::<CfgMap>();
    eval_seq(&mut sess, &m(&[("A", Some(true))]), &[COp::Clear, COp::SetIfUnset("A".into(), true), COp::SetIfUnset("B".into(), true)], &curated, "corpus");
    eval_seq(&mut sess, &m(&[("A", Some(false))]), &[COp::Unset("A".into()), COp::SetIfUnset("A".into(), true)], &curated, "corpus");
    eval_seq(&mut sess, &m(&[("SpellCheck", Some(false)), ("AnA", None), ("Nope", Some(true)), ("Gone", None)]), &[COp::Fill, COp::Fill], &curated, "corpus");
    eval_seq(&mut sess, &m(&[]), &[COp::Fill, COp::Clear, COp::Fill], &curated, "corpus");
    eval_seq(&mut sess, &m(&[("é", Some(true)), ("z", Some(true)), ("😀", None), ("", Some(false))]), &[COp::Set("Z".into(), false), COp::Other(m(&[("q", None)]))], &curated, "corpus");
    eval_merge(&mut sess, &m(&[("A", Some(true))]), &m(&[("A", Some(false)), ("B", None)]));
    eval_fill(&mut sess, &m(&[("SpellCheck", Some(false)), ("BoringWords", Some(true)), ("AnA", None), ("Unknown", None)]), &curated, &all);
    eval_enabled(&mut sess, &m(&[("A", None)]), "A");

    // ---- 2. exhaustive small scope ---------------------------------------------------------
    let keys3 = ["A", "B", "C"];
    for a in 0..64 {
        for b in 0..64 {
            eval_merge(&mut sess, &cfg_of(&keys3, a), &cfg_of(&keys3, b));
        }
    }
    for a in 0..64 {
        let c = cfg_of(&keys3, a);
        json_checks(&mut sess, &c, a % 4 == 0);
        for k in ["A", "B", "C", "D"] {
            eval_enabled(&mut sess, &c, k);
            for o in [COp::Set(k.into(), false), COp::Set(k.into(), true), COp::Unset(k.into()), COp::SetIfUnset(k.into(), false), COp::SetIfUnset(k.into(), true)] {
                eval_single(&mut sess, &c, &o, &curated);
            }
        }
        eval_single(&mut sess, &c, &COp::Clear, &curated);
    }
    // fill: a curated-on rule, a curated-off rule (if any), an unknown key × {absent, null, off, on}
    let on_rule = all.iter().find(|n| curated.get(*n) == Some(&Some(true))).cloned().unwrap_or("SpellCheck".into());
    let off_rule = all.iter().find(|n| curated.get(*n) == Some(&Some(false))).cloned().unwrap_or("BoringWords".into());
    let fk = [on_rule.as_str(), off_rule.as_str(), "NoSuchRule"];
    for a in 0..64 {
        eval_fill(&mut sess, &cfg_of(&fk, a), &curated, &all);
    }
    // merge orders over three configurations on 2 keys (4^2 each): (s<-a)<-b = s<-(a<-b)
    let keys2 = ["A", "B"];
    for s in 0..16 {
        for a in 0..16 {
            for b in 0..16 {
                let (cs, ca, cb) = (cfg_of(&keys2, s), cfg_of(&keys2, a), cfg_of(&keys2, b));
                let mut x = to_real(&cs);
                x.merge_from(&mut to_real(&ca));
                x.merge_from(&mut to_real(&cb));
                let mut ab = to_real(&ca);
                ab.merge_from(&mut to_real(&cb));
                let mut y = to_real(&cs);
                y.merge_from(&mut ab);
                sess.o();
                // compare as "which value a lookup sees" (a `null` left behind is not a value)
                let vis = |c: &LintGroupConfig| from_real(c).into_iter().filter(|(_, v)| v.is_some()).collect::<CfgMap>();
                let (vx, vy) = (vis(&x), vis(&y));
                let same_enabled = ["A", "B"].iter().all(|k| x.is_rule_enabled(k) == y.is_rule_enabled(k));
                if vx != vy || !same_enabled {
                    sess.fail("merge-order", "merging a then b differs from merging (b into a)".into(), json!({"kind": "seq", "init": cs, "ops": [COp::Merge(ca.clone()).json(), COp::Merge(cb.clone()).json()]}), None);
                }
            }
        }
    }

    // ---- 3. structured random: the real rule names + unknown keys --------------------------
    let nseq = if ctx.tier == Tier::Thorough { 20000 } else { 3000 };
    for i in 0..nseq {
        let init = gen_.cfg(&mut rng, 10);
        let n = rng.range(2, 14);
        let ops: Vec<COp> = (0..n).map(|_| gen_.op(&mut rng)).collect();
        eval_seq(&mut sess, &init, &ops, &curated, "random-seq");
        if i % 3 == 0 {
            let c = gen_.cfg(&mut rng, 40);
            json_checks(&mut sess, &c, i % 6 == 0);
            eval_enabled(&mut sess, &c, &gen_.key(&mut rng));
            eval_merge(&mut sess, &gen_.cfg(&mut rng, 12), &c);
        }
        if i % 10 == 0 {
            eval_fill(&mut sess, &gen_.cfg(&mut rng, 30), &curated, &all);
        }
    }
    // a full-size configuration round trip
    json_checks(&mut sess, &curated, true);

    // ---- 4. lint_is_combination on rule-test sentences -------------------------------------
    let sents = crate::corpus::sentences();
    let ndocs = if ctx.tier == Tier::Thorough { 6000 } else { 1200 };
    let mut jobs: Vec<(String, Lang, u64)> = vec![];
    for known in ["He held his baited **breath** again.", "Back in the days we had an test. This is is bad, and it were a alot worse then.", "There are many mistake here, is not it? Teh teh Teh."] {
        jobs.push((known.to_string(), Lang::Plain, rng.next()));
        jobs.push((known.to_string(), Lang::Markdown, rng.next()));
    }
    for _ in 0..ndocs {
        let text = gen_text(&mut rng, sents);
        let lang = if rng.chance(1, 4) { Lang::Markdown } else { Lang::Plain };
        jobs.push((text, lang, rng.next()));
    }
    let results = par_map(jobs.len(), 16, |i| {
        let (text, lang, seed) = &jobs[i];
        eval_doc(&dict, &names, cap, &curated, &gen_, text, *lang, *seed, &[])
    });
    let mut hloc = HLoc::default();
    for r in results {
        absorb(&mut sess, &mut hloc, r);
    }
    // ---- w25: the switches at the command line (before the server stream points HOME elsewhere: cargo needs it)
    {
        let t0 = std::time::Instant::now();
        cli_stream(&mut sess, ctx, &mut rng, ctx.tier == Tier::Thorough);
        sess.add("cli:ms", t0.elapsed().as_millis() as u64);
    }
    // ---- the switches at the server (real Backend, explicit user choices, code actions between publications)
    run_server(&mut sess, ctx, None);
    // ---- w25: the table-free clauses over dialects × dictionaries × document languages × text families
    {
        let t0 = std::time::Instant::now();
        light_stream(&mut sess, &mut rng, &gen_, ctx.tier == Tier::Thorough, None);
        sess.add("light:ms", t0.elapsed().as_millis() as u64);
    }
    sess.add("hloc:chunk-contents-checked", hloc.checked);
    sess.add("hloc:chunk-contents-seen-again", hloc.repeated);
    sess.finish(
        "corpus; exhaustive: merge_from over all pairs of configurations on 3 keys × {absent,null,off,on}, every single operation on all 64 such configurations × 4 keys, fill_with_curated of all 64 user configurations over (curated-on rule, curated-off rule, unknown key), merge orders over 16³ triples; random op sequences / merges / fills with the real rule names and hostile unknown keys; serde_json round trip and Config::from_lsp_config; lint_is_combination: 1–3 rule-test sentences (plain / Markdown), every rule run alone on new groups, ≥10 combined configurations per document (all-on, curated+user, firing-only, sparse, dense, toggle pairs, partitions, unknown keys); the switches at the server: 5 user configurations × 4 scripts of didOpen / didChange / codeAction / didClose through the real Backend, every publication = harper-core's lints under that configuration; the same configurations through harper_wasm::Linter (set_lint_config_from_json → lint ×3 → get_lint_config_as_json unchanged); w25 (oracle only): at every codeAction request the lints the actions are offered for = harper-core's lints under the configuration at that column; the JS API in Markdown, in all four dialects and across import_words, its configuration read back / round-tripped through a second Linter / unchanged by import_words; table-free clauses (all-off gives nothing, set_all_rules_to, toggle = others unchanged + own lints, partition, unknown keys, overlay = defaults with the explicit choices) on new groups of every dialect × {curated, merged with user words} × the server's document languages × text families (non-ASCII, CRLF, empty, long, repetitive …); the real harper-cli executable: lint --count --only-lint-with R… = sum of each R alone = harper-core with exactly those rules on, unknown names change nothing, in all four dialects. Non-trivial = op sequences of >1 op, merges with a Some value, documents on which ≥2 rules fire.",
        true,
        json!({"switch_names": all.len(), "names_in_both_rule_maps": shared, "whole_document_rules": names.doc.len(), "pattern_rules": names.pat.len(), "cache_capacity": cap, "cache_capacity_from_source": cap_ok,
               "exhaustive_scope": "merge: 64×64 configurations on 3 keys; single ops: 64 configurations × 4 keys × 6 ops; fill: 64 user configurations; merge order: 16×16×16"}),
    );
}
