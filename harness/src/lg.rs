//! Shared by C11 and C05: the real `LintGroup`'s rule names, configurations as maps, per-document
//! rule tables obtained from the real rules run ALONE, and the `lg` / `cfg` op-line encodings.
use crate::common::*;
use harper_core::linting::{Lint, LintGroup, LintGroupConfig, Linter};
use harper_core::parsers::{Markdown, PlainEnglish};
use harper_core::{Dialect, Document, FstDictionary, TokenStringExt};
use std::collections::{BTreeMap, HashMap};
use std::sync::Arc;

pub type Dict = Arc<FstDictionary>;
pub type CfgMap = BTreeMap<String, Option<bool>>;
/// span start, span end, payload (kind, suggestions, message, priority)
pub type L = (usize, usize, String);

#[derive(Clone, Copy, PartialEq, Eq, Hash, Debug, PartialOrd, Ord)]
pub enum Lang {
    Plain,
    Markdown,
}

impl Lang {
    pub fn name(self) -> &'static str {
        match self {
            Lang::Plain => "plain",
            Lang::Markdown => "markdown",
        }
    }
    pub fn from_name(s: &str) -> Lang {
        if s == "markdown" { Lang::Markdown } else { Lang::Plain }
    }
}

pub fn make_doc(text: &str, lang: Lang, dict: &Dict) -> Document {
    match lang {
        Lang::Plain => Document::new(text, &PlainEnglish, dict),
        Lang::Markdown => Document::new(text, &Markdown::default(), dict),
    }
}

pub fn new_group(dict: &Dict) -> LintGroup {
    LintGroup::new_curated(dict.clone(), Dialect::American)
}

/// The capacity constant of `chunk_pattern_cache` / `word_cache`, read from the source.
pub fn capacity_from_source(path: &str) -> (usize, bool) {
    if let Ok(src) = std::fs::read_to_string(path) {
        if let Some(i) = src.find("LruCache::new(NonZero::new(") {
            let rest = &src[i + "LruCache::new(NonZero::new(".len()..];
            let digits: String = rest.chars().take_while(|c| c.is_ascii_digit() || *c == '_').filter(|c| *c != '_').collect();
            if let Ok(n) = digits.parse::<usize>() {
                return (n, true);
            }
        }
    }
    (10000, false)
}

pub struct RuleNames {
    /// whole-document rules (`linters`), key order
    pub doc: Vec<String>,
    /// pattern rules (`pattern_linters`), key order
    pub pat: Vec<String>,
    /// `iter_keys()` = sorted `linters` keys then sorted `pattern_linters` keys had exactly one descent
    pub split_ok: bool,
}

impl RuleNames {
    /// every switch name once, sorted
    pub fn all(&self) -> Vec<String> {
        let mut v: Vec<String> = self.doc.iter().chain(self.pat.iter()).cloned().collect();
        v.sort();
        v.dedup();
        v
    }
    /// names that are a key of BOTH maps (`LintGroup::merge_from` does not check): one switch, two rules
    pub fn shared(&self) -> Vec<String> {
        self.doc.iter().filter(|n| self.pat.contains(n)).cloned().collect()
    }
}

pub fn rule_names(g: &LintGroup) -> RuleNames {
    let keys: Vec<String> = g.iter_keys().map(|s| s.to_string()).collect();
    let descents: Vec<usize> = (1..keys.len()).filter(|i| keys[i - 1] >= keys[*i]).collect();
    if descents.len() == 1 {
        RuleNames { doc: keys[..descents[0]].to_vec(), pat: keys[descents[0]..].to_vec(), split_ok: true }
    } else {
        RuleNames { doc: keys, pat: vec![], split_ok: false }
    }
}

pub fn to_real(m: &CfgMap) -> LintGroupConfig {
    serde_json::from_value(serde_json::to_value(m).unwrap()).unwrap()
}

pub fn from_real(c: &LintGroupConfig) -> CfgMap {
    serde_json::from_value(serde_json::to_value(c).unwrap()).unwrap()
}

pub fn enc_name(n: &str) -> String {
    if !n.is_empty() && n.chars().all(|c| c.is_ascii_alphanumeric()) {
        n.to_string()
    } else {
        format!("~{}", n.chars().map(|c| (c as u32).to_string()).collect::<Vec<_>>().join("."))
    }
}

pub fn show_val(v: &Option<bool>) -> &'static str {
    match v {
        Some(true) => "1",
        Some(false) => "0",
        None => "-",
    }
}

/// `name=v` words in key order (Rust's `String` order = the `BTreeMap`'s)
pub fn show_cfg(m: &CfgMap) -> String {
    m.iter().map(|(k, v)| format!("{}={}", enc_name(k), show_val(v))).collect::<Vec<_>>().join(" ")
}

pub fn words(parts: &[&str]) -> String {
    parts.iter().filter(|p| !p.is_empty()).cloned().collect::<Vec<_>>().join(" ")
}

pub fn payload(l: &Lint) -> String {
    format!("{:?}|{:?}|{}|{}", l.lint_kind, l.suggestions, l.message, l.priority)
}

pub fn to_l(l: &Lint) -> L {
    (l.span.start, l.span.end, payload(l))
}

pub struct ChunkInfo {
    pub start: usize,
    pub end: usize,
    pub chars: Vec<char>,
    /// (start relative to the chunk, length, Debug of the kind)
    pub toks: Vec<(usize, usize, String)>,
    /// pattern rule → its lints in this chunk, relative to the chunk start (non-empty only)
    pub tables: Vec<(String, Vec<L>)>,
}

pub struct DocTable {
    pub text: String,
    pub lang: Lang,
    /// whole-document rule → its lints (non-empty only), in key order
    pub whole: Vec<(String, Vec<L>)>,
    pub chunks: Vec<ChunkInfo>,
    /// every rule that fires alone → its lints
    pub alone: BTreeMap<String, Vec<Lint>>,
    /// a rule run panicked (C01's business): the document is not used
    pub panicked: bool,
    /// every pattern-rule lint starts inside exactly one chunk, in chunk order
    pub attributed: bool,
    /// rules whose alone-run on the per-document group differed from a brand-new group
    pub fresh_mismatch: Vec<String>,
    /// a name that is a key of both rule maps fired: its lints cannot be split into a
    /// whole-document part and per-chunk parts, so the document has no `lg` tables (O only)
    pub shared_fired: Vec<String>,
}

impl DocTable {
    pub fn k_usable(&self) -> bool {
        !self.panicked && self.attributed && self.shared_fired.is_empty()
    }
}

pub fn chunks_of(doc: &Document) -> Vec<ChunkInfo> {
    let mut out = vec![];
    for chunk in doc.iter_chunks() {
        let Some(span) = chunk.span() else { continue };
        let chars = doc.get_span_content(&span).to_vec();
        let toks = chunk.iter().map(|t| (t.span.start - span.start, t.span.len(), format!("{:?}", t.kind))).collect();
        out.push(ChunkInfo { start: span.start, end: span.end, chars, toks, tables: vec![] });
    }
    out
}

pub fn only_cfg(g: &mut LintGroup, rule: &str) {
    g.config.clear();
    g.config.set_rule_enabled(rule, true);
}

/// Run every rule ALONE (configuration cleared, only that rule on) on `text`: one new group per
/// document, and every rule that fires is re-run on a brand-new group of its own.
pub fn build_table(dict: &Dict, names: &RuleNames, text: &str, lang: Lang, verify_fresh: bool) -> DocTable {
    let doc = make_doc(text, lang, dict);
    let mut t = DocTable {
        text: text.to_string(),
        lang,
        whole: vec![],
        chunks: chunks_of(&doc),
        alone: BTreeMap::new(),
        panicked: false,
        attributed: true,
        fresh_mismatch: vec![],
        shared_fired: vec![],
    };
    let mut g = new_group(dict);
    let shared = names.shared();
    for (is_pat, r) in names.doc.iter().map(|r| (false, r)).chain(names.pat.iter().filter(|r| !shared.contains(r)).map(|r| (true, r))) {
        only_cfg(&mut g, r);
        let lints = match guarded(|| g.lint(&doc)) {
            Ok(l) => l,
            Err(_) => {
                t.panicked = true;
                return t;
            }
        };
        if lints.is_empty() {
            continue;
        }
        if verify_fresh {
            let mut f = new_group(dict);
            only_cfg(&mut f, r);
            match guarded(|| f.lint(&doc)) {
                Ok(l2) if l2 == lints => {}
                _ => t.fresh_mismatch.push(r.clone()),
            }
        }
        if shared.contains(r) {
            t.shared_fired.push(r.clone());
        } else if !is_pat {
            t.whole.push((r.clone(), lints.iter().map(to_l).collect()));
        } else {
            // attribute to chunks, in order
            let mut ci = 0usize;
            let mut per: Vec<Vec<L>> = t.chunks.iter().map(|_| vec![]).collect();
            for l in &lints {
                while ci < t.chunks.len() && !(t.chunks[ci].start <= l.span.start && l.span.start < t.chunks[ci].end.max(t.chunks[ci].start + 1)) {
                    ci += 1;
                }
                if ci >= t.chunks.len() {
                    t.attributed = false;
                    break;
                }
                let c = &t.chunks[ci];
                per[ci].push((l.span.start - c.start, l.span.end.saturating_sub(c.start), payload(l)));
            }
            for (i, p) in per.into_iter().enumerate() {
                if !p.is_empty() {
                    t.chunks[i].tables.push((r.clone(), p));
                }
            }
        }
        t.alone.insert(r.clone(), lints);
    }
    t
}

/// The property read directly: the lints under a configuration are the whole-document rules'
/// lints in name order, then chunk by chunk the pattern rules' lints in name order.
pub fn combine(t: &DocTable, enabled: &dyn Fn(&str) -> bool) -> Vec<L> {
    let mut out = vec![];
    for (r, ls) in &t.whole {
        if enabled(r) {
            out.extend(ls.iter().cloned());
        }
    }
    for c in &t.chunks {
        for (r, ls) in &c.tables {
            if enabled(r) {
                out.extend(ls.iter().map(|(s, e, p)| (s + c.start, e + c.start, p.clone())));
            }
        }
    }
    out
}

pub fn enabled_in(m: &CfgMap) -> impl Fn(&str) -> bool + '_ {
    move |r| m.get(r).cloned().flatten().unwrap_or(false)
}

/// Builder of one `lg` op line (one history on one long-lived group) and its `impl` line.
pub struct LgLine {
    op: String,
    imp: Vec<String>,
    pay: HashMap<String, usize>,
    kinds: HashMap<String, usize>,
}

impl LgLine {
    pub fn new(cap: usize, names: &RuleNames) -> Self {
        let mut op = format!("lg {} | D", cap);
        for n in &names.doc {
            op.push(' ');
            op.push_str(&enc_name(n));
        }
        op.push_str(" | P");
        for n in &names.pat {
            op.push(' ');
            op.push_str(&enc_name(n));
        }
        LgLine { op, imp: vec![], pay: HashMap::new(), kinds: HashMap::new() }
    }
    fn pid(&mut self, p: &str) -> usize {
        let n = self.pay.len();
        *self.pay.entry(p.to_string()).or_insert(n)
    }
    fn show_ls(&mut self, ls: &[L]) -> String {
        let mut s = String::new();
        for (a, b, p) in ls {
            let id = self.pid(p);
            s.push_str(&format!(" {}:{}:{}", a, b, id));
        }
        s
    }
    pub fn cfg(&mut self, m: &CfgMap) {
        self.op.push_str(" | C");
        let c = show_cfg(m);
        if !c.is_empty() {
            self.op.push(' ');
            self.op.push_str(&c);
        }
    }
    /// a `lint` of the document whose tables are `t`, with what the real long-lived group returned
    pub fn lint(&mut self, t: &DocTable, real: &[Lint]) {
        self.op.push_str(" | L");
        for (r, ls) in &t.whole {
            let ls = self.show_ls(ls);
            self.op.push_str(&format!(" ; W {}{}", enc_name(r), ls));
        }
        for c in &t.chunks {
            self.op.push_str(&format!(" ; K {}", c.start));
            for ch in &c.chars {
                self.op.push_str(&format!(" {}", *ch as u32));
            }
            self.op.push_str(" ,");
            for (s, l, k) in &c.toks {
                let n = self.kinds.len();
                let id = *self.kinds.entry(k.clone()).or_insert(n);
                self.op.push_str(&format!(" {}:{}:{}", s, l, id));
            }
            for (r, ls) in &c.tables {
                let ls = self.show_ls(ls);
                self.op.push_str(&format!(" ; R {}{}", enc_name(r), ls));
            }
        }
        let real: Vec<L> = real.iter().map(to_l).collect();
        let s = self.show_ls(&real);
        self.imp.push(s.trim_start().to_string());
    }
    pub fn lint_panicked(&mut self) {
        self.imp.push("PANIC".to_string());
    }
    pub fn finish(self) -> (String, String) {
        let mut imp = String::from("ok");
        for (i, g) in self.imp.iter().enumerate() {
            if i > 0 {
                imp.push_str(" |");
            }
            if !g.is_empty() {
                imp.push(' ');
                imp.push_str(g);
            }
        }
        (self.op, imp)
    }
}

/// H_loc monitor: one chunk content → one table (pattern rule → relative lints), whatever the
/// offset, document or language. Returns the violations seen while adding `t`.
#[derive(Default)]
pub struct HLoc {
    seen: HashMap<(Vec<char>, Vec<(usize, usize, String)>), BTreeMap<String, Vec<L>>>,
    pub checked: u64,
    pub repeated: u64,
}

impl HLoc {
    pub fn add(&mut self, t: &DocTable) -> Vec<String> {
        let mut bad = vec![];
        for c in &t.chunks {
            let now: BTreeMap<String, Vec<L>> = c.tables.iter().cloned().collect();
            let key = (c.chars.clone(), c.toks.clone());
            self.checked += 1;
            match self.seen.get(&key) {
                Some(prev) => {
                    self.repeated += 1;
                    if *prev != now {
                        bad.push(format!("chunk {:?} ({}): {:?} vs {:?}", c.chars.iter().collect::<String>(), t.lang.name(), prev.keys().collect::<Vec<_>>(), now.keys().collect::<Vec<_>>()));
                    }
                }
                None => {
                    self.seen.insert(key, now);
                }
            }
        }
        bad
    }
}
