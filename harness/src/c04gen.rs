//! C04 — generator of source files WITH GROUND TRUTH.
//!
//! A file is assembled from segments; while it is assembled the builder records, per character
//! range, what the range is *by construction*:
//!   * `Prose`    one plain lower-case dictionary word: Harper must see exactly one `Word` token
//!                with exactly this span;
//!   * `NonProse` code, string literal content, inline code, code fence, math, tag, URL, doc tag:
//!                no token other than Unlintable / Url / whitespace / breaks may overlap it;
//!   * `Delim`    comment delimiters / leaders / markup punctuation: no `Word` token may overlap it;
//!   * `Ignored`  a comment carrying an ignore marker, a shebang line, the `#` section of a commit
//!                message: no token other than a ParagraphBreak may overlap it;
//!   * everything else (single spaces between words, line ends, ambiguous constructs) is not judged.
//! The oracle in `c04.rs` only ever judges what the generator is sure about.
use crate::common::Rng;

#[derive(Clone, Copy, PartialEq, Eq, Debug)]
pub enum ZK {
    Prose,
    NonProse,
    Delim,
    Ignored,
}

impl ZK {
    pub fn tag(self) -> &'static str {
        match self {
            ZK::Prose => "prose",
            ZK::NonProse => "nonprose",
            ZK::Delim => "delim",
            ZK::Ignored => "ignored",
        }
    }
    pub fn from_tag(s: &str) -> Option<ZK> {
        Some(match s {
            "prose" => ZK::Prose,
            "nonprose" => ZK::NonProse,
            "delim" => ZK::Delim,
            "ignored" => ZK::Ignored,
            _ => return None,
        })
    }
}

#[derive(Clone, Debug)]
pub struct Zone {
    pub s: usize,
    pub e: usize,
    pub kind: ZK,
    pub what: String,
}

/// plain lower-case dictionary words (≥ 3 letters, no word that takes part in a condense pass)
pub const WORDS: &[&str] = &[
    "the", "quick", "brown", "fox", "jumps", "over", "lazy", "dog", "every", "morning", "while", "people", "write",
    "simple", "text", "with", "great", "care", "and", "keep", "their", "documents", "clean", "because", "small",
    "mistakes", "often", "hide", "inside", "long", "files", "where", "nobody", "looks", "very", "closely", "until",
    "something", "breaks", "suddenly", "this", "function", "returns", "value", "when", "called", "twice", "should",
    "never", "fail", "please", "check", "first", "second", "third", "house", "garden", "river", "mountain", "window",
    "table", "paper", "music", "water", "bread", "light", "stone", "friend", "letter", "number",
];

/// multi-byte / astral / combining material for the non-prose segments
pub const HOSTILE: &[&str] = &["é", "ü", "😀", "e\u{301}", "中文", "ß", "ñ", "𝒳", "→", "İ", "한", "\u{200b}", "ö😀ö"];

pub struct B {
    pub text: String,
    pub n: usize,
    pub zones: Vec<Zone>,
    pub eol: &'static str,
    pub feats: Vec<&'static str>,
    /// constructs in this file that are known to confuse a front-end (recorded findings); the
    /// oracle classifies every failure of a tainted file under the finding's class
    pub taints: Vec<&'static str>,
    /// appended as `@ctx` to the `what` of every zone recorded while it is set
    pub ctx: &'static str,
}

impl B {
    pub fn new(crlf: bool) -> B {
        B { text: String::new(), n: 0, zones: vec![], eol: if crlf { "\r\n" } else { "\n" }, feats: vec![], taints: vec![], ctx: "" }
    }
    pub fn taint(&mut self, t: &'static str) {
        if !self.taints.contains(&t) {
            self.taints.push(t);
        }
    }
    pub fn push(&mut self, s: &str) {
        self.text.push_str(s);
        self.n += s.chars().count();
    }
    pub fn zone(&mut self, s: &str, k: ZK, what: &str) {
        let a = self.n;
        self.push(s);
        if self.n > a {
            let what = if self.ctx.is_empty() { what.to_string() } else { format!("{}@{}", what, self.ctx) };
            self.zones.push(Zone { s: a, e: self.n, kind: k, what });
        }
    }
    pub fn nl(&mut self) {
        let e = self.eol;
        self.push(e);
    }
    pub fn feat(&mut self, f: &'static str) {
        if !self.feats.contains(&f) {
            self.feats.push(f);
        }
    }
    /// `n` words separated by single spaces, each a Prose zone
    pub fn words(&mut self, rng: &mut Rng, n: usize) {
        for i in 0..n {
            if i > 0 {
                self.push(" ");
            }
            let w = *rng.pick(WORDS);
            self.zone(w, ZK::Prose, "word");
        }
    }
    /// the same words, but recorded with kind `k` (e.g. inside an ignored comment or a string)
    pub fn words_as(&mut self, rng: &mut Rng, n: usize, k: ZK, what: &str) {
        let mut s = String::new();
        for i in 0..n {
            if i > 0 {
                s.push(' ');
            }
            s.push_str(*rng.pick(WORDS));
        }
        self.zone(&s, k, what);
    }
}

pub fn hostile(rng: &mut Rng) -> String {
    let n = rng.range(1, 3);
    let mut s = String::new();
    for _ in 0..n {
        s.push_str(*rng.pick(HOSTILE));
    }
    s
}

/// identifier-ish code with multi-byte characters, no spaces, no back-ticks, no quotes
pub fn codeish(rng: &mut Rng) -> String {
    let base = *rng.pick(&["fóo_bär()", "naïve", "x😀y", "größe+1", "中文.len", "a→b", "rësult[0]", "übung", "café_count"]);
    base.to_string()
}

pub fn ident(rng: &mut Rng) -> String {
    let n = rng.range(2, 5);
    let mut s = String::from("zq");
    for _ in 0..n {
        s.push((b'a' + rng.below(26) as u8) as char);
    }
    s
}

// ------------------------------------------------------------------------------------------
// comment languages
// ------------------------------------------------------------------------------------------

#[derive(Clone, Copy, PartialEq, Eq, Debug)]
pub enum Inner {
    Unit,
    JsDoc,
    JavaDoc,
    Go,
}

pub struct CL {
    pub id: &'static str,
    pub line: &'static [&'static str],
    pub block: &'static [(&'static str, &'static str)],
    pub nested: bool,
    /// `{S}` string content, `{I}` identifier; one statement per entry, valid at file level
    pub code: &'static [&'static str],
    pub prefix: &'static str,
    pub suffix: &'static str,
    pub indent_ok: bool,
    pub shebang: bool,
    pub inner: Inner,
    /// block comments must start at column 0 (`=begin`)
    pub block_col0: bool,
}

const C_LIKE_BLOCK: &[(&str, &str)] = &[("/*", "*/"), ("/**", "*/")];

pub fn comment_lang(id: &str) -> Option<CL> {
    let d = CL {
        id: "",
        line: &["//"],
        block: C_LIKE_BLOCK,
        nested: false,
        code: &[],
        prefix: "",
        suffix: "",
        indent_ok: true,
        shebang: false,
        inner: Inner::Unit,
        block_col0: false,
    };
    Some(match id {
        "rust" => CL {
            id: "rust",
            line: &["//", "///", "//!"],
            nested: true,
            code: &[
                "fn {I}() { let s = \"{S}\"; }",
                "const {I}: &str = \"{S}\";",
                "static {I}: char = 'é';",
                "fn {I}() -> usize { let r = r#\"{S}\"#; r.len() }",
                "struct {I};",
            ],
            ..d
        },
        "dart" => CL {
            id: "dart",
            line: &["//", "///"],
            nested: true,
            code: &["var {I} = \"{S}\";", "void {I}() { print('{S}'); }", "const {I} = 1;"],
            ..d
        },
        "typescript" => CL {
            id: "typescript",
            code: &["const {I}: string = \"{S}\";", "function {I}(): string { return '{S}'; }", "let {I} = `{S}`;", "export type {I} = number;"],
            inner: Inner::JsDoc,
            ..d
        },
        "typescriptreact" | "javascriptreact" => CL {
            id: if id == "typescriptreact" { "typescriptreact" } else { "javascriptreact" },
            code: &["const {I} = \"{S}\";", "function {I}() { return '{S}'; }", "const {I} = <b title=\"{S}\">{S}</b>;", "let {I} = `{S}`;"],
            inner: Inner::JsDoc,
            ..d
        },
        "javascript" => CL {
            id: "javascript",
            code: &["const {I} = \"{S}\";", "function {I}() { return '{S}'; }", "let {I} = `{S}`;", "var {I} = /ab+c/;"],
            inner: Inner::JsDoc,
            ..d
        },
        "java" => CL {
            id: "java",
            code: &["class {I} { String s = \"{S}\"; }", "interface {I} { int f(); }", "class {I} { char c = 'é'; }"],
            inner: Inner::JavaDoc,
            ..d
        },
        "scala" => CL {
            id: "scala",
            nested: true,
            code: &["object {I} { val s = \"{S}\" }", "class {I}(x: Int)", "object {I} { val c = 'é' }"],
            ..d
        },
        "c" => CL {
            id: "c",
            code: &["const char *{I} = \"{S}\";", "int {I}(void) { return 0; }", "#define {I} \"{S}\"", "char {I} = 'x';"],
            ..d
        },
        "cpp" => CL {
            id: "cpp",
            code: &["const char *{I} = \"{S}\";", "int {I}() { return 0; }", "#define {I} \"{S}\"", "namespace {I} { int x = 1; }"],
            ..d
        },
        "csharp" => CL {
            id: "csharp",
            line: &["//", "///"],
            code: &["class {I} { string s = \"{S}\"; }", "class {I} { char c = 'é'; }", "namespace {I} { }"],
            ..d
        },
        "go" => CL {
            id: "go",
            code: &["var {I} = \"{S}\"", "func {I}() { _ = \"{S}\" }", "var {I} = `{S}`", "const {I} = 'é'"],
            inner: Inner::Go,
            ..d
        },
        "swift" => CL {
            id: "swift",
            line: &["//", "///"],
            nested: true,
            code: &["let {I} = \"{S}\"", "func {I}() { print(\"{S}\") }", "var {I} = 1"],
            ..d
        },
        "php" => CL {
            id: "php",
            line: &["//", "#"],
            code: &["${I} = \"{S}\";", "${I} = '{S}';", "echo \"{S}\";", "function {I}() { return 1; }"],
            prefix: "<?php\n",
            ..d
        },
        "python" => CL {
            id: "python",
            line: &["#"],
            block: &[],
            code: &["{I} = \"{S}\"", "{I} = '{S}'", "{I} = \"\"\"{S}\"\"\"", "def {I}(): return 1"],
            indent_ok: false,
            shebang: true,
            ..d
        },
        "toml" => CL {
            id: "toml",
            line: &["#"],
            block: &[],
            code: &["{I} = \"{S}\"", "{I} = '{S}'", "{I} = 1"],
            indent_ok: true,
            ..d
        },
        "shellscript" => CL {
            id: "shellscript",
            line: &["#"],
            block: &[],
            code: &["{I}=\"{S}\"", "echo '{S}'", "echo \"{S}\"", "{I}() { return 0; }"],
            shebang: true,
            ..d
        },
        "cmake" => CL {
            id: "cmake",
            line: &["#"],
            block: &[("#[[", "]]")],
            code: &["set({I} \"{S}\")", "message(\"{S}\")", "project({I})"],
            ..d
        },
        "nix" => CL {
            id: "nix",
            line: &["#"],
            block: &[("/*", "*/")],
            code: &["{I} = \"{S}\";", "{I} = ''{S}'';", "{I} = 1;"],
            prefix: "{\n",
            suffix: "}\n",
            shebang: false,
            ..d
        },
        "ruby" => CL {
            id: "ruby",
            line: &["#"],
            block: &[("=begin", "=end")],
            code: &["{I} = \"{S}\"", "{I} = '{S}'", "puts \"{S}\"", "def {I}; 1; end"],
            shebang: true,
            block_col0: true,
            ..d
        },
        "lua" => CL {
            id: "lua",
            line: &["--"],
            block: &[("--[[", "]]")],
            code: &["local {I} = \"{S}\"", "print('{S}')", "local {I} = [[{S}]]", "local {I} = 1"],
            shebang: false,
            ..d
        },
        "haskell" => CL {
            id: "haskell",
            line: &["--"],
            block: &[("{-", "-}")],
            nested: true,
            code: &["{I} = \"{S}\"", "{I} :: Int", "{I} = 'é'"],
            indent_ok: false,
            ..d
        },
        _ => return None,
    })
}

/// string literal content: multi-byte characters, comment openers of the language, plain words.
/// No quote characters, back-slashes, `$`, `{`, `}`, `<`, `>`, back-ticks, `]]`.
fn string_content(rng: &mut Rng, l: &CL, openers: bool) -> String {
    let mut parts: Vec<String> = vec![];
    let n = rng.range(1, 4);
    for _ in 0..n {
        match rng.below(4) {
            0 => parts.push(hostile(rng)),
            1 if openers => {
                // a comment opener inside a string is not a comment
                let mut ops: Vec<&str> = l.line.to_vec();
                for (o, _) in l.block {
                    if !o.contains('[') && !o.contains('{') && !o.contains('=') {
                        ops.push(o);
                    }
                }
                parts.push(format!("{} {}", rng.pick(&ops), rng.pick(WORDS)));
            }
            _ => parts.push(rng.pick(WORDS).to_string()),
        }
    }
    // always at least one multi-byte character so that later byte→char conversions differ
    parts.insert(rng.below(parts.len() + 1), hostile(rng));
    parts.join(" ")
}

/// returns true when the statement is a C preprocessor `#define`
fn code_line(b: &mut B, rng: &mut Rng, l: &CL, indent: &str) -> bool {
    let t = *rng.pick(l.code);
    let is_define = t.starts_with("#define");
    let is_jsx = t.contains("</b>");
    let mut out = String::new();
    let mut rest = t;
    while let Some(p) = rest.find('{') {
        if rest[p..].starts_with("{S}") {
            out.push_str(&rest[..p]);
            let in_jsx_text = is_jsx && rest[..p].ends_with('>');
            let mut sc = string_content(rng, l, true);
            // Recorded findings, generated rarely and the file is tainted:
            //  * tree-sitter-c takes the body of a #define as raw text in which `/*` starts a
            //    comment even inside a string literal;
            //  * the TSX grammar lexes JSX text that *starts* (after white space, U+200B included)
            //    with `//` or `/*` as a comment.
            if is_define && sc.contains("/*") {
                if rng.chance(1, 4) {
                    b.taint("c-define-comment-opener");
                } else {
                    sc = sc.replace("/*", "//");
                }
            }
            if in_jsx_text && sc.trim_start_matches(|c: char| c.is_whitespace() || c == '\u{200b}').starts_with('/') {
                if rng.chance(1, 3) {
                    b.taint("jsx-text-comment-opener");
                } else {
                    sc = format!("{} {}", rng.pick(WORDS), sc);
                }
            }
            out.push_str(&sc);
            rest = &rest[p + 3..];
        } else if rest[p..].starts_with("{I}") {
            out.push_str(&rest[..p]);
            out.push_str(&ident(rng));
            rest = &rest[p + 3..];
        } else {
            out.push_str(&rest[..p + 1]);
            rest = &rest[p + 1..];
        }
    }
    out.push_str(rest);
    b.push(indent);
    b.zone(&out, ZK::NonProse, "code");
    is_define
}

pub const IGNORE_MARKERS: &[&str] = &[
    "spellchecker:ignore",
    "spellchecker: ignore",
    "spell-checker:ignore",
    "spell-checker: ignore",
    "spellcheck:ignore",
    "spellcheck: ignore",
    "harper:ignore",
    "harper: ignore",
];

/// markers named in the source now (union with the committed list, so that a marker that is
/// dropped from the source is still demanded and a new one is exercised)
pub fn ignore_markers() -> Vec<String> {
    let mut v: Vec<String> = IGNORE_MARKERS.iter().map(|s| s.to_string()).collect();
    if let Ok(src) = std::fs::read_to_string("/repo/harper-comments/src/masker.rs") {
        let mut rest = src.as_str();
        while let Some(p) = rest.find("text.contains(\"") {
            let r = &rest[p + 15..];
            if let Some(q) = r.find('"') {
                let m = r[..q].to_string();
                if !v.contains(&m) && !m.is_empty() {
                    v.push(m);
                }
                rest = &r[q..];
            } else {
                break;
            }
        }
    }
    v
}

/// the body of one comment line: words, inline code (Markdown-inner languages), URLs, doc tags
fn comment_items(b: &mut B, rng: &mut Rng, l: &CL) {
    let chunks = rng.range(1, 3);
    for i in 0..chunks {
        if i > 0 {
            b.push(" ");
        }
        match rng.below(10) {
            0 | 1 if l.inner != Inner::JavaDoc => {
                let c = format!("`{}`", codeish(rng));
                b.zone(&c, ZK::NonProse, "inline-code");
                b.feat("inline-code");
            }
            2 => {
                b.zone("https://example.com/docs/page", ZK::NonProse, "url");
                b.feat("url");
            }
            4 => {
                // multi-byte material inside the comment itself (not judged), then words: the
                // inner parser's own byte→char bookkeeping is exercised
                b.push(&hostile(rng));
                b.push(" ");
                let n = rng.range(1, 3);
                b.words(rng, n);
                b.feat("multibyte-in-comment");
            }
            3 if l.inner == Inner::JsDoc || l.inner == Inner::JavaDoc => {
                let c = format!("{{@link {}}}", rng.pick(&["Fóo", "Bär#baz", "Zqx"]));
                b.zone(&c, ZK::NonProse, "inline-tag");
                b.feat("inline-tag");
            }
            _ => {
                let n = rng.range(1, 5);
                b.words(rng, n);
            }
        }
    }
}

fn indent_of(rng: &mut Rng, l: &CL) -> String {
    if !l.indent_ok {
        return String::new();
    }
    match rng.below(5) {
        0 => "    ".into(),
        1 => "\t".into(),
        2 => "  ".into(),
        _ => String::new(),
    }
}

/// a Markdown code fence inside a comment: `lead` is put in front of every line
fn comment_fence(b: &mut B, rng: &mut Rng, lead: &dyn Fn(&mut B)) {
    let ctx = b.ctx;
    b.ctx = "comment-fence";
    lead(b);
    // CommonMark: a fence is three OR MORE backticks (or tildes); the closer is at least as long
    let (open, close) = *rng.pick(&[("```", "```"), ("```rust", "```"), ("```text", "```"), ("````", "````"), ("`````rust", "`````"), ("````text", "``````"), ("```", "````")]);
    b.zone(open, ZK::NonProse, "fence-open");
    let n = rng.range(1, 2);
    for _ in 0..n {
        b.nl();
        lead(b);
        let code = format!("let {} = \"{} {}\";", rng.pick(WORDS), hostile(rng), rng.pick(WORDS));
        b.zone(&code, ZK::NonProse, "fence-body");
    }
    b.nl();
    lead(b);
    b.zone(close, ZK::NonProse, "fence-close");
    b.ctx = ctx;
    b.feat("comment-fence");
}

fn line_comment_run(b: &mut B, rng: &mut Rng, l: &CL, indent: &str) {
    let op = *rng.pick(l.line);
    let n = rng.range(1, 3);
    let fence_after = if (l.inner == Inner::Unit || l.inner == Inner::JsDoc) && rng.chance(1, 8) { rng.below(n) } else { usize::MAX };
    for i in 0..n {
        if i > 0 {
            b.nl();
        }
        b.push(indent);
        b.zone(op, ZK::Delim, "line-opener");
        // (Haskell: `--` directly followed by a symbol character is an operator, not a comment)
        if l.id == "haskell" || rng.chance(4, 5) {
            b.push(" ");
        }
        comment_items(b, rng, l);
        if i == fence_after {
            b.nl();
            let ind = indent.to_string();
            comment_fence(b, rng, &|b: &mut B| {
                b.push(&ind);
                b.zone(op, ZK::Delim, "line-opener");
                b.push(" ");
            });
            b.nl();
            b.push(indent);
            b.zone(op, ZK::Delim, "line-opener");
            b.push(" ");
            let k = rng.range(1, 3);
            b.words(rng, k);
        }
    }
    b.feat("line-comment");
}

fn block_comment(b: &mut B, rng: &mut Rng, l: &CL, indent: &str) {
    let (op, cl) = *rng.pick(l.block);
    let col0 = l.block_col0;
    let ind = if col0 { "" } else { indent };
    b.push(ind);
    let star = op.starts_with("/*");
    match rng.below(4) {
        // single line
        0 if !col0 => {
            // `--[[ … ]]` / `#[[ … ]]` on one line reads as a Markdown wikilink (recorded finding)
            if op.ends_with("[[") {
                b.ctx = "bracket-single";
            }
            b.zone(op, ZK::Delim, "block-opener");
            b.push(" ");
            comment_items(b, rng, l);
            b.push(" ");
            b.zone(cl, ZK::Delim, "block-closer");
            // sometimes a second single-line block comment follows with NOTHING in between
            // (`/* a *//* b */`): two comment nodes whose byte ranges touch
            if !op.ends_with("[[") && rng.chance(1, 4) {
                b.zone(op, ZK::Delim, "block-opener");
                b.push(" ");
                comment_items(b, rng, l);
                b.push(" ");
                b.zone(cl, ZK::Delim, "block-closer");
                b.feat("block-touching");
            }
            b.ctx = "";
            b.feat("block-single");
        }
        // nested (where the language allows it)
        1 if l.nested && !col0 => {
            b.zone(op, ZK::Delim, "block-opener");
            b.push(" ");
            let n = rng.range(1, 3);
            b.words(rng, n);
            b.push(" ");
            b.zone(op, ZK::Delim, "block-opener-nested");
            b.push(" ");
            let n = rng.range(1, 3);
            b.words(rng, n);
            b.push(" ");
            b.zone(cl, ZK::Delim, "block-closer-nested");
            b.push(" ");
            let n = rng.range(1, 3);
            b.words(rng, n);
            b.push(" ");
            b.zone(cl, ZK::Delim, "block-closer");
            b.feat("block-nested");
        }
        // multi-line with ` * ` leaders (C-like only) or bare lines
        _ => {
            b.zone(op, ZK::Delim, "block-opener");
            let first_on_opener = !col0 && rng.chance(1, 3);
            if first_on_opener {
                b.push(" ");
                comment_items(b, rng, l);
            }
            let leaders = star && rng.chance(2, 3);
            let n = rng.range(1, 3);
            let fence_at = if (l.inner == Inner::Unit || l.inner == Inner::JsDoc) && !col0 && rng.chance(1, 8) { rng.below(n) } else { usize::MAX };
            for li in 0..n {
                if li == fence_at {
                    b.nl();
                    let ind2 = ind.to_string();
                    comment_fence(b, rng, &|b: &mut B| {
                        b.push(&ind2);
                        if leaders {
                            b.push(" ");
                            b.zone("*", ZK::Delim, "block-leader");
                            b.push(" ");
                        }
                    });
                }
                b.nl();
                if leaders {
                    b.push(ind);
                    b.push(" ");
                    b.zone("*", ZK::Delim, "block-leader");
                    b.push(" ");
                } else if !col0 && l.inner != Inner::Go {
                    // (Go: indented lines inside a doc comment are preformatted text, not judged)
                    b.push(ind);
                    if rng.chance(1, 2) {
                        b.push("  ");
                    }
                }
                comment_items(b, rng, l);
            }
            // JSDoc / JavaDoc block tags
            if leaders && (l.inner == Inner::JsDoc || l.inner == Inner::JavaDoc) && rng.chance(1, 2) {
                b.nl();
                b.push(ind);
                b.push(" ");
                b.zone("*", ZK::Delim, "block-leader");
                b.push(" ");
                let tag = format!("@param {}", rng.pick(&["zqxü", "fóo", "zqarg"]));
                b.zone(&tag, ZK::NonProse, "doc-tag");
                b.push(" ");
                if l.inner == Inner::JavaDoc {
                    // JavaDoc: `@tag name` is unlintable, the description after it is prose
                    let n = rng.range(1, 4);
                    b.words(rng, n);
                } else {
                    // JSDoc: the whole rest of the line is unlintable — description not judged
                    let w = *rng.pick(WORDS);
                    b.push(w);
                }
                b.feat("doc-tag");
            }
            b.nl();
            if leaders {
                b.push(ind);
                b.push(" ");
            } else {
                b.push(ind);
            }
            b.zone(cl, ZK::Delim, "block-closer");
            b.feat("block-multi");
        }
    }
}


// ------------------------------------------------------------------------------------------
// doc comments with block tags and inline tags (JavaDoc: java; JSDoc: the four JS/TS ids)
// ------------------------------------------------------------------------------------------
//
// What the real parsers intend to mask (read from javadoc.rs / jsdoc.rs), and what is recorded:
//  * both: an inline tag `{@word … }` is Unlintable from `{` to `}`            → NonProse;
//  * JavaDoc: a block tag `@tag` and its ONE-WORD argument (`At Word Space Word`, anywhere in the
//    comment, the last four tokens included) are Unlintable                      → NonProse,
//    the description after the argument is linted                               → Prose;
//  * JSDoc: on a line, everything from the first `@word` to the end of the line is Unlintable:
//    `@tag {type} name` → NonProse, the description on that line is not judged (the code masks
//    it on purpose: test `handles_class`), a continuation on the next line is linted → Prose;
//  * an unterminated `{@link Foo`: the `{` stays punctuation (Delim), `@link Foo` is masked by
//    the block-tag rule (NonProse); in JSDoc the rest of the line is not judged.

const JAVADOC_TAGS: &[(&str, &[&str])] = &[
    ("@param", &["zqxü", "fóo", "zqarg"]),
    ("@throws", &["IOException", "Zqerror"]),
    ("@see", &["Reader", "Zqtype"]),
    ("@exception", &["IOException"]),
    ("@author", &["Zqname"]),
];
const JSDOC_TAGS: &[&str] = &["@param {string} zqxü", "@param {number} fóo", "@returns {number}", "@see Reader", "@throws {Zqerror}", "@type {Object}", "@class Zqcircle"];

fn inline_tag(b: &mut B, rng: &mut Rng) {
    let c = match rng.below(4) {
        0 => format!("{{@code {}}}", rng.pick(&["x", "fóo()", "zq + 1"])),
        1 => format!("{{@link {}}}", rng.pick(&["Fóo", "Bär#baz", "Zqx"])),
        2 => "{@link Zqx the label}".to_string(),
        _ => "{@linkplain Zqx}".to_string(),
    };
    b.zone(&c, ZK::NonProse, "inline-tag");
    b.feat("inline-tag");
}

/// one content line of a doc comment (without leader); returns true if it may be followed by more
/// content in the same comment (false after an unterminated inline tag in JavaDoc, where a later
/// `}` would close it)
fn doc_line(b: &mut B, rng: &mut Rng, l: &CL, allow_unterminated: bool) -> bool {
    let java = l.inner == Inner::JavaDoc;
    match rng.below(10) {
        // block tag, with or without description
        0 | 1 | 2 | 3 => {
            if java {
                let (tag, args) = *rng.pick(JAVADOC_TAGS);
                let t = format!("{} {}", tag, rng.pick(args));
                b.zone(&t, ZK::NonProse, "doc-tag");
                if rng.chance(1, 2) {
                    b.push(" ");
                    let n = rng.range(1, 4);
                    b.words(rng, n);
                    b.feat("doc-tag+description");
                } else {
                    b.feat("doc-tag-bare");
                }
            } else {
                let t = *rng.pick(JSDOC_TAGS);
                b.zone(t, ZK::NonProse, "doc-tag");
                if rng.chance(1, 2) {
                    // masked on purpose by JsDoc: not judged
                    b.push(" ");
                    b.push(*rng.pick(WORDS));
                    b.push(" ");
                    b.push(*rng.pick(WORDS));
                    b.feat("doc-tag+description");
                } else {
                    b.feat("doc-tag-bare");
                }
            }
            true
        }
        // inline tag at the start / in the middle / at the end of a prose line
        4 | 5 | 6 => {
            match rng.below(4) {
                0 => {
                    inline_tag(b, rng);
                    b.push(" ");
                    let n = rng.range(1, 4);
                    b.words(rng, n);
                    b.feat("inline-tag-at-start");
                }
                1 => {
                    let n = rng.range(1, 3);
                    b.words(rng, n);
                    b.push(" ");
                    inline_tag(b, rng);
                    b.push(" ");
                    let n = rng.range(1, 3);
                    b.words(rng, n);
                    b.feat("inline-tag-in-middle");
                }
                2 => {
                    let n = rng.range(1, 4);
                    b.words(rng, n);
                    b.push(" ");
                    inline_tag(b, rng);
                    b.feat("inline-tag-at-end");
                }
                _ => {
                    inline_tag(b, rng);
                    b.feat("inline-tag-alone");
                }
            }
            true
        }
        // unterminated inline tag at the end of the line
        7 if allow_unterminated => {
            let n = rng.range(1, 3);
            b.words(rng, n);
            b.push(" ");
            b.zone("{", ZK::Delim, "unterminated-inline-open");
            b.zone(*rng.pick(&["@link Zqx", "@code zqy", "@link Fóo"]), ZK::NonProse, "unterminated-inline-tag");
            if !java && rng.chance(1, 2) {
                // JSDoc masks the rest of the line: not judged
                b.push(" ");
                b.push(*rng.pick(WORDS));
            }
            b.feat("unterminated-inline-tag");
            !java
        }
        _ => {
            let n = rng.range(1, 5);
            b.words(rng, n);
            true
        }
    }
}

/// a `/** … */` doc comment; always followed by a declaration (so the comment is not merged with
/// a following one and its last tokens really are the last tokens the parser sees)
fn doc_comment(b: &mut B, rng: &mut Rng, l: &CL, indent: &str) {
    b.push(indent);
    b.zone("/**", ZK::Delim, "block-opener");
    match rng.below(5) {
        // single line: `/** @see Reader */`
        0 | 1 => {
            b.push(" ");
            doc_line(b, rng, l, true);
            b.push(" ");
            b.zone("*/", ZK::Delim, "block-closer");
            b.feat("doc-single-line");
        }
        _ => {
            let mut more = true;
            // content on the opener line?
            if rng.chance(1, 3) {
                b.push(" ");
                more = doc_line(b, rng, l, false);
                b.feat("doc-content-on-opener-line");
            }
            let n = rng.range(1, 4);
            for i in 0..n {
                if !more {
                    break;
                }
                b.nl();
                b.push(indent);
                b.push(" ");
                b.zone("*", ZK::Delim, "block-leader");
                b.push(" ");
                // (an unterminated inline tag only as the very last content of the comment)
                more = doc_line(b, rng, l, i + 1 == n);
            }
            if rng.chance(1, 4) {
                // closer on the last content line
                b.push(" ");
                b.zone("*/", ZK::Delim, "block-closer");
                b.feat("doc-closer-on-last-line");
            } else {
                b.nl();
                b.push(indent);
                b.push(" ");
                b.zone("*/", ZK::Delim, "block-closer");
            }
            b.feat("doc-multi-line");
        }
    }
    b.nl();
    code_line(b, rng, l, indent);
    b.feat("doc-comment");
}

fn ignored_comment(b: &mut B, rng: &mut Rng, l: &CL, indent: &str, markers: &[String]) {
    let m = rng.pick(markers).clone();
    let a = b.n;
    let use_block = !l.block.is_empty() && !l.block_col0 && rng.chance(1, 3);
    b.push(indent);
    let start = b.n;
    let mut s = String::new();
    if use_block {
        let (op, cl) = l.block[0];
        s.push_str(op);
        s.push(' ');
        if rng.chance(1, 2) {
            s.push_str(*rng.pick(WORDS));
            s.push(' ');
        }
        s.push_str(&m);
        s.push(' ');
        s.push_str(*rng.pick(WORDS));
        s.push(' ');
        s.push_str(*rng.pick(&["zqxv", "wörd", "teh"]));
        s.push(' ');
        s.push_str(cl);
    } else {
        s.push_str(*rng.pick(l.line));
        s.push(' ');
        if rng.chance(1, 2) {
            s.push_str(*rng.pick(WORDS));
            s.push(' ');
        }
        s.push_str(&m);
        s.push(' ');
        s.push_str(*rng.pick(WORDS));
        s.push(' ');
        s.push_str(*rng.pick(&["zqxv", "wörd", "teh"]));
    }
    let _ = (a, start);
    b.zone(&s, ZK::Ignored, &format!("ignore-marker:{}", m));
    b.feat("ignore-marker");
}

/// one file of a comment language
pub fn gen_comment_file(rng: &mut Rng, l: &CL, markers: &[String]) -> B {
    let mut b = B::new(rng.chance(1, 4));
    // (the eol of the fixed prefix follows the file's convention)
    if l.shebang && rng.chance(1, 4) {
        let s = format!("#!/usr/bin/env {} {}", rng.pick(&["zqrun", "prögram"]), rng.pick(WORDS));
        b.zone(&s, ZK::Ignored, "shebang");
        b.nl();
        b.feat("shebang");
        // a code line separates the shebang from any following comment (adjacent comments are
        // merged into one block by the masker, and the marker then covers the block)
        code_line(&mut b, rng, l, "");
        b.nl();
    }
    if !l.prefix.is_empty() {
        let p = l.prefix.trim_end_matches('\n');
        b.zone(p, ZK::NonProse, "prefix");
        b.nl();
    }
    let nseg = rng.range(2, 7);
    let mut last_was_comment = false;
    for _ in 0..nseg {
        let indent = indent_of(rng, l);
        let choice = rng.below(10);
        match choice {
            0 | 1 | 2 => {
                line_comment_run(&mut b, rng, l, &indent);
                b.nl();
                last_was_comment = true;
            }
            3 | 4 if !l.block.is_empty() => {
                block_comment(&mut b, rng, l, &indent);
                b.nl();
                last_was_comment = true;
            }
            5 => {
                // trailing comment after code
                if code_line(&mut b, rng, l, &indent) {
                    // tree-sitter-c: a comment after a #define body is part of the body
                    b.taint("c-define-trailing-comment");
                }
                b.push(" ");
                let op = *rng.pick(l.line);
                b.zone(op, ZK::Delim, "line-opener");
                b.push(" ");
                comment_items(&mut b, rng, l);
                b.nl();
                b.feat("trailing-comment");
                last_was_comment = true;
            }
            6 => {
                // an ignored comment, fenced by code lines on both sides
                if last_was_comment {
                    code_line(&mut b, rng, l, &indent);
                    b.nl();
                }
                if rng.chance(1, 3) {
                    if code_line(&mut b, rng, l, &indent) {
                        b.taint("c-define-trailing-comment");
                    }
                    b.push(" ");
                    ignored_comment(&mut b, rng, l, "", markers);
                } else {
                    ignored_comment(&mut b, rng, l, &indent, markers);
                }
                b.nl();
                code_line(&mut b, rng, l, &indent);
                b.nl();
                last_was_comment = false;
            }
            7 | 8 if l.inner == Inner::JsDoc || l.inner == Inner::JavaDoc => {
                doc_comment(&mut b, rng, l, &indent);
                b.nl();
                last_was_comment = false;
            }
            7 | 8 if l.inner == Inner::Go => {
                // A comment block that begins with a `//go:` directive yields no tokens: the
                // directive line is recorded as Ignored. The code means to skip the directive and
                // lint the rest of the block, but (double offset in `try_get_content`) returns
                // nothing: the rest of the block is NOT judged. Fenced by code.
                if last_was_comment {
                    code_line(&mut b, rng, l, "");
                    b.nl();
                }
                let d = *rng.pick(&["//go:generate zqtool -x wörd", "//go:build linux && amd64", "//go:embed zqfile.txt", "//go:noinline"]);
                b.zone(d, ZK::Ignored, "go-directive");
                match rng.below(6) {
                    0 | 1 => {
                        // more lines in the same block: not judged
                        let n = rng.range(1, 2);
                        for _ in 0..n {
                            b.nl();
                            b.push("// ");
                            b.push(*rng.pick(WORDS));
                            b.push(" ");
                            b.push(*rng.pick(WORDS));
                        }
                        b.feat("go-directive-block");
                    }
                    2 if rng.chance(1, 3) => {
                        // recorded finding: an empty comment line after the directive makes
                        // `Span::len` underflow (panic with overflow checks on)
                        b.nl();
                        b.push("//");
                        b.taint("go-directive-empty-tail");
                    }
                    _ => {}
                }
                b.nl();
                code_line(&mut b, rng, l, "");
                b.nl();
                b.feat("go-directive");
                last_was_comment = false;
            }
            _ => {
                code_line(&mut b, rng, l, &indent);
                b.nl();
                if rng.chance(1, 3) {
                    b.nl();
                }
                last_was_comment = false;
            }
        }
    }
    if !l.suffix.is_empty() {
        let p = l.suffix.trim_end_matches('\n');
        b.zone(p, ZK::NonProse, "suffix");
        b.nl();
    }
    b
}

// ------------------------------------------------------------------------------------------
// Markdown (also the body of a commit message and the text of Literate Haskell)
// ------------------------------------------------------------------------------------------

fn md_inline(b: &mut B, rng: &mut Rng, ilt: bool) {
    let chunks = rng.range(1, 4);
    for i in 0..chunks {
        if i > 0 {
            b.push(" ");
        }
        match rng.below(12) {
            0 | 1 => {
                let c = format!("`{}`", codeish(rng));
                b.zone(&c, ZK::NonProse, "inline-code");
                b.feat("inline-code");
            }
            2 => {
                // link: text is prose (unless ignore_link_title), destination is not
                b.zone("[", ZK::Delim, "link-open");
                let n = rng.range(1, 3);
                if ilt {
                    b.words_as(rng, n, ZK::NonProse, "link-text-ignored");
                } else {
                    b.words(rng, n);
                }
                b.zone("](", ZK::Delim, "link-mid");
                let url = format!("https://example.com/{}/päge", rng.pick(WORDS));
                b.zone(&url, ZK::NonProse, "link-url");
                b.zone(")", ZK::Delim, "link-close");
                b.feat("link");
            }
            3 => {
                let d = *rng.pick(&["**", "*", "_", "~~"]);
                b.zone(d, ZK::Delim, "emph");
                let n = rng.range(1, 3);
                b.words(rng, n);
                b.zone(d, ZK::Delim, "emph");
                b.feat("emphasis");
            }
            4 => {
                let m = format!("${}$", rng.pick(&["x^2+ü", "\\alpha→\\beta", "a_1"]));
                b.zone(&m, ZK::NonProse, "inline-math");
                b.feat("math");
            }
            6 => {
                // image: the alternative text is not judged, the destination is not prose
                b.zone("![", ZK::Delim, "image-open");
                b.push(*rng.pick(WORDS));
                b.zone("](", ZK::Delim, "image-mid");
                let u = format!("{}/{}.png", rng.pick(WORDS), hostile(rng).replace(' ', ""));
                b.zone(&u, ZK::NonProse, "image-url");
                b.zone(")", ZK::Delim, "image-close");
                b.feat("image");
            }
            7 => {
                b.zone("<https://example.com/docs/page>", ZK::NonProse, "autolink");
                b.feat("autolink");
            }
            5 => {
                let t = format!("<span title=\"{}\">", hostile(rng));
                b.zone(&t, ZK::NonProse, "inline-html");
                let n = rng.range(1, 2);
                b.words(rng, n);
                b.zone("</span>", ZK::NonProse, "inline-html");
                b.feat("inline-html");
            }
            _ => {
                let n = rng.range(1, 6);
                b.words(rng, n);
            }
        }
    }
}

/// Markdown blocks appended to `b`; `lead` is put in front of every line (used for `> ` quotes)
pub fn md_blocks(b: &mut B, rng: &mut Rng, ilt: bool, nblocks: usize, allow_hash: bool) {
    for _ in 0..nblocks {
        match rng.below(14) {
            0 if allow_hash => {
                let h = *rng.pick(&["#", "##", "###"]);
                b.zone(h, ZK::Delim, "heading-marker");
                b.push(" ");
                let n = rng.range(1, 4);
                b.words(rng, n);
                b.nl();
                b.feat("heading");
            }
            1 => {
                // setext heading
                let n = rng.range(1, 4);
                b.words(rng, n);
                b.nl();
                b.zone(*rng.pick(&["=====", "-----"]), ZK::Delim, "setext-underline");
                b.nl();
                b.feat("setext");
            }
            2 | 3 => {
                let ordered = rng.chance(1, 3);
                let n = rng.range(1, 3);
                for i in 0..n {
                    let m = if ordered { format!("{}.", i + 1) } else { rng.pick(&["-", "*", "+"]).to_string() };
                    b.zone(&m, ZK::Delim, "list-marker");
                    b.push(" ");
                    md_inline(b, rng, ilt);
                    b.nl();
                    if rng.chance(1, 4) {
                        b.push("  ");
                        if ordered {
                            b.push(" ");
                        }
                        b.zone("-", ZK::Delim, "list-marker");
                        b.push(" ");
                        md_inline(b, rng, ilt);
                        b.nl();
                        b.feat("nested-list");
                    }
                }
                b.feat("list");
            }
            4 => {
                let fence = *rng.pick(&["```", "~~~", "````"]);
                let info = *rng.pick(&["", "rust", "text"]);
                let mut s = format!("{}{}{}", fence, info, b.eol);
                let n = rng.range(1, 3);
                for _ in 0..n {
                    s.push_str(&format!("let {} = \"{} {}\"; // {}{}", rng.pick(WORDS), hostile(rng), rng.pick(WORDS), rng.pick(WORDS), b.eol));
                }
                s.push_str(fence);
                b.zone(&s, ZK::NonProse, "code-fence");
                b.nl();
                b.feat("code-fence");
            }
            5 => {
                // table: cells are prose
                let cols = rng.range(2, 3);
                for r in 0..3 {
                    b.zone("|", ZK::Delim, "table-pipe");
                    for _ in 0..cols {
                        b.push(" ");
                        if r == 1 {
                            b.zone("---", ZK::Delim, "table-rule");
                        } else if rng.chance(1, 5) {
                            let c = format!("`{}`", codeish(rng));
                            b.zone(&c, ZK::NonProse, "inline-code");
                        } else {
                            let n = rng.range(1, 2);
                            b.words(rng, n);
                        }
                        b.push(" ");
                        b.zone("|", ZK::Delim, "table-pipe");
                    }
                    b.nl();
                }
                b.feat("table");
            }
            6 => {
                // block quote
                let n = rng.range(1, 2);
                for _ in 0..n {
                    b.zone(">", ZK::Delim, "quote-marker");
                    b.push(" ");
                    md_inline(b, rng, ilt);
                    b.nl();
                }
                b.feat("blockquote");
            }
            7 => {
                // HTML block
                let s = format!("<div class=\"{}\" data-x=\"{}\">", hostile(rng), rng.pick(WORDS));
                b.zone(&s, ZK::NonProse, "html-block");
                b.nl();
                b.zone("</div>", ZK::NonProse, "html-block");
                b.nl();
                b.feat("html-block");
            }
            9 => {
                // task list
                let n = rng.range(1, 3);
                for _ in 0..n {
                    b.zone("-", ZK::Delim, "list-marker");
                    b.push(" ");
                    b.zone(*rng.pick(&["[ ]", "[x]"]), ZK::Delim, "task-marker");
                    b.push(" ");
                    md_inline(b, rng, ilt);
                    b.nl();
                }
                b.feat("task-list");
            }
            10 => {
                // HTML comment block and a link reference definition
                let s = format!("<!-- {} {} teh -->", hostile(rng), rng.pick(WORDS));
                b.zone(&s, ZK::NonProse, "html-comment");
                b.nl();
                b.nl();
                let s = format!("[{}]: https://example.com/{}/päge", ident(rng), rng.pick(WORDS));
                b.zone(&s, ZK::NonProse, "link-reference-definition");
                b.nl();
                b.feat("html-comment+refdef");
            }
            8 => {
                // display math
                let s = format!("$${}x^2 + {}{}$$", b.eol, hostile(rng), b.eol);
                b.zone(&s, ZK::NonProse, "display-math");
                b.nl();
                b.feat("display-math");
            }
            _ => {
                let lines = rng.range(1, 3);
                for _ in 0..lines {
                    md_inline(b, rng, ilt);
                    b.nl();
                }
                b.feat("paragraph");
            }
        }
        b.nl();
    }
}

pub fn gen_markdown(rng: &mut Rng, ilt: bool) -> B {
    let mut b = B::new(rng.chance(1, 4));
    if rng.chance(1, 8) {
        // YAML metadata block
        let s = format!("---{}title: {} {}{}---", b.eol, hostile(rng), rng.pick(WORDS), b.eol);
        b.zone(&s, ZK::NonProse, "metadata-block");
        b.nl();
        b.nl();
        b.feat("metadata-block");
    }
    let n = rng.range(1, 5);
    md_blocks(&mut b, rng, ilt, n, true);
    b
}

pub fn gen_git_commit(rng: &mut Rng, ilt: bool) -> B {
    let mut b = B::new(rng.chance(1, 4));
    // subject
    let n = rng.range(2, 6);
    b.words(rng, n);
    b.nl();
    b.nl();
    let n = rng.range(0, 3);
    md_blocks(&mut b, rng, ilt, n, false);
    if rng.chance(4, 5) {
        let lines = rng.range(1, 4);
        for i in 0..lines {
            let s = match i {
                0 => "# Please enter the commit message for your changes. Lines starting".to_string(),
                1 => format!("# with '#' will be ignored {} {}", hostile(rng), rng.pick(WORDS)),
                _ => format!("#\tmodified:   src/{}.rs {}", rng.pick(WORDS), rng.pick(&["teh", "zqxv"])),
            };
            b.zone(&s, ZK::Ignored, "commit-comment");
            b.nl();
        }
        b.feat("commit-comment");
    }
    b
}

pub fn gen_lhaskell(rng: &mut Rng, ilt: bool) -> B {
    let mut b = B::new(rng.chance(1, 4));
    let nseg = rng.range(1, 5);
    // a text paragraph first or a code block first
    for k in 0..nseg {
        let code = if k == 0 { rng.chance(1, 4) } else { rng.chance(1, 2) };
        if !code {
            let lines = rng.range(1, 3);
            for _ in 0..lines {
                md_inline(&mut b, rng, ilt);
                b.nl();
            }
            b.nl();
            b.feat("lhs-text");
        } else if rng.chance(1, 2) {
            // bird tracks: preceded (here: by the blank line that ends every segment, or the file
            // start) and followed by a blank line. At file start there is no preceding blank
            // line: the masker only opens a bird block after a blank line, so emit one.
            if k == 0 {
                b.nl();
            }
            let n = rng.range(1, 3);
            for _ in 0..n {
                let s = format!("> {} = \"{} {}\" -- {}", ident(rng), hostile(rng), rng.pick(WORDS), rng.pick(WORDS));
                b.zone(&s, ZK::NonProse, "lhs-bird");
                b.nl();
            }
            b.nl();
            b.feat("lhs-bird");
        } else {
            b.zone("\\begin{code}", ZK::NonProse, "lhs-fence");
            b.nl();
            let n = rng.range(1, 3);
            let blank_inside = rng.chance(1, 8);
            for i in 0..n {
                let s = format!("{} = \"{} {}\" -- {}", ident(rng), hostile(rng), rng.pick(WORDS), rng.pick(WORDS));
                b.zone(&s, ZK::NonProse, if blank_inside && i > 0 { "lhs-code-env-after-blank" } else { "lhs-code-env" });
                b.nl();
                if blank_inside && i == 0 {
                    b.nl();
                    let s = format!("{} = \"{} {}\"", ident(rng), hostile(rng), rng.pick(WORDS));
                    b.zone(&s, ZK::NonProse, "lhs-code-env-after-blank");
                    b.nl();
                    b.feat("lhs-code-env-blank-inside");
                }
            }
            let what = if blank_inside { "lhs-fence-after-blank" } else { "lhs-fence" };
            b.zone("\\end{code}", ZK::NonProse, what);
            b.nl();
            b.nl();
            b.feat("lhs-code-env");
        }
    }
    b
}

// ------------------------------------------------------------------------------------------
// HTML
// ------------------------------------------------------------------------------------------

pub fn gen_html(rng: &mut Rng) -> B {
    let mut b = B::new(rng.chance(1, 4));
    let full = rng.chance(1, 2);
    if full {
        b.zone("<!DOCTYPE html>", ZK::NonProse, "doctype");
        b.nl();
        b.zone("<html lang=\"en\">", ZK::NonProse, "tag");
        b.zone("<head>", ZK::NonProse, "tag");
        b.zone("<title>", ZK::NonProse, "tag");
        let n = rng.range(1, 3);
        b.words(rng, n);
        b.zone("</title>", ZK::NonProse, "tag");
        if rng.chance(1, 2) {
            let s = format!("<style>p {{ content: \"{} {}\"; }}</style>", hostile(rng), rng.pick(WORDS));
            b.zone(&s, ZK::NonProse, "style");
            b.feat("style");
        }
        b.zone("</head>", ZK::NonProse, "tag");
        b.nl();
        b.zone("<body>", ZK::NonProse, "tag");
        b.nl();
    }
    let n = rng.range(1, 5);
    for _ in 0..n {
        let ind = *rng.pick(&["", "  ", "\t"]);
        b.push(ind);
        match rng.below(7) {
            0 => {
                let t = format!("<p class=\"{}\" title=\"{} {}\">", hostile(rng), rng.pick(WORDS), hostile(rng));
                b.zone(&t, ZK::NonProse, "tag");
                let n = rng.range(1, 5);
                b.words(rng, n);
                b.zone("</p>", ZK::NonProse, "tag");
                b.feat("p-attr");
            }
            1 => {
                b.zone("<p>", ZK::NonProse, "tag");
                let n = rng.range(1, 3);
                b.words(rng, n);
                b.push(" ");
                let t = format!("<b data-k=\"{}\">", hostile(rng));
                b.zone(&t, ZK::NonProse, "tag");
                let n = rng.range(1, 2);
                b.words(rng, n);
                b.zone("</b>", ZK::NonProse, "tag");
                b.push(" ");
                let n = rng.range(1, 3);
                b.words(rng, n);
                b.zone("</p>", ZK::NonProse, "tag");
                b.feat("inline-tag");
            }
            2 => {
                let s = format!("<script>var {} = \"{} {}\"; // {}</script>", ident(rng), hostile(rng), rng.pick(WORDS), rng.pick(WORDS));
                b.zone(&s, ZK::NonProse, "script");
                b.feat("script");
            }
            3 => {
                let h = *rng.pick(&["h1", "h2", "li", "td"]);
                b.zone(&format!("<{}>", h), ZK::NonProse, "tag");
                let n = rng.range(1, 4);
                b.words(rng, n);
                b.zone(&format!("</{}>", h), ZK::NonProse, "tag");
                b.feat("heading");
            }
            4 => {
                // multi-line text node
                b.zone("<div>", ZK::NonProse, "tag");
                b.nl();
                let lines = rng.range(1, 3);
                for _ in 0..lines {
                    b.push(ind);
                    b.push("  ");
                    let n = rng.range(1, 4);
                    b.words(rng, n);
                    b.nl();
                }
                b.push(ind);
                b.zone("</div>", ZK::NonProse, "tag");
                b.feat("multiline-text");
            }
            5 => {
                // `>` inside a quoted attribute value, a self-closing tag between words
                let t = format!("<p title=\"{} > {} {}\">", rng.pick(WORDS), hostile(rng), rng.pick(WORDS));
                b.zone(&t, ZK::NonProse, "tag");
                let n = rng.range(1, 3);
                b.words(rng, n);
                b.zone("<br/>", ZK::NonProse, "tag");
                let n = rng.range(1, 3);
                b.words(rng, n);
                b.zone("</p>", ZK::NonProse, "tag");
                b.feat("attr-with-gt");
            }
            _ => {
                let t = format!("<img src=\"{}.png\" alt=\"{}\">", hostile(rng), hostile(rng));
                b.zone(&t, ZK::NonProse, "tag");
                b.feat("void-tag");
            }
        }
        b.nl();
    }
    if full {
        b.zone("</body>", ZK::NonProse, "tag");
        b.zone("</html>", ZK::NonProse, "tag");
        b.nl();
    }
    b
}

// ------------------------------------------------------------------------------------------
// Typst
// ------------------------------------------------------------------------------------------

fn typst_inline(b: &mut B, rng: &mut Rng) {
    let chunks = rng.range(1, 4);
    for i in 0..chunks {
        if i > 0 {
            b.push(" ");
        }
        match rng.below(12) {
            0 => {
                let m = format!("${}$", rng.pick(&["x^2 + ü", "alpha → beta", "a_1 dot b"]));
                b.zone(&m, ZK::NonProse, "math");
                b.feat("math");
            }
            1 => {
                let c = format!("`{}`", codeish(rng));
                b.zone(&c, ZK::NonProse, "raw");
                b.feat("raw");
            }
            2 => {
                let d = *rng.pick(&["*", "_"]);
                b.zone(d, ZK::Delim, "emph");
                let n = rng.range(1, 3);
                b.words(rng, n);
                b.zone(d, ZK::Delim, "emph");
                b.feat("emphasis");
            }
            3 => {
                b.zone("https://example.com/docs/page", ZK::NonProse, "link");
                b.feat("link");
            }
            4 => {
                let r = format!("@{}", ident(rng));
                b.zone(&r, ZK::NonProse, "ref");
                b.feat("ref");
            }
            _ => {
                let n = rng.range(1, 6);
                b.words(rng, n);
            }
        }
    }
}

pub fn gen_typst(rng: &mut Rng) -> B {
    let mut b = B::new(rng.chance(1, 4));
    let n = rng.range(1, 6);
    for _ in 0..n {
        match rng.below(14) {
            0 => {
                b.zone(*rng.pick(&["=", "=="]), ZK::Delim, "heading-marker");
                b.push(" ");
                let n = rng.range(1, 4);
                b.words(rng, n);
                b.nl();
                b.feat("heading");
            }
            1 => {
                let n = rng.range(1, 3);
                let m = *rng.pick(&["-", "+"]);
                for _ in 0..n {
                    b.zone(m, ZK::Delim, "list-marker");
                    b.push(" ");
                    typst_inline(&mut b, rng);
                    b.nl();
                }
                b.feat("list");
            }
            2 => {
                let s = format!("#let {} = {}", ident(rng), rng.below(100));
                b.zone(&s, ZK::NonProse, "let-number");
                b.nl();
                b.feat("let");
            }
            3 => {
                // a string literal inside code
                b.zone(&format!("#let {} = ", ident(rng)), ZK::NonProse, "let-head");
                let s = format!("\"{} {} {}\"", hostile(rng), rng.pick(WORDS), hostile(rng));
                b.zone(&s, ZK::NonProse, "let-string");
                b.nl();
                b.feat("let-string");
            }
            4 => {
                let s = format!("```rust{}let {} = \"{} {}\";{}```", b.eol, rng.pick(WORDS), hostile(rng), rng.pick(WORDS), b.eol);
                b.zone(&s, ZK::NonProse, "raw-block");
                b.nl();
                b.feat("raw-block");
            }
            5 => {
                let s = format!("$ sum_(k=0)^n k = {} $", hostile(rng));
                b.zone(&s, ZK::NonProse, "display-math");
                b.nl();
                b.feat("display-math");
            }
            7 => {
                // a function call with a content block: the callee is code, the content is prose
                b.zone(*rng.pick(&["#emph", "#strong", "#underline"]), ZK::NonProse, "call-callee");
                b.zone("[", ZK::Delim, "content-open");
                let n = rng.range(1, 4);
                b.words(rng, n);
                b.zone("]", ZK::Delim, "content-close");
                b.nl();
                b.feat("content-block");
            }
            8 => {
                let n = rng.range(1, 4);
                b.words(rng, n);
                b.push(" ");
                let s = format!("<{}>", ident(rng));
                b.zone(&s, ZK::NonProse, "label");
                b.nl();
                b.feat("label");
            }
            9 => {
                b.zone("/", ZK::Delim, "term-marker");
                b.push(" ");
                let n = rng.range(1, 2);
                b.words(rng, n);
                b.zone(":", ZK::Delim, "term-colon");
                b.push(" ");
                let n = rng.range(1, 4);
                b.words(rng, n);
                b.nl();
                b.feat("term-list");
            }
            6 => {
                let s = format!("#set text(size: {}pt)", rng.range(8, 14));
                b.zone(&s, ZK::NonProse, "set-rule");
                b.nl();
                b.feat("set");
            }
            _ => {
                let lines = rng.range(1, 3);
                for _ in 0..lines {
                    typst_inline(&mut b, rng);
                    b.nl();
                }
                b.feat("paragraph");
            }
        }
        b.nl();
    }
    b
}

pub fn gen_plain(rng: &mut Rng) -> B {
    let mut b = B::new(rng.chance(1, 4));
    let lines = rng.range(1, 4);
    for _ in 0..lines {
        let n = rng.range(1, 8);
        b.words(rng, n);
        if rng.chance(1, 3) {
            // not judged: arbitrary non-ASCII material between words
            b.push(" ");
            b.push(&hostile(rng));
        }
        b.nl();
    }
    b
}

/// one generated file for language id `id`
pub fn gen_file(rng: &mut Rng, id: &str, ilt: bool, markers: &[String]) -> Option<B> {
    if let Some(l) = comment_lang(id) {
        return Some(gen_comment_file(rng, &l, markers));
    }
    Some(match id {
        "markdown" => gen_markdown(rng, ilt),
        "git-commit" | "gitcommit" => gen_git_commit(rng, ilt),
        "literate haskell" | "lhaskell" => gen_lhaskell(rng, ilt),
        "html" => gen_html(rng),
        "typst" => gen_typst(rng),
        "mail" | "plaintext" | "text" => gen_plain(rng),
        _ => return None,
    })
}

// ------------------------------------------------------------------------------------------
// w25: families derived from a generated file WITHOUT losing the ground truth
// ------------------------------------------------------------------------------------------

/// misspelled stand-ins for a prose word: no dictionary word, longer than any `ident()`
pub const SENTINELS: &[&str] = &["zzsentinelx", "qqmarkerword"];

/// zones are in increasing order and disjoint (true by construction; checked before any rewrite)
pub fn zones_ordered(zones: &[Zone], n: usize) -> bool {
    zones.windows(2).all(|w| w[0].e <= w[1].s) && zones.iter().all(|z| z.s <= z.e && z.e <= n)
}

/// Replace some Prose words by a misspelled sentinel (zone kind stays Prose, `what` becomes
/// `sentinel`); every later zone moves by the length difference. Returns the indices of the
/// planted zones. A front-end that lints exactly the prose must flag every sentinel at its
/// position and nothing inside the other zones.
pub fn plant(rng: &mut Rng, b: &mut B) -> Vec<usize> {
    let cs: Vec<char> = b.text.chars().collect();
    if !zones_ordered(&b.zones, cs.len()) {
        return vec![];
    }
    let prose: Vec<usize> = (0..b.zones.len()).filter(|i| b.zones[*i].kind == ZK::Prose && b.zones[*i].what.starts_with("word")).collect();
    if prose.is_empty() {
        return vec![];
    }
    let forced = *rng.pick(&prose);
    let mut out = String::new();
    let mut n = 0usize;
    let mut at = 0usize;
    let mut planted = vec![];
    for i in 0..b.zones.len() {
        let (s, e) = (b.zones[i].s, b.zones[i].e);
        for c in &cs[at..s] {
            out.push(*c);
            n += 1;
        }
        let a = n;
        let chosen = b.zones[i].kind == ZK::Prose && b.zones[i].what.starts_with("word") && (i == forced || rng.chance(1, 4));
        if chosen {
            let w = *rng.pick(SENTINELS);
            out.push_str(w);
            n += w.chars().count();
            b.zones[i].what = format!("sentinel{}", b.zones[i].what.strip_prefix("word").unwrap_or(""));
            planted.push(i);
        } else {
            for c in &cs[s..e] {
                out.push(*c);
                n += 1;
            }
        }
        b.zones[i].s = a;
        b.zones[i].e = n;
        at = e;
    }
    for c in &cs[at..] {
        out.push(*c);
        n += 1;
    }
    b.text = out;
    b.n = n;
    b.feat("sentinel");
    planted
}

/// append `o` to `b` (zones shifted)
fn append(b: &mut B, o: &B) {
    let off = b.n;
    b.text.push_str(&o.text);
    b.n += o.n;
    for z in &o.zones {
        b.zones.push(Zone { s: z.s + off, e: z.e + off, kind: z.kind, what: z.what.clone() });
    }
    for f in &o.feats {
        b.feat(*f);
    }
    for t in &o.taints {
        b.taint(*t);
    }
}

/// languages whose generated files can be put one after the other (no fixed prefix / suffix, no
/// construct that is only valid once per file)
fn concatenable(id: &str) -> bool {
    if let Some(l) = comment_lang(id) {
        return l.prefix.is_empty() && l.suffix.is_empty();
    }
    matches!(id, "markdown" | "typst" | "mail" | "plaintext" | "text" | "literate haskell" | "lhaskell")
}

/// A LONG file: `parts` generated files of one language in a row (many occurrences of every
/// construct in one document, large offsets). For comment languages a code line separates the
/// parts, so that the last comment of one part and the first of the next stay two comments.
pub fn gen_long(rng: &mut Rng, id: &str, ilt: bool, markers: &[String], parts: usize) -> Option<B> {
    if !concatenable(id) {
        return None;
    }
    let cl = comment_lang(id);
    let mut acc: Option<B> = None;
    let mut joined = 1usize;
    let mut tries = 0;
    while joined < parts && tries < parts * 20 {
        tries += 1;
        let p = gen_file(rng, id, ilt, markers)?;
        if !p.text.ends_with('\n') {
            continue;
        }
        let Some(b) = acc.as_mut() else {
            acc = Some(p);
            continue;
        };
        // a shebang / a metadata block is only one at the start of a file; one line-ending
        // convention per file
        if p.eol != b.eol || p.feats.contains(&"shebang") || p.feats.contains(&"metadata-block") {
            continue;
        }
        let mut sep = B::new(b.eol == "\r\n");
        if let Some(l) = &cl {
            code_line(&mut sep, rng, l, "");
        }
        sep.nl();
        append(b, &sep);
        append(b, &p);
        b.feat("long");
        joined += 1;
    }
    acc
}

/// the file without its final line terminator(s) (nothing judged lies there)
pub fn strip_final_eol(b: &mut B) -> bool {
    let last = b.zones.iter().map(|z| z.e).max().unwrap_or(0);
    let mut cs: Vec<char> = b.text.chars().collect();
    let mut cut = false;
    while cs.len() > last && matches!(cs.last(), Some('\n') | Some('\r')) {
        cs.pop();
        cut = true;
    }
    if cut {
        b.text = cs.iter().collect();
        b.n = cs.len();
        b.feat("no-final-eol");
    }
    cut
}

/// blank lines in front of the file (not for files whose first line must be the first line)
pub fn prepend_blank_lines(rng: &mut Rng, id: &str, b: &mut B) -> bool {
    if b.feats.contains(&"shebang") || b.feats.contains(&"metadata-block") || id == "php" {
        return false;
    }
    let k = rng.range(1, 3);
    let lead: String = b.eol.repeat(k);
    let off = lead.chars().count();
    b.text = format!("{}{}", lead, b.text);
    b.n += off;
    for z in &mut b.zones {
        z.s += off;
        z.e += off;
    }
    b.feat("leading-blank-lines");
    true
}

/// lone CR as the line terminator (a line ending of CommonMark and of Typst; plain text has no
/// lines): the LF file with every `\n` replaced — same length, same zones
pub fn lone_cr(id: &str, b: &mut B) -> bool {
    if !matches!(id, "markdown" | "typst" | "mail" | "plaintext" | "text") || b.eol != "\n" {
        return false;
    }
    b.text = b.text.replace('\n', "\r");
    b.eol = "\r";
    b.feat("eol-lone-cr");
    true
}

/// documents without any prose: nothing may be offered, nothing may panic
pub const EDGE_DOCS: &[&str] = &["", " ", "\n", "\r\n", "\r", "\t", " \n \n", "\n\n\n", "\u{feff}", "\u{feff}\n", "\u{a0}\u{2003}\n", "\u{200b}", "😀", "é\n"];
