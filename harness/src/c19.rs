//! C19 — the statistics log reads back exactly what was written, append after append.
//!
//! K: the Lean model of serde_json's string escaping / string parsing, of `BufRead::lines`, of
//!    `Stats::write` / `Stats::read` (records = a fixed derive-generated skeleton around one
//!    hostile string) and of `Stats::summarize`, against the real code.
//! O: real `Record`s (contexts from real documents and lints, hostile token contents, config
//!    updates with hostile keys) through the real `Stats::write` / `Stats::read`, in memory and
//!    through a file opened the way `harper-ls`'s `save_stats` opens it (append), several sessions;
//!    `harper_wasm::Linter::{generate_stats_file, import_stats_file}`.
use crate::common::*;
use harper_core::linting::{Lint, LintGroup, LintGroupConfig, LintKind, Linter};
use harper_core::{Dialect, Document, FatStringToken, FstDictionary, Number, Punctuation, Span, TokenKind};
use harper_stats::{Record, RecordKind, Stats};
use serde_json::{Value, json};
use std::io::{BufRead, BufReader, Cursor, Read, Write};
use std::path::PathBuf;
use std::sync::Arc;

const KINDS: [LintKind; 10] = [
    LintKind::Spelling,
    LintKind::Capitalization,
    LintKind::Style,
    LintKind::Formatting,
    LintKind::Repetition,
    LintKind::Enhancement,
    LintKind::Readability,
    LintKind::WordChoice,
    LintKind::Miscellaneous,
    LintKind::Punctuation,
];

fn kind_index(k: LintKind) -> usize {
    KINDS.iter().position(|x| *x == k).unwrap_or(99)
}

/// Characters that matter to the framing: JSON-escaped ones, line breaks of every flavour,
/// controls, DEL, non-ASCII, astral, boundary code points.
const HOSTILE: &[char] = &[
    '\n', '\r', '"', '\\', '\t', '\u{0}', '\u{1}', '\u{8}', '\u{b}', '\u{c}', '\u{1f}', ' ', '\u{7f}', '\u{85}', '\u{a0}',
    '\u{2028}', '\u{2029}', '\u{feff}', 'é', '😀', '\u{10ffff}', '\u{d7ff}', '\u{e000}', '/', 'u', 'n', '0', '{', '}', ',', ':',
];

fn cps(s: &str) -> String {
    let v: Vec<char> = s.chars().collect();
    chars_field(&v)
}

fn show_groups(gs: &[String]) -> String {
    let mut out = String::new();
    for g in gs {
        out.push_str(" |");
        for c in g.chars() {
            out.push(' ');
            out.push_str(&(c as u32).to_string());
        }
    }
    out
}

fn random_char(rng: &mut Rng) -> char {
    match rng.below(10) {
        0..=2 => *rng.pick(HOSTILE),
        3 => char::from_u32(rng.below(0x20) as u32).unwrap(),
        4 => char::from_u32(0x20 + rng.below(0x60) as u32).unwrap(),
        5 => char::from_u32(0x80 + rng.below(0x780) as u32).unwrap(),
        _ => loop {
            if let Some(c) = char::from_u32(rng.below(0x110000) as u32) {
                break c;
            }
        },
    }
}

fn random_string(rng: &mut Rng, max: usize) -> String {
    let n = rng.below(max + 1);
    (0..n).map(|_| random_char(rng)).collect()
}

// ---------------------------------------------------------------------------------------------
// K (a): escaping / parsing of JSON strings
// ---------------------------------------------------------------------------------------------

fn eval_esc(sess: &mut Session, s: &str, origin: &str) {
    let out = guarded(|| serde_json::to_string(&s.to_string()));
    let imp = match &out {
        Ok(Ok(o)) => format!("ok {}", cps(o)),
        Ok(Err(_)) => "err".to_string(),
        Err(_) => "panic".to_string(),
    };
    let case = sess.k(format!("esc {}", cps(s)).trim_end(), &imp);
    sess.count(&format!("esc:{}", origin));
    let input = json!({"stream": "esc", "cps": s.chars().map(|c| c as u32).collect::<Vec<_>>()});
    let Ok(Ok(o)) = out else {
        sess.fail("escape-error", "serde_json::to_string(&String) failed".into(), input, Some(case));
        return;
    };
    if o.bytes().any(|b| b == b'\n' || b == b'\r') {
        sess.fail("escape-linebreak", "a serialised string contains a raw line break".into(), input, Some(case));
        return;
    }
    match serde_json::from_str::<String>(&o) {
        Ok(back) if back == s => {}
        _ => {
            sess.fail("string-roundtrip", "from_str(to_string(s)) != s".into(), input, Some(case));
            return;
        }
    }
    if o.len() != s.len() + 2 {
        sess.nontrivial(&o);
    }
}

fn eval_unq(sess: &mut Session, lit: &str, origin: &str) {
    let r = guarded(|| serde_json::from_str::<String>(lit));
    let imp = match &r {
        Ok(Ok(s)) => format!("ok {}", cps(s)).trim_end().to_string(),
        Ok(Err(_)) => "err".to_string(),
        Err(_) => "panic".to_string(),
    };
    sess.k(format!("unq {}", cps(lit)).trim_end(), &imp);
    sess.count(&format!("unq:{}:{}", origin, if imp.starts_with("ok") { "ok" } else { "err" }));
    if imp.starts_with("ok") && lit.contains('\\') {
        sess.nontrivial(lit);
    }
}

// ---------------------------------------------------------------------------------------------
// K (b): BufRead::lines
// ---------------------------------------------------------------------------------------------

fn real_lines(s: &str) -> Result<Vec<String>, String> {
    let br = BufReader::with_capacity(7, Cursor::new(s.as_bytes())); // small buffer: lines span refills
    let mut out = vec![];
    for l in br.lines() {
        out.push(l.map_err(|e| e.to_string())?);
    }
    Ok(out)
}

fn eval_lines(sess: &mut Session, s: &str, origin: &str) {
    let r = guarded(|| real_lines(s));
    let imp = match &r {
        Ok(Ok(ls)) => format!("ok {}{}", ls.len(), show_groups(ls)),
        Ok(Err(_)) => "err".to_string(),
        Err(_) => "panic".to_string(),
    };
    sess.k(format!("lines {}", cps(s)).trim_end(), &imp);
    sess.count(&format!("lines:{}", origin));
    if let Ok(Ok(ls)) = &r {
        let sl: Vec<String> = s.lines().map(|x| x.to_string()).collect();
        sess.monitor("bufread-lines-equals-str-lines", *ls == sl);
        if ls.len() > 1 || s.contains('\r') {
            sess.nontrivial(s);
        }
    }
}

// ---------------------------------------------------------------------------------------------
// K: Stats::write / Stats::read on skeleton records
// ---------------------------------------------------------------------------------------------

fn fixed_uuid(n: u128) -> String {
    let h = format!("{:032x}", n);
    format!("{}-{}-{}-{}-{}", &h[0..8], &h[8..12], &h[12..16], &h[16..20], &h[20..32])
}

fn mk_record(kind: RecordKind, when: i64, uuid: u128) -> Record {
    let mut r = Record::now(kind);
    r.when = when;
    r.uuid = serde_json::from_str(&format!("\"{}\"", fixed_uuid(uuid))).expect("uuid");
    r
}

fn skeleton_record(s: &str) -> Record {
    mk_record(
        RecordKind::Lint {
            kind: LintKind::Spelling,
            context: vec![FatStringToken { content: s.to_string(), kind: TokenKind::Unlintable }],
        },
        0,
        7,
    )
}

/// (prefix, suffix) of the derive-generated skeleton around the token content
fn skeleton() -> (String, String) {
    let s = serde_json::to_string(&skeleton_record("")).unwrap();
    let key = "\"content\":\"\"";
    let at = s.find(key).expect("skeleton");
    (s[..at + key.len() - 2].to_string(), s[at + key.len()..].to_string())
}

fn write_mem(records: &[Record]) -> Result<Vec<u8>, String> {
    let st = Stats { records: records.to_vec() };
    let mut out = Vec::new();
    st.write(&mut out).map_err(|e| e.to_string())?;
    Ok(out)
}

fn eval_wlog(sess: &mut Session, ss: &[String], skel: &(String, String), origin: &str) -> Option<String> {
    let recs: Vec<Record> = ss.iter().map(|s| skeleton_record(s)).collect();
    let r = guarded(|| write_mem(&recs));
    let (imp, log) = match r {
        Ok(Ok(b)) => match String::from_utf8(b) {
            Ok(s) => (format!("ok {}", cps(&s)).trim_end().to_string(), Some(s)),
            Err(_) => ("err".to_string(), None),
        },
        Ok(Err(_)) => ("err".to_string(), None),
        Err(_) => ("panic".to_string(), None),
    };
    let mut op = format!("wlog | {} | {}", cps(&skel.0), cps(&skel.1));
    op.push_str(&show_groups(ss));
    sess.k(&op, &imp);
    sess.count(&format!("wlog:{}", origin));
    if ss.len() > 1 {
        sess.nontrivial(&op);
    }
    log
}

fn eval_rlog(sess: &mut Session, log: &str, skel: &(String, String), origin: &str) {
    let r = guarded(|| Stats::read(&mut Cursor::new(log.as_bytes())));
    let imp = match &r {
        Ok(Ok(st)) => {
            let mut ok = true;
            let mut ss = vec![];
            for rec in &st.records {
                match &rec.kind {
                    RecordKind::Lint { context, .. } if context.len() == 1 => ss.push(context[0].content.clone()),
                    _ => ok = false,
                }
            }
            if ok { format!("ok {}{}", ss.len(), show_groups(&ss)) } else { "other-shape".to_string() }
        }
        Ok(Err(_)) => "err".to_string(),
        Err(_) => "panic".to_string(),
    };
    let op = format!("rlog | {} | {} | {}", cps(&skel.0), cps(&skel.1), cps(log));
    sess.k(op.trim_end(), &imp);
    sess.count(&format!("rlog:{}:{}", origin, if imp.starts_with("ok") { "ok" } else { "err" }));
    sess.nontrivial(&op);
}

/// line-structure mutations of a log (what editors, transports and crashes do to a text file)
fn mutate_log(rng: &mut Rng, log: &str) -> (String, &'static str) {
    let cs: Vec<char> = log.chars().collect();
    match rng.below(9) {
        0 => (log.replace('\n', "\r\n"), "crlf"),
        1 => (log.strip_suffix('\n').unwrap_or(log).to_string(), "no-final-newline"),
        2 => {
            let nl: Vec<usize> = cs.iter().enumerate().filter(|(_, c)| **c == '\n').map(|(i, _)| i).collect();
            if nl.is_empty() {
                ("\n".to_string(), "blank-line")
            } else {
                let at = *rng.pick(&nl);
                let mut v = cs.clone();
                v.insert(at, '\n');
                (v.into_iter().collect(), "blank-line")
            }
        }
        3 => {
            let at = rng.below(cs.len() + 1);
            (cs[..at].iter().collect(), "truncated")
        }
        4 => (log.replace('\n', " \r\r\n"), "trailing-blanks"),
        5 => (log.replace('\n', "\n \t"), "leading-blanks"),
        6 => {
            // join two lines
            match log.find('\n') {
                Some(i) if i + 1 < log.len() => (format!("{}{}", &log[..i], &log[i + 1..]), "joined"),
                _ => (log.to_string(), "same"),
            }
        }
        7 => (format!("{}{}", log, log), "doubled"),
        _ => {
            // One character inserted. The model's record parser knows the exact skeleton only (no
            // white space BETWEEN JSON tokens, which serde_json would skip), so blanks go to the
            // start or end of a line; quotes, backslashes and line feeds go anywhere.
            let c = *rng.pick(&['\n', '\r', ' ', '\t', '"', '\\']);
            let at = if c == '\r' || c == ' ' || c == '\t' {
                let mut edges: Vec<usize> = vec![0, cs.len()];
                for (i, x) in cs.iter().enumerate() {
                    if *x == '\n' {
                        edges.push(i);
                        edges.push(i + 1);
                    }
                }
                *rng.pick(&edges)
            } else {
                rng.below(cs.len() + 1)
            };
            let mut v = cs.clone();
            v.insert(at, c);
            (v.into_iter().collect(), "char-inserted")
        }
    }
}

// ---------------------------------------------------------------------------------------------
// K (c): summarize
// ---------------------------------------------------------------------------------------------

fn word_field(w: &str) -> String {
    if w.is_empty() { "-".to_string() } else { w.chars().map(|c| (c as u32).to_string()).collect::<Vec<_>>().join(".") }
}

fn eval_sum(sess: &mut Session, recs: &[Record], cfgs: &[LintGroupConfig], origin: &str, input: Value) {
    let mut op = String::from("sum");
    let mut kinds_seen: Vec<usize> = vec![];
    let mut words_seen: Vec<String> = vec![];
    let mut nlint = 0u32;
    for r in recs {
        match &r.kind {
            RecordKind::Lint { kind, context } => {
                nlint += 1;
                let ki = kind_index(*kind);
                if !kinds_seen.contains(&ki) {
                    kinds_seen.push(ki);
                }
                op.push_str(&format!(" l:{}", ki));
                for t in context {
                    if let TokenKind::Word(None) = t.kind {
                        op.push(':');
                        op.push_str(&word_field(&t.content));
                        if !words_seen.contains(&t.content) {
                            words_seen.push(t.content.clone());
                        }
                    }
                }
            }
            RecordKind::LintConfigUpdate(c) => {
                let ci = cfgs.iter().position(|x| x == c).unwrap_or(999);
                op.push_str(&format!(" c:{}", ci));
            }
        }
    }
    let st = Stats { records: recs.to_vec() };
    let r = guarded(|| st.summarize());
    let imp = match &r {
        Ok(s) => {
            let fin = cfgs.iter().position(|x| *x == s.final_config).map(|i| i.to_string()).unwrap_or("?".into());
            let mut parts = vec!["ok".to_string(), s.total_applied.to_string(), fin, "|".to_string()];
            for ki in &kinds_seen {
                parts.push(format!("{}:{}", ki, KINDS.get(*ki).map(|k| s.get_count(*k)).unwrap_or(0)));
            }
            let mut extra: Vec<usize> = s.lint_counts.keys().map(|k| kind_index(*k)).filter(|k| !kinds_seen.contains(k)).collect();
            extra.sort();
            for k in extra {
                parts.push(format!("extra-{}", k));
            }
            parts.push("|".to_string());
            for w in &words_seen {
                parts.push(format!("{}:{}", word_field(w), s.misspelled.get(w).copied().unwrap_or(0)));
            }
            let mut extra: Vec<&String> = s.misspelled.keys().filter(|k| !words_seen.contains(k)).collect();
            extra.sort();
            for k in extra {
                parts.push(format!("extra-{}", word_field(k)));
            }
            parts.join(" ")
        }
        Err(_) => "panic".to_string(),
    };
    let case = sess.k(&op, &imp);
    sess.count(&format!("sum:{}", origin));
    if kinds_seen.len() > 1 || !words_seen.is_empty() {
        sess.nontrivial(&op);
    }
    // the property on the real summary: every lint record counted exactly once
    match r {
        Ok(s) => {
            let sum: u32 = s.lint_counts.values().sum();
            let per_kind_ok = KINDS.iter().all(|k| {
                s.get_count(*k) as usize
                    == recs.iter().filter(|r| matches!(&r.kind, RecordKind::Lint{kind, ..} if kind == k)).count()
            });
            if s.total_applied != nlint || sum != nlint || !per_kind_ok {
                sess.fail(
                    "summary-miscount",
                    format!("{} lint records, total_applied {}, counters sum {}", nlint, s.total_applied, sum),
                    input,
                    Some(case),
                );
            }
        }
        Err(_) => sess.fail("panic", "Stats::summarize panicked".into(), input, Some(case)),
    }
}

// ---------------------------------------------------------------------------------------------
// O: real records through real write/read
// ---------------------------------------------------------------------------------------------

/// the recorded defect's matcher: a record's context contains a Number token whose value is not finite
fn has_nonfinite(r: &Record) -> bool {
    match &r.kind {
        RecordKind::Lint { context, .. } => {
            context.iter().any(|t| matches!(t.kind, TokenKind::Number(n) if !n.value.0.is_finite()))
        }
        _ => false,
    }
}

/// where two record lists first differ, for the failure description
fn first_diff(a: &[Record], b: &[Record]) -> String {
    for (i, (x, y)) in a.iter().zip(b.iter()).enumerate() {
        if x != y {
            let sx: Vec<char> = serde_json::to_string(x).unwrap_or_default().chars().collect();
            let sy: Vec<char> = serde_json::to_string(y).unwrap_or_default().chars().collect();
            let at = sx.iter().zip(sy.iter()).position(|(p, q)| p != q).unwrap_or(sx.len().min(sy.len()));
            let lo = at.saturating_sub(60);
            let wx: String = sx[lo..(at + 40).min(sx.len())].iter().collect();
            let wy: String = sy[lo..(at + 40).min(sy.len())].iter().collect();
            return format!("record {} differs; written …{}… read back (re-serialised) …{}…", i, wx, wy);
        }
    }
    format!("{} records written, {} read", a.len(), b.len())
}

/// serde_json (feature `float_roundtrip` off) parses the shortest spelling of `v` back to `v`
fn float_survives(v: f64) -> bool {
    serde_json::to_string(&v).ok().and_then(|s| serde_json::from_str::<f64>(&s).ok()) == Some(v)
}

/// second recorded defect's matcher: a finite Number token whose value does not survive
fn has_lossy_float(r: &Record) -> bool {
    match &r.kind {
        RecordKind::Lint { context, .. } => {
            context.iter().any(|t| matches!(t.kind, TokenKind::Number(n) if n.value.0.is_finite() && !float_survives(n.value.0)))
        }
        _ => false,
    }
}

/// the record with every lossy float replaced by what serde_json parses its spelling to
fn normalise_floats(r: &Record) -> Record {
    let mut r = r.clone();
    if let RecordKind::Lint { context, .. } = &mut r.kind {
        for t in context.iter_mut() {
            if let TokenKind::Number(n) = &mut t.kind {
                let v = n.value.0;
                if v.is_finite() && !float_survives(v) {
                    if let Some(p) = serde_json::to_string(&v).ok().and_then(|s| serde_json::from_str::<f64>(&s).ok()) {
                        n.value = p.into();
                    }
                }
            }
        }
    }
    r
}

struct World {
    dict: Arc<FstDictionary>,
    group: LintGroup,
    cfgs: Vec<LintGroupConfig>,
    word_kinds: Vec<TokenKind>,
    dir: PathBuf,
    file_no: usize,
}

const NUMBERS: &[&str] = &[
    "3.14", "1e5", "0.30000000000000004", "123456789012345678901234567890", "1e308", "1.7976931348623157e308",
    "2.2250738585072014e-308", "4.9e-324", "1e-400", "0.1", "100", "9007199254740993", "1st", "22nd", "5e-324",
    "8.41e21", "2.0", "0.000001", "1.0e23", "9.5e-7", "123.456e2", "6.02214076e23", "179769313486231570000000000000000000000",
];

fn hostile_text(rng: &mut Rng, allow_nonfinite: bool) -> String {
    let sents = crate::corpus::sentences();
    let mut cs: Vec<char> = sents[rng.below(sents.len())].chars().collect();
    if rng.chance(1, 3) {
        cs.push(' ');
        cs.extend(sents[rng.below(sents.len())].chars());
    }
    let n = rng.below(7);
    for _ in 0..n {
        let at = rng.below(cs.len() + 1);
        match rng.below(6) {
            0 => {
                let num = if allow_nonfinite && rng.chance(1, 12) { "1e999" } else { *rng.pick(NUMBERS) };
                let piece: Vec<char> = format!(" {} ", num).chars().collect();
                cs.splice(at..at, piece);
            }
            1 => {
                let w: Vec<char> = format!(" {} ", random_string(rng, 6)).chars().collect();
                cs.splice(at..at, w);
            }
            2 => {
                cs.splice(at..at, "\r\n".chars());
            }
            _ => cs.insert(at, random_char(rng)),
        }
    }
    cs.into_iter().collect()
}

fn random_token_kind(rng: &mut Rng, w: &World) -> TokenKind {
    match rng.below(9) {
        0 => TokenKind::Word(None),
        1 => {
            if w.word_kinds.is_empty() { TokenKind::Word(None) } else { rng.pick(&w.word_kinds).clone() }
        }
        2 => TokenKind::Punctuation(*rng.pick(&[Punctuation::Period, Punctuation::Comma, Punctuation::Bang, Punctuation::OpenSquare])),
        3 => {
            let v: f64 = match rng.below(4) {
                0 => rng.below(1000) as f64,
                1 => f64::from_bits(rng.next() & 0x7FEF_FFFF_FFFF_FFFF), // any finite non-negative double
                2 => (rng.next() as f64) / 1e6,
                _ => NUMBERS[rng.below(NUMBERS.len())].parse::<f64>().unwrap_or(1.5),
            };
            let v = if v.is_finite() { v } else { 1.0 };
            TokenKind::Number(Number { value: v.into(), suffix: None, radix: if rng.chance(1, 5) { 16 } else { 10 }, precision: rng.below(4) })
        }
        4 => TokenKind::Space(rng.below(5)),
        5 => TokenKind::Newline(rng.below(3)),
        6 => TokenKind::Unlintable,
        7 => TokenKind::ParagraphBreak,
        _ => rng.pick(&[TokenKind::EmailAddress, TokenKind::Url, TokenKind::Hostname, TokenKind::Decade, TokenKind::Regexish]).clone(),
    }
}

/// One record, built the way the front-ends build them (`RecordKind::from_lint` on a real
/// document), or with directly constructed hostile tokens, or a config update.
fn random_record(rng: &mut Rng, w: &mut World, allow_nonfinite: bool, texts: &mut Vec<String>) -> Vec<Record> {
    let when = match rng.below(6) {
        0 => i64::MIN,
        1 => i64::MAX,
        2 => 0,
        3 => -(rng.below(1 << 40) as i64),
        _ => rng.below(1 << 40) as i64,
    };
    let uuid = ((rng.next() as u128) << 64) | rng.next() as u128;
    match rng.below(10) {
        // real document, real lints and synthetic spans
        0..=5 => {
            let text = hostile_text(rng, allow_nonfinite);
            texts.push(text.clone());
            let markdown = rng.chance(1, 3);
            let doc = match guarded(|| {
                if markdown { Document::new_markdown_default(&text, &*w.dict) } else { Document::new_plain_english(&text, &*w.dict) }
            }) {
                Ok(d) => d,
                Err(_) => return vec![],
            };
            let mut lints: Vec<Lint> = if rng.chance(1, 2) { guarded(|| w.group.lint(&doc)).unwrap_or_default() } else { vec![] };
            lints.truncate(3);
            let len = doc.get_full_content().len();
            for _ in 0..rng.range(1, 2) {
                let a = rng.below(len + 1);
                let b = (a + rng.below(12)).min(len);
                lints.push(Lint { span: Span::new(a, b), lint_kind: *rng.pick(&KINDS), ..Default::default() });
            }
            if rng.chance(1, 8) {
                lints.push(Lint { span: Span::new(0, len), lint_kind: *rng.pick(&KINDS), ..Default::default() });
            }
            let mut out = vec![];
            for l in lints {
                if let Ok(kind) = guarded(|| RecordKind::from_lint(&l, &doc)) {
                    out.push(mk_record(kind, when, uuid));
                }
            }
            out
        }
        // directly constructed tokens with arbitrary content
        6..=7 => {
            let n = rng.below(5);
            let mut context = vec![];
            for _ in 0..n {
                let content = random_string(rng, 12);
                texts.push(content.clone());
                context.push(FatStringToken { content, kind: random_token_kind(rng, w) });
            }
            vec![mk_record(RecordKind::Lint { kind: *rng.pick(&KINDS), context }, when, uuid)]
        }
        // configuration updates
        _ => {
            let ci = rng.below(w.cfgs.len());
            vec![mk_record(RecordKind::LintConfigUpdate(w.cfgs[ci].clone()), when, uuid)]
        }
    }
}

fn make_configs(rng: &mut Rng) -> Vec<LintGroupConfig> {
    let mut v = vec![LintGroupConfig::default()];
    let mut c = LintGroupConfig::default();
    c.fill_with_curated();
    v.push(c.clone());
    c.set_rule_enabled("SpellCheck", false);
    v.push(c.clone());
    for i in 0..5 {
        let mut c = LintGroupConfig::default();
        for j in 0..rng.range(1, 4) {
            // hostile keys: a config key is an arbitrary string
            c.set_rule_enabled(format!("k{}-{}-{}", i, j, random_string(rng, 5)), rng.chance(1, 2));
        }
        c.set_rule_enabled(format!("line\nbreak\r\"{}", i), true);
        v.push(c);
    }
    // rules that are PRESENT BUT UNSET (`"Rule": null`): what `clear()` leaves behind (and what
    // `merge_from` does to its argument), and what a JSON with explicit nulls deserialises to
    let mut c = LintGroupConfig::default();
    c.fill_with_curated();
    c.clear();
    v.push(c.clone());
    c.set_rule_enabled("SpellCheck", true);
    c.set_rule_enabled("LongSentences", false);
    v.push(c);
    if let Ok(c) = serde_json::from_str::<LintGroupConfig>(r#"{"LongSentences": null, "SpellCheck": true, "AnA": null, "x\ny": null}"#) {
        v.push(c);
    }
    let mut a = LintGroupConfig::default();
    a.set_rule_enabled("AnA", true);
    let mut b = LintGroupConfig::default();
    b.set_rule_enabled("SpellCheck", false);
    a.merge_from(&mut b);
    v.push(b);
    v.push(a);
    v
}

fn append_session(path: &PathBuf, records: &[Record]) -> Result<(), String> {
    // exactly how harper-ls's `save_stats` opens and writes the file
    let mut writer = std::io::BufWriter::new(
        std::fs::OpenOptions::new().read(true).append(true).create(true).open(path).map_err(|e| e.to_string())?,
    );
    Stats { records: records.to_vec() }.write(&mut writer).map_err(|e| e.to_string())?;
    writer.flush().map_err(|e| e.to_string())
}

/// What `Stats::read(Stats::write(recs))` is expected to return given the two recorded defects:
/// `None` = the read is expected to fail (a non-finite number was written as `null`); otherwise the
/// records with every lossy float replaced by what serde_json parses its spelling to.
fn expected_readback(recs: &[Record]) -> Option<Vec<Record>> {
    if recs.iter().any(has_nonfinite) {
        return None;
    }
    Some(recs.iter().map(normalise_floats).collect())
}

enum Outcome {
    Exact,
    KnownNonfinite,
    KnownLossyFloat,
    Bad(&'static str, String),
}

fn judge(recs: &[Record], back: Result<Result<Vec<Record>, String>, String>) -> Outcome {
    match back {
        Ok(Ok(got)) => {
            if got == recs {
                Outcome::Exact
            } else if expected_readback(recs).is_some_and(|e| e == got) {
                Outcome::KnownLossyFloat
            } else {
                Outcome::Bad("readback-mismatch", format!("read(write(rs)) != rs: {}", first_diff(recs, &got)))
            }
        }
        Ok(Err(e)) => {
            if recs.iter().any(has_nonfinite) {
                Outcome::KnownNonfinite
            } else {
                Outcome::Bad("read-error", format!("Stats::read rejects the log Stats::write produced: {}", e))
            }
        }
        Err(_) => Outcome::Bad("panic", "Stats::read panicked".into()),
    }
}

/// The property on real records: write (once in memory; in `cuts.len()+1` append sessions to a
/// file), read back, compare records and order.
fn eval_roundtrip(sess: &mut Session, w: &mut World, recs: &[Record], cuts: &[usize], origin: &str, input: Value) -> Option<String> {
    sess.o();
    sess.count(&format!("log:{}", origin));
    sess.count(&format!("log-sessions:{}", cuts.len() + 1));
    sess.add("records", recs.len() as u64);
    // assumption monitors, per record
    for r in recs {
        match serde_json::to_string(r) {
            Ok(line) => {
                sess.monitor("record-line-has-no-linebreak", !line.bytes().any(|b| b == b'\n' || b == b'\r'));
                sess.monitor("record-line-starts-and-ends-with-braces", line.starts_with('{') && line.ends_with('}'));
                if has_nonfinite(r) {
                    sess.count("nonfinite-record");
                } else {
                    if has_lossy_float(r) {
                        sess.count("lossy-float-record");
                    }
                    // serde's derive round-trips the record (up to the recorded float defect)
                    let back = serde_json::from_str::<Record>(&line);
                    let want = normalise_floats(r);
                    sess.monitor("record-serde-roundtrip", matches!(&back, Ok(b) if *b == want));
                }
            }
            Err(_) => sess.monitor("record-serialises", false),
        }
        if let RecordKind::Lint { context, .. } = &r.kind {
            if context.iter().any(|t| t.content.chars().any(|c| c == '\n' || c == '\r' || c == '"' || (c as u32) < 0x20 || (c as u32) > 0xFFFF)) {
                sess.nontrivial(&format!("{:?}", r));
                sess.count("record-with-hostile-content");
            }
        }
    }
    // (1) in memory: one write, one read
    let bytes = match guarded(|| write_mem(recs)) {
        Ok(Ok(b)) => b,
        Ok(Err(e)) => {
            sess.fail("write-error", format!("Stats::write failed: {}", e), input, None);
            return None;
        }
        Err(_) => {
            sess.fail("panic", "Stats::write panicked".into(), input, None);
            return None;
        }
    };
    let back = guarded(|| Stats::read(&mut Cursor::new(&bytes)).map(|s| s.records).map_err(|e| e.to_string()));
    let mem_outcome = judge(recs, back);
    // (2) append sessions to one file, opened as save_stats opens it
    w.file_no += 1;
    let path = w.dir.join(format!("stats-{}.txt", w.file_no));
    let _ = std::fs::remove_file(&path);
    let mut bounds = vec![0];
    bounds.extend_from_slice(cuts);
    bounds.push(recs.len());
    let mut werr = None;
    for i in 0..bounds.len() - 1 {
        if let Err(e) = append_session(&path, &recs[bounds[i]..bounds[i + 1]]) {
            werr = Some(e);
        }
    }
    let file_outcome = if let Some(e) = werr {
        Outcome::Bad("write-error", format!("append session failed: {}", e))
    } else {
        let mut fbytes = vec![];
        let _ = std::fs::File::open(&path).and_then(|mut f| f.read_to_end(&mut fbytes));
        if fbytes != bytes {
            // append composes: the file is byte for byte the single write
            Outcome::Bad("append-not-concatenation", "the file written in several append sessions differs from one write of all records".into())
        } else {
            let back = guarded(|| {
                std::fs::File::open(&path).map_err(|e| e.to_string()).and_then(|mut f| Stats::read(&mut f).map(|s| s.records).map_err(|e| e.to_string()))
            });
            judge(recs, back)
        }
    };
    let _ = std::fs::remove_file(&path);
    let mut reported = false;
    for (what, o) in [("in memory", mem_outcome), ("append sessions", file_outcome)] {
        match o {
            Outcome::Exact => {
                if recs.iter().any(has_nonfinite) {
                    sess.count("nonfinite-but-read-back"); // the recorded defect no longer reproduces
                }
            }
            Outcome::KnownNonfinite => {
                if !reported {
                    sess.fail("c19-nonfinite-number", format!("({}) a non-finite Number token was written as null; Stats::read rejects the log", what), input.clone(), None);
                    reported = true;
                    // the rest of the records must still satisfy the property
                    let rest: Vec<Record> = recs.iter().filter(|r| !has_nonfinite(r)).cloned().collect();
                    let mut input2 = input.clone();
                    input2["without_nonfinite_records"] = json!(true);
                    eval_roundtrip(sess, w, &rest, &[], "rest-of-known", input2);
                }
            }
            Outcome::KnownLossyFloat => {
                if !reported {
                    sess.fail("c19-float-not-roundtrip", format!("({}) read back equal except for Number values serde_json parses 1 ulp off: {}", what, first_diff(recs, &expected_readback(recs).unwrap_or_default())), input.clone(), None);
                    reported = true;
                }
            }
            Outcome::Bad(class, desc) => {
                sess.fail(class, format!("({}) {}", what, desc), input.clone(), None);
            }
        }
    }
    String::from_utf8(bytes).ok()
}

fn gen_case(case_seed: u64, w: &mut World, allow_nonfinite: bool) -> (Vec<Record>, Vec<usize>, Vec<String>) {
    let mut rng = Rng(case_seed);
    let mut recs = vec![];
    let mut texts = vec![];
    let target = rng.below(9);
    while recs.len() < target {
        let mut r = random_record(&mut rng, w, allow_nonfinite, &mut texts);
        recs.append(&mut r);
    }
    let mut cuts = vec![];
    for _ in 0..rng.below(3) {
        cuts.push(rng.below(recs.len() + 1));
    }
    cuts.sort();
    (recs, cuts, texts)
}

/// the witness of the recorded defect, built the way harper-wasm builds a record
fn corpus_case(i: usize, w: &World) -> (Vec<Record>, Vec<usize>, Vec<String>) {
    let texts: Vec<&str> = match i {
        0 => vec!["It costs 1e999$ today."],
        1 => vec!["She said \"hi\"\r\nand\tleft\u{0}\u{1f} 😀\u{2028}done.", "A plain one."],
        2 => vec!["Numbers: 0.30000000000000004 and 1e308 and 4.9e-324."],
        3 => vec![],
        5 => vec!["The constant is 1.7976931348623157 here."],
        _ => vec!["First session.", "Second\nsession.", "Third \\n session."],
    };
    let mut recs = vec![];
    for (j, t) in texts.iter().enumerate() {
        let doc = Document::new_plain_english(t, &*w.dict);
        let len = doc.get_full_content().len();
        let lint = Lint { span: Span::new(0, len), lint_kind: KINDS[(i + j) % 10], ..Default::default() };
        recs.push(mk_record(RecordKind::from_lint(&lint, &doc), 1_700_000_000 + j as i64, (i * 10 + j) as u128));
    }
    if i == 4 {
        recs.insert(1, mk_record(RecordKind::LintConfigUpdate(w.cfgs[3].clone()), 5, 99));
    }
    let cuts = if i == 4 { vec![1, 3] } else { vec![] };
    (recs, cuts, texts.iter().map(|s| s.to_string()).collect())
}

fn wasm_roundtrip(sess: &mut Session, rng: &mut Rng, n_texts: usize) {
    use harper_wasm::{Dialect as WDialect, Language, Linter as WLinter};
    let mut linter = WLinter::new(WDialect::American);
    let sents = crate::corpus::sentences();
    let mut applied = 0;
    for _ in 0..n_texts {
        let mut text = sents[rng.below(sents.len())].clone();
        if rng.chance(1, 2) {
            text = format!("\"{}\"\r\n\t{} 😀\u{1}", text, sents[rng.below(sents.len())]);
        }
        let lints = match guarded(|| linter.lint(text.clone(), Language::Plain)) {
            Ok(l) => l,
            Err(_) => continue,
        };
        for l in lints.iter().take(2) {
            if let Some(s) = l.suggestions().first() {
                if guarded(|| linter.apply_suggestion(text.clone(), l, s)).is_ok() {
                    applied += 1;
                }
            }
        }
    }
    sess.o();
    sess.add("wasm-applied-suggestions", applied);
    let file = linter.generate_stats_file();
    let n_lines = file.lines().count() as u64;
    let input = json!({"stream": "wasm", "file": file});
    if n_lines != applied {
        sess.fail("wasm-export-count", format!("{} suggestions applied, {} lines exported", applied, n_lines), input.clone(), None);
    }
    let mut fresh = WLinter::new(WDialect::American);
    match guarded(|| fresh.import_stats_file(file.clone())) {
        Ok(Ok(())) => {
            // import twice = append: the export is the concatenation
            let once = fresh.generate_stats_file();
            let _ = fresh.import_stats_file(file.clone());
            let twice = fresh.generate_stats_file();
            if once != file || twice != format!("{}{}", file, file) {
                sess.fail("wasm-import-export", "export(import(file)) != file".into(), input, None);
            }
        }
        Ok(Err(e)) => sess.fail("wasm-import-error", format!("import_stats_file rejects generate_stats_file's output: {}", e), input, None),
        Err(_) => sess.fail("panic", "import_stats_file panicked".into(), input, None),
    }
}

fn replay(ctx: &Ctx, sess: &mut Session, w: &mut World, skel: &(String, String), v: &Value) {
    let stream = v["stream"].as_str().unwrap_or("");
    let text_of = |v: &Value| -> String {
        v["cps"].as_array().map(|a| a.iter().filter_map(|x| x.as_u64()).filter_map(|x| char::from_u32(x as u32)).collect()).unwrap_or_default()
    };
    match stream {
        "esc" => eval_esc(sess, &text_of(v), "replay"),
        "lines" => eval_lines(sess, &text_of(v), "replay"),
        "corpus" => {
            let (recs, cuts, _) = corpus_case(v["index"].as_u64().unwrap_or(0) as usize, w);
            eval_roundtrip(sess, w, &recs, &cuts, "replay", v.clone());
            let cfgs = w.cfgs.clone();
            eval_sum(sess, &recs, &cfgs, "replay", v.clone());
        }
        "random" | "sum" => {
            let seed = v["case_seed"].as_u64().unwrap_or(ctx.seed);
            let (recs, cuts, _) = gen_case(seed, w, v["allow_nonfinite"].as_bool().unwrap_or(true));
            eval_roundtrip(sess, w, &recs, &cuts, "replay", v.clone());
            let cfgs = w.cfgs.clone();
            eval_sum(sess, &recs, &cfgs, "replay", v.clone());
        }
        "wasm" => {
            let mut rng = Rng::new(ctx.seed);
            wasm_roundtrip(sess, &mut rng, 30);
        }
        _ => {
            let ss = vec![text_of(v)];
            if let Some(log) = eval_wlog(sess, &ss, skel, "replay") {
                eval_rlog(sess, &log, skel, "replay");
            }
        }
    }
}

/// The record path of the SERVER: `workspace/executeCommand HarperRecordLint [<RecordKind as JSON
/// text>]` through the real `Backend`, `shutdown` (→ `save_stats` appends to the statistics file of
/// the configuration), two sessions on one file; `Stats::read` of that file must return exactly the
/// kinds that were sent, in order. One record for every `LintKind` the real rules produce.
fn server_sessions(sess: &mut Session, ctx: &Ctx, only: Option<Vec<String>>) {
    use crate::lsclient::*;
    let (_, _, stats_path) = set_home(&ctx.out.join("c19-home"));
    let _ = std::fs::remove_file(&stats_path);
    let cfg = json!({"harper-ls": {}});
    // kinds: from real lints until every lint kind the rules produce has been seen, plus a config update
    let kinds: Vec<String> = match only {
        Some(k) => k,
        None => {
            let dict = FstDictionary::curated();
            let mut group = LintGroup::new_curated(dict.clone(), Dialect::American);
            group.set_all_rules_to(Some(true));
            let mut seen = std::collections::BTreeSet::new();
            let mut out = vec![];
            let extra = ["Hello , world.".to_string(), "This is an test of teh the the thing , you know ; it costs 5$ and i like it alot.".to_string()];
            for t in extra.iter().chain(crate::corpus::sentences().iter()) {
                let doc = Document::new_plain_english(t, &*dict);
                let Ok(lints) = guarded(|| group.lint(&doc)) else { continue };
                for l in lints {
                    if seen.insert(format!("{:?}", l.lint_kind)) {
                        if let Ok(k) = guarded(|| RecordKind::from_lint(&l, &doc)) {
                            out.push(serde_json::to_string(&k).unwrap());
                        }
                    }
                }
                if seen.len() >= 10 {
                    break;
                }
            }
            sess.add("server:lint-kinds-recorded", seen.len() as u64);
            out.push(serde_json::to_string(&RecordKind::LintConfigUpdate(harper_core::linting::LintGroupConfig::new_curated())).unwrap());
            out
        }
    };
    let half = kinds.len() / 2;
    let r: Result<(), LsError> = (|| {
        for part in [&kinds[..half], &kinds[half..]] {
            let mut ls = LsSession::start()?;
            ls.initialize(&cfg)?;
            for k in part {
                ls.request_sync("workspace/executeCommand", json!({"command": "HarperRecordLint", "arguments": [k]}), &cfg)?;
            }
            ls.shutdown(&cfg)?;
        }
        Ok(())
    })();
    sess.monitor("the in-process language server completed the C19 sessions", r.is_ok());
    if r.is_err() {
        return;
    }
    sess.o();
    let input = json!({"kind": "server", "record_kinds": kinds});
    let back = guarded(|| std::fs::File::open(&stats_path).map_err(|e| e.to_string()).and_then(|f| Stats::read(&mut std::io::BufReader::new(f)).map_err(|e| e.to_string())));
    match back {
        Ok(Ok(st)) => {
            let got: Vec<Value> = st.records.iter().map(|r| serde_json::to_value(&r.kind).unwrap()).collect();
            let want: Vec<Value> = kinds.iter().map(|k| serde_json::from_str(k).unwrap_or(Value::Null)).collect();
            if got != want {
                let first = got.iter().zip(want.iter()).position(|(a, b)| a != b).unwrap_or(got.len().min(want.len()));
                sess.fail("server-records-differ", format!("{} records were sent to HarperRecordLint in two sessions, the statistics file reads back {}; first difference at #{}", want.len(), got.len(), first), input, None);
            } else {
                sess.nontrivial("server-sessions");
                sess.count("origin:server-sessions");
            }
        }
        Ok(Err(e)) => sess.fail("read-error", format!("the statistics file written by the server's save_stats cannot be read back: {}", e), input, None),
        Err(_) => sess.fail("panic", "Stats::read panicked on the server's statistics file".into(), input, None),
    }
}

pub fn run(ctx: &Ctx) {
    let mut sess = Session::new(ctx);
    let mut rng = Rng::new(ctx.seed);
    let thorough = ctx.tier == Tier::Thorough;
    if let Some(v) = replay_input(ctx) {
        if v["kind"] == "server" {
            let k: Vec<String> = serde_json::from_value(v["record_kinds"].clone()).unwrap_or_default();
            server_sessions(&mut sess, ctx, Some(k));
            sess.nontrivial("replay-a");
            sess.nontrivial("replay-b");
            sess.finish("replay of one recorded server session", false, json!({}));
            return;
        }
    } else {
        // first, while this is the only thread (it sets HOME)
        server_sessions(&mut sess, ctx, None);
    }
    let dir = std::env::temp_dir().join(format!("hv-c19-{}-{}", std::process::id(), ctx.seed));
    std::fs::create_dir_all(&dir).expect("temp dir");
    let dict = FstDictionary::curated();
    let mut group = LintGroup::new_curated(dict.clone(), Dialect::American);
    group.config.fill_with_curated();
    // the config table is generated from a fixed seed so that replays see the same table
    let cfgs = make_configs(&mut Rng::new(19));
    let word_kinds: Vec<TokenKind> = Document::new_plain_english("The quick brown foxes were jumping over 3 lazy dogs' backs, weren't they?", &*dict)
        .get_tokens()
        .iter()
        .map(|t| t.kind.clone())
        .filter(|k| matches!(k, TokenKind::Word(Some(_))))
        .collect();
    let mut w = World { dict, group, cfgs, word_kinds, dir: dir.clone(), file_no: 0 };
    let skel = skeleton();

    if let Some(v) = replay_input(ctx) {
        replay(ctx, &mut sess, &mut w, &skel, &v);
        sess.nontrivial("replay-a");
        sess.nontrivial("replay-b");
        let _ = std::fs::remove_dir_all(&dir);
        sess.finish("replay of one recorded input", false, json!({}));
        return;
    }

    // ---- 1. corpus ------------------------------------------------------------------------
    for s in ["", "a", "\n", "\r\n", "\"\\", "\u{0}\u{1f}\u{7f}", "é\u{2028}😀", "\u{8}\u{c}\t/", "\u{10ffff}\u{d7ff}"] {
        eval_esc(&mut sess, s, "corpus");
        eval_lines(&mut sess, s, "corpus");
    }
    for s in ["\"\\u004A\\ud83d\\ude00\\/\"", "\"\\ud83d\"", "\"\\ude00\"", "\"\\ud83d\\u0041\"", "\"a", "a\"", "\"\n\"", "\"\\x\"", "\"\\u12\"", "\"\\uD83D\\uDE00\"", "\"\u{7f}\"", " \"a\" ", "\t\"a\"\r\n", "\"a\" x", "\"\"", "\"", ""] {
        eval_unq(&mut sess, s, "corpus");
    }
    for s in ["a\r", "a\r\n", "\r\r\n", "a\n\nb", "\n\n", "a\nb\r", "\r", "\u{2028}\n\u{85}"] {
        eval_lines(&mut sess, s, "corpus");
    }
    for i in 0..6 {
        let (recs, cuts, texts) = corpus_case(i, &w);
        let input = json!({"stream": "corpus", "index": i, "texts": texts});
        let log = eval_roundtrip(&mut sess, &mut w, &recs, &cuts, "corpus", input.clone());
        let cfgs = w.cfgs.clone();
        eval_sum(&mut sess, &recs, &cfgs, "corpus", input);
        if let Some(log) = log {
            eval_lines(&mut sess, &log, "real-log");
        }
    }
    {
        let ss: Vec<String> = vec!["".into(), "a\nb".into(), "\"\r".into(), "😀\u{1}".into()];
        if let Some(log) = eval_wlog(&mut sess, &ss, &skel, "corpus") {
            eval_rlog(&mut sess, &log, &skel, "corpus");
            eval_rlog(&mut sess, &log.replace('\n', "\r\n"), &skel, "corpus");
            eval_rlog(&mut sess, &log.replace('\n', "\n\n"), &skel, "corpus");
            eval_rlog(&mut sess, log.trim_end(), &skel, "corpus");
        }
        eval_wlog(&mut sess, &[], &skel, "corpus");
        eval_rlog(&mut sess, "", &skel, "corpus");
        eval_rlog(&mut sess, "\n", &skel, "corpus");
    }

    // ---- 2. exhaustive small scope ----------------------------------------------------------
    let alpha: [char; 12] = ['a', '"', '\\', '\n', '\r', '\t', '\u{0}', '\u{1f}', '\u{7f}', 'é', '\u{2028}', '😀'];
    for len in 0..=3usize {
        for code in 0..alpha.len().pow(len as u32) {
            let mut c = code;
            let mut s = String::new();
            for _ in 0..len {
                s.push(alpha[c % alpha.len()]);
                c /= alpha.len();
            }
            eval_esc(&mut sess, &s, "exhaustive");
        }
    }
    // every control character, and every single char next to the table's boundaries
    for n in 0u32..0x30 {
        eval_esc(&mut sess, &char::from_u32(n).unwrap().to_string(), "all-controls");
    }
    let lalpha = ['a', '\n', '\r'];
    let lmax = if thorough { 7 } else { 5 };
    for len in 0..=lmax {
        for code in 0..3usize.pow(len as u32) {
            let mut c = code;
            let mut s = String::new();
            for _ in 0..len {
                s.push(lalpha[c % 3]);
                c /= 3;
            }
            eval_lines(&mut sess, &s, "exhaustive");
        }
    }
    // JSON string literals: all bodies of length ≤ 3 (thorough: 4) over the parser's alphabet
    let ualpha = ['"', '\\', 'u', 'n', '/', 'a', '\n', '\u{1}', 'é', ' '];
    let umax = if thorough { 4 } else { 3 };
    for len in 0..=umax {
        for code in 0..ualpha.len().pow(len as u32) {
            let mut c = code;
            let mut s = String::from("\"");
            for _ in 0..len {
                s.push(ualpha[c % ualpha.len()]);
                c /= ualpha.len();
            }
            s.push('"');
            eval_unq(&mut sess, &s, "exhaustive");
        }
    }
    // all \uXXXX escapes over a hex alphabet that reaches both cases and the surrogate ranges
    let hx = ['0', '1', 'd', 'D', '8', 'b', 'c', 'F', 'g'];
    for a in hx {
        for b in hx {
            for c in ['0', 'f', 'G'] {
                eval_unq(&mut sess, &format!("\"\\u{}{}{}0\"", a, b, c), "hex-escapes");
                eval_unq(&mut sess, &format!("\"\\ud83d\\u{}{}{}0\"", a, b, c), "hex-escapes");
            }
        }
    }

    // ---- 3. structured random ------------------------------------------------------------------
    let n_esc = if thorough { 120000 } else { 16000 };
    for i in 0..n_esc {
        let max = if i % 10 == 0 { 400 } else { 40 };
        let s = random_string(&mut rng, max);
        eval_esc(&mut sess, &s, "random");
        if i % 4 == 0 {
            // what serde_json wrote, and a mutation of it, through the parser
            let lit = serde_json::to_string(&s).unwrap();
            eval_unq(&mut sess, &lit, "roundtrip");
            let mut cs: Vec<char> = lit.chars().collect();
            let at = rng.below(cs.len() + 1).clamp(1, cs.len() - 1);
            match rng.below(3) {
                0 => cs.insert(at, *rng.pick(&['\\', '"', 'u', '\n', '\u{2}'])),
                1 => {
                    cs.remove(at.min(cs.len() - 2).max(1).min(cs.len() - 1));
                }
                _ => {
                    let esc: Vec<char> = format!("\\u{:04x}", rng.below(0x10000)).chars().collect();
                    cs.splice(at..at, esc);
                }
            }
            if cs.first() == Some(&'"') && cs.last() == Some(&'"') && cs.len() >= 2 {
                let m: String = cs.into_iter().collect();
                eval_unq(&mut sess, &m, "mutated");
            }
        }
    }
    let n_lines = if thorough { 80000 } else { 10000 };
    let lal = ['a', 'b', '\n', '\n', '\r', '\r', ' ', '\u{2028}', '\u{85}', '\u{b}', '\u{c}', '😀', '"', '}'];
    for _ in 0..n_lines {
        let n = rng.below(60);
        let s: String = (0..n).map(|_| *rng.pick(&lal)).collect();
        eval_lines(&mut sess, &s, "random");
    }
    // skeleton records through the real Stats::write / Stats::read, and mutated logs
    let n_wlog = if thorough { 20000 } else { 3000 };
    for _ in 0..n_wlog {
        let n = rng.below(5);
        let ss: Vec<String> = (0..n).map(|_| random_string(&mut rng, 10)).collect();
        if let Some(log) = eval_wlog(&mut sess, &ss, &skel, "random") {
            eval_rlog(&mut sess, &log, &skel, "written");
            let (m, how) = mutate_log(&mut rng, &log);
            eval_rlog(&mut sess, &m, &skel, how);
        }
    }
    // real records: round trip, append sessions, summary
    let n_log = if thorough { 60000 } else { 8000 };
    for i in 0..n_log {
        let case_seed = rng.next();
        // the recorded defect's input class is only generated in a small share of the cases,
        // so that most cases test the rest of the property
        let allow_nonfinite = i % 25 == 0;
        let (recs, cuts, texts) = gen_case(case_seed, &mut w, allow_nonfinite);
        let input = json!({"stream": "random", "case_seed": case_seed, "allow_nonfinite": allow_nonfinite, "texts": texts});
        if i < 2 {
            sess.sample(json!({"texts": texts, "records": recs.len(), "sessions": cuts.len() + 1}));
        }
        let log = eval_roundtrip(&mut sess, &mut w, &recs, &cuts, "random", input.clone());
        let cfgs = w.cfgs.clone();
        eval_sum(&mut sess, &recs, &cfgs, "random", input);
        if let Some(log) = log {
            if i % 5 == 0 && log.len() < 20000 {
                eval_lines(&mut sess, &log, "real-log");
            }
        }
    }
    // export / import through harper-wasm's Linter
    for _ in 0..(if thorough { 6 } else { 2 }) {
        wasm_roundtrip(&mut sess, &mut rng, if thorough { 60 } else { 25 });
    }
    let _ = std::fs::remove_dir_all(&dir);
    sess.finish(
        "corpus (incl. the recorded `1e999` witness); exhaustively: escaping of all strings of ≤3 chars over {a \" \\ \\n \\r \\t NUL 0x1F DEL é U+2028 😀} and of every char < 0x30, `lines` of all strings of ≤5 (thorough ≤7) chars over {a \\n \\r}, parsing of all JSON string literals with bodies of ≤3 (thorough ≤4) chars over {\" \\ u n / a \\n 0x01 é space} and a grid of \\uXXXX escapes (both hex cases, surrogates); random: strings over all of Unicode (controls, line separators, astral), serde_json's own output mutated, logs of skeleton records through the real Stats::write/read incl. CRLF/blank-line/truncation/join mutations, lists of real Records (contexts via RecordKind::from_lint on documents with hostile characters and number spellings, directly built tokens of every kind, config updates with hostile keys; extreme timestamps) written in 1–3 append sessions to a file opened like save_stats and read back, their summaries, harper-wasm export/import; the server's record path (HarperRecordLint for a record of every lint kind the rules produce + a configuration update, two sessions, shutdown → save_stats, Stats::read of the file). Non-trivial = escaping changed the string / more than one line or a CR / a record with hostile content / a summary with ≥2 kinds or a misspelt word.",
        true,
        json!({"exhaustive_scope": format!("esc: len ≤3 over 12 chars; lines: len ≤{} over 3 chars; unq: body len ≤{} over 10 chars", lmax, umax)}),
    );
}
