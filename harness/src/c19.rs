//! C19 — the statistics log reads back exactly what was written, append after append.
//!
//! K: the Lean model of serde_json's string escaping / string parsing, of `BufRead::lines`, of
//!    `Stats::write` / `Stats::read` (records = a fixed derive-generated skeleton around one
//!    hostile string) and of `Stats::summarize`, against the real code.
//! O: real `Record`s (contexts from real documents and lints, hostile token contents, config
//!    updates with hostile keys) through the real `Stats::write` / `Stats::read`, in memory and
//!    through a file opened the way `harper-ls`'s `save_stats` opens it (append), several sessions;
//!    `harper_wasm::Linter::{generate_stats_file, import_stats_file}`.
use crate::common::*;
use harper_core::linting::{Lint, LintGroup, LintGroupConfig, LintKind, Linter};
use harper_core::{Dialect, Document, FatStringToken, FstDictionary, Number, Punctuation, Span, TokenKind};
use harper_stats::{Record, RecordKind, Stats};
use serde_json::{Value, json};
use std::io::{BufRead, BufReader, Cursor, Read, Write};
use std::path::PathBuf;
use std::sync::Arc;

const KINDS: [LintKind; 10] = [
    LintKind::Spelling,
    LintKind::Capitalization,
    LintKind::Style,
    LintKind::Formatting,
    LintKind::Repetition,
    LintKind::Enhancement,
    LintKind::Readability,
    LintKind::WordChoice,
    LintKind::Miscellaneous,
    LintKind::Punctuation,
];

fn kind_index(k: LintKind) -> usize {
    KINDS.iter().position(|x| *x == k).unwrap_or(99)
}

/// Characters that matter to the framing: JSON-escaped ones, line breaks of every flavour,
/// controls, DEL, non-ASCII, astral, boundary code points.
const HOSTILE: &[char] = &[
    '\n', '\r', '"', '\\', '\t', '\u{0}', '\u{1}', '\u{8}', '\u{b}', '\u{c}', '\u{1f}', ' ', '\u{7f}', '\u{85}', '\u{a0}',
    '\u{2028}', '\u{2029}', '\u{feff}', 'é', '😀', '\u{10ffff}', '\u{d7ff}', '\u{e000}', '/', 'u', 'n', '0', '{', '}', ',', ':',
];

fn cps(s: &str) -> String {
    let v: Vec<char> = s.chars().collect();
    chars_field(&v)
}

fn show_groups(gs: &[String]) -> String {
    let mut out = String::new();
    for g in gs {
        out.push_str(" |");
        for c in g.chars() {
            out.push(' ');
            out.push_str(&(c as u32).to_string());
        }
    }
    out
}

fn random_char(rng: &mut Rng) -> char {
    match rng.below(10) {
        0..=2 => *rng.pick(HOSTILE),
        3 => char::from_u32(rng.below(0x20) as u32).unwrap(),
        4 => char::from_u32(0x20 + rng.below(0x60) as u32).unwrap(),
        5 => char::from_u32(0x80 + rng.below(0x780) as u32).unwrap(),
        _ => loop {
            if let Some(c) = char::from_u32(rng.below(0x110000) as u32) {
                break c;
            }
        },
    }
}

fn random_string(rng: &mut Rng, max: usize) -> String {
    let n = rng.below(max + 1);
    (0..n).map(|_| random_char(rng)).collect()
}

// ---------------------------------------------------------------------------------------------
// K (a): escaping / parsing of JSON strings
// ---------------------------------------------------------------------------------------------

fn eval_esc(sess: &mut Session, s: &str, origin: &str) {
    let out = guarded(|| serde_json::to_string(&s.to_string()));
    let imp = match &out {
        Ok(Ok(o)) => format!("ok {}", cps(o)),
        Ok(Err(_)) => "err".to_string(),
        Err(_) => "panic".to_string(),
    };
    let case = sess.k(format!("esc {}", cps(s)).trim_end(), &imp);
    sess.count(&format!("esc:{}", origin));
    let input = json!({"stream": "esc", "cps": s.chars().map(|c| c as u32).collect::<Vec<_>>()});
    let Ok(Ok(o)) = out else {
        sess.fail("escape-error", "serde_json::to_string(&String) failed".into(), input, Some(case));
        return;
    };
    if o.bytes().any(|b| b == b'\n' || b == b'\r') {
        sess.fail("escape-linebreak", "a serialised string contains a raw line break".into(), input, Some(case));
        return;
    }
    match serde_json::from_str::<String>(&o) {
        Ok(back) if back == s => {}
        _ => {
            sess.fail("string-roundtrip", "from_str(to_string(s)) != s".into(), input, Some(case));
            return;
        }
    }
    if o.len() != s.len() + 2 {
        sess.nontrivial(&o);
    }
}

fn eval_unq(sess: &mut Session, lit: &str, origin: &str) {
    let r = guarded(|| serde_json::from_str::<String>(lit));
    let imp = match &r {
        Ok(Ok(s)) => format!("ok {}", cps(s)).trim_end().to_string(),
        Ok(Err(_)) => "err".to_string(),
        Err(_) => "panic".to_string(),
    };
    sess.k(format!("unq {}", cps(lit)).trim_end(), &imp);
    sess.count(&format!("unq:{}:{}", origin, if imp.starts_with("ok") { "ok" } else { "err" }));
    if imp.starts_with("ok") && lit.contains('\\') {
        sess.nontrivial(lit);
    }
}

// ---------------------------------------------------------------------------------------------
// K (b): BufRead::lines
// ---------------------------------------------------------------------------------------------

fn real_lines(s: &str) -> Result<Vec<String>, String> {
    let br = BufReader::with_capacity(7, Cursor::new(s.as_bytes())); // small buffer: lines span refills
    let mut out = vec![];
    for l in br.lines() {
        out.push(l.map_err(|e| e.to_string())?);
    }
    Ok(out)
}

fn eval_lines(sess: &mut Session, s: &str, origin: &str) {
    let r = guarded(|| real_lines(s));
    let imp = match &r {
        Ok(Ok(ls)) => format!("ok {}{}", ls.len(), show_groups(ls)),
        Ok(Err(_)) => "err".to_string(),
        Err(_) => "panic".to_string(),
    };
    sess.k(format!("lines {}", cps(s)).trim_end(), &imp);
    sess.count(&format!("lines:{}", origin));
    if let Ok(Ok(ls)) = &r {
        let sl: Vec<String> = s.lines().map(|x| x.to_string()).collect();
        sess.monitor("bufread-lines-equals-str-lines", *ls == sl);
        if ls.len() > 1 || s.contains('\r') {
            sess.nontrivial(s);
        }
    }
}

// ---------------------------------------------------------------------------------------------
// K: Stats::write / Stats::read on skeleton records
// ---------------------------------------------------------------------------------------------

fn fixed_uuid(n: u128) -> String {
    let h = format!("{:032x}", n);
    format!("{}-{}-{}-{}-{}", &h[0..8], &h[8..12], &h[12..16], &h[16..20], &h[20..32])
}

fn mk_record(kind: RecordKind, when: i64, uuid: u128) -> Record {
    let mut r = Record::now(kind);
    r.when = when;
    r.uuid = serde_json::from_str(&format!("\"{}\"", fixed_uuid(uuid))).expect("uuid");
    r
}

fn skeleton_record(s: &str) -> Record {
    mk_record(
        RecordKind::Lint {
            kind: LintKind::Spelling,
            context: vec![FatStringToken { content: s.to_string(), kind: TokenKind::Unlintable }],
        },
        0,
        7,
    )
}

/// (prefix, suffix) of the derive-generated skeleton around the token content
fn skeleton() -> (String, String) {
    let s = serde_json::to_string(&skeleton_record("")).unwrap();
    let key = "\"content\":\"\"";
    let at = s.find(key).expect("skeleton");
    (s[..at + key.len() - 2].to_string(), s[at + key.len()..].to_string())
}

fn write_mem(records: &[Record]) -> Result<Vec<u8>, String> {
    let st = Stats { records: records.to_vec() };
    let mut out = Vec::new();
    st.write(&mut out).map_err(|e| e.to_string())?;
    Ok(out)
}

fn eval_wlog(sess: &mut Session, ss: &[String], skel: &(String, String), origin: &str) -> Option<String> {
    let recs: Vec<Record> = ss.iter().map(|s| skeleton_record(s)).collect();
    let r = guarded(|| write_mem(&recs));
    let (imp, log) = match r {
        Ok(Ok(b)) => match String::from_utf8(b) {
            Ok(s) => (format!("ok {}", cps(&s)).trim_end().to_string(), Some(s)),
            Err(_) => ("err".to_string(), None),
        },
        Ok(Err(_)) => ("err".to_string(), None),
        Err(_) => ("panic".to_string(), None),
    };
    let mut op = format!("wlog | {} | {}", cps(&skel.0), cps(&skel.1));
    op.push_str(&show_groups(ss));
    sess.k(&op, &imp);
    sess.count(&format!("wlog:{}", origin));
    if ss.len() > 1 {
        sess.nontrivial(&op);
    }
    log
}

fn eval_rlog(sess: &mut Session, log: &str, skel: &(String, String), origin: &str) {
    let r = guarded(|| Stats::read(&mut Cursor::new(log.as_bytes())));
    let imp = match &r {
        Ok(Ok(st)) => {
            let mut ok = true;
            let mut ss = vec![];
            for rec in &st.records {
                match &rec.kind {
                    RecordKind::Lint { context, .. } if context.len() == 1 => ss.push(context[0].content.clone()),
                    _ => ok = false,
                }
            }
            if ok { format!("ok {}{}", ss.len(), show_groups(&ss)) } else { "other-shape".to_string() }
        }
        Ok(Err(_)) => "err".to_string(),
        Err(_) => "panic".to_string(),
    };
    let op = format!("rlog | {} | {} | {}", cps(&skel.0), cps(&skel.1), cps(log));
    sess.k(op.trim_end(), &imp);
    sess.count(&format!("rlog:{}:{}", origin, if imp.starts_with("ok") { "ok" } else { "err" }));
    sess.nontrivial(&op);
}

/// line-structure mutations of a log (what editors, transports and crashes do to a text file)
fn mutate_log(rng: &mut Rng, log: &str) -> (String, &'static str) {
    let cs: Vec<char> = log.chars().collect();
    match rng.below(9) {
        0 => (log.replace('\n', "\r\n"), "crlf"),
        1 => (log.strip_suffix('\n').unwrap_or(log).to_string(), "no-final-newline"),
        2 => {
            let nl: Vec<usize> = cs.iter().enumerate().filter(|(_, c)| **c == '\n').map(|(i, _)| i).collect();
            if nl.is_empty() {
                ("\n".to_string(), "blank-line")
            } else {
                let at = *rng.pick(&nl);
                let mut v = cs.clone();
                v.insert(at, '\n');
                (v.into_iter().collect(), "blank-line")
            }
        }
        3 => {
            let at = rng.below(cs.len() + 1);
            (cs[..at].iter().collect(), "truncated")
        }
        4 => (log.replace('\n', " \r\r\n"), "trailing-blanks"),
        5 => (log.replace('\n', "\n \t"), "leading-blanks"),
        6 => {
            // join two lines
            match log.find('\n') {
                Some(i) if i + 1 < log.len() => (format!("{}{}", &log[..i], &log[i + 1..]), "joined"),
                _ => (log.to_string(), "same"),
            }
        }
        7 => (format!("{}{}", log, log), "doubled"),
        _ => {
            // One character inserted. The model's record parser knows the exact skeleton only (no
            // white space BETWEEN JSON tokens, which serde_json would skip), so blanks go to the
            // start or end of a line; quotes, backslashes and line feeds go anywhere.
            let c = *rng.pick(&['\n', '\r', ' ', '\t', '"', '\\']);
            let at = if c == '\r' || c == ' ' || c == '\t' {
                let mut edges: Vec<usize> = vec![0, cs.len()];
                for (i, x) in cs.iter().enumerate() {
                    if *x == '\n' {
                        edges.push(i);
                        edges.push(i + 1);
                    }
                }
                *rng.pick(&edges)
            } else {
                rng.below(cs.len() + 1)
            };
            let mut v = cs.clone();
            v.insert(at, c);
            (v.into_iter().collect(), "char-inserted")
        }
    }
}

// ---------------------------------------------------------------------------------------------
// K (c): summarize
// ---------------------------------------------------------------------------------------------

fn word_field(w: &str) -> String {
    if w.is_empty() { "-".to_string() } else { w.chars().map(|c| (c as u32).to_string()).collect::<Vec<_>>().join(".") }
}

fn eval_sum(sess: &mut Session, recs: &[Record], cfgs: &[LintGroupConfig], origin: &str, input: Value) {
    let mut op = String::from("sum");
    let mut kinds_seen: Vec<usize> = vec![];
    let mut words_seen: Vec<String> = vec![];
    let mut nlint = 0u32;
    for r in recs {
        match &r.kind {
            RecordKind::Lint { kind, context } => {
                nlint += 1;
                let ki = kind_index(*kind);
                if !kinds_seen.contains(&ki) {
                    kinds_seen.push(ki);
                }
                op.push_str(&format!(" l:{}", ki));
                for t in context {
                    if let TokenKind::Word(None) = t.kind {
                        op.push(':');
                        op.push_str(&word_field(&t.content));
                        if !words_seen.contains(&t.content) {
                            words_seen.push(t.content.clone());
                        }
                    }
                }
            }
            RecordKind::LintConfigUpdate(c) => {
                let ci = cfgs.iter().position(|x| x == c).unwrap_or(999);
                op.push_str(&format!(" c:{}", ci));
            }
        }
    }
    let st = Stats { records: recs.to_vec() };
    let r = guarded(|| st.summarize());
    let imp = match &r {
        Ok(s) => {
            let fin = cfgs.iter().position(|x| *x == s.final_config).map(|i| i.to_string()).unwrap_or("?".into());
            let mut parts = vec!["ok".to_string(), s.total_applied.to_string(), fin, "|".to_string()];
            for ki in &kinds_seen {
                parts.push(format!("{}:{}", ki, KINDS.get(*ki).map(|k| s.get_count(*k)).unwrap_or(0)));
            }
            let mut extra: Vec<usize> = s.lint_counts.keys().map(|k| kind_index(*k)).filter(|k| !kinds_seen.contains(k)).collect();
            extra.sort();
            for k in extra {
                parts.push(format!("extra-{}", k));
            }
            parts.push("|".to_string());
            for w in &words_seen {
                parts.push(format!("{}:{}", word_field(w), s.misspelled.get(w).copied().unwrap_or(0)));
            }
            let mut extra: Vec<&String> = s.misspelled.keys().filter(|k| !words_seen.contains(k)).collect();
            extra.sort();
            for k in extra {
                parts.push(format!("extra-{}", word_field(k)));
            }
            parts.join(" ")
        }
        Err(_) => "panic".to_string(),
    };
    let case = sess.k(&op, &imp);
    sess.count(&format!("sum:{}", origin));
    if kinds_seen.len() > 1 || !words_seen.is_empty() {
        sess.nontrivial(&op);
    }
    // the property on the real summary: every lint record counted exactly once
    match r {
        Ok(s) => {
            let sum: u32 = s.lint_counts.values().sum();
            let per_kind_ok = KINDS.iter().all(|k| {
                s.get_count(*k) as usize
                    == recs.iter().filter(|r| matches!(&r.kind, RecordKind::Lint{kind, ..} if kind == k)).count()
            });
            if s.total_applied != nlint || sum != nlint || !per_kind_ok {
                sess.fail(
                    "summary-miscount",
                    format!("{} lint records, total_applied {}, counters sum {}", nlint, s.total_applied, sum),
                    input,
                    Some(case),
                );
            }
        }
        Err(_) => sess.fail("panic", "Stats::summarize panicked".into(), input, Some(case)),
    }
}

// ---------------------------------------------------------------------------------------------
// O: real records through real write/read
// ---------------------------------------------------------------------------------------------

/// the recorded defect's matcher: a record's context contains a Number token whose value is not finite
fn has_nonfinite(r: &Record) -> bool {
    match &r.kind {
        RecordKind::Lint { context, .. } => {
            context.iter().any(|t| matches!(t.kind, TokenKind::Number(n) if !n.value.0.is_finite()))
        }
        _ => false,
    }
}

/// where two record lists first differ, for the failure description
fn first_diff(a: &[Record], b: &[Record]) -> String {
    for (i, (x, y)) in a.iter().zip(b.iter()).enumerate() {
        if x != y {
            let sx: Vec<char> = serde_json::to_string(x).unwrap_or_default().chars().collect();
            let sy: Vec<char> = serde_json::to_string(y).unwrap_or_default().chars().collect();
            let at = sx.iter().zip(sy.iter()).position(|(p, q)| p != q).unwrap_or(sx.len().min(sy.len()));
            let lo = at.saturating_sub(60);
            let wx: String = sx[lo..(at + 40).min(sx.len())].iter().collect();
            let wy: String = sy[lo..(at + 40).min(sy.len())].iter().collect();
            return format!("record {} differs; written …{}… read back (re-serialised) …{}…", i, wx, wy);
        }
    }
    format!("{} records written, {} read", a.len(), b.len())
}

/// serde_json (feature `float_roundtrip` off) parses the shortest spelling of `v` back to `v`
fn float_survives(v: f64) -> bool {
    serde_json::to_string(&v).ok().and_then(|s| serde_json::from_str::<f64>(&s).ok()) == Some(v)
}

/// second recorded defect's matcher: a finite Number token whose value does not survive
fn has_lossy_float(r: &Record) -> bool {
    match &r.kind {
        RecordKind::Lint { context, .. } => {
            context.iter().any(|t| matches!(t.kind, TokenKind::Number(n) if n.value.0.is_finite() && !float_survives(n.value.0)))
        }
        _ => false,
    }
}

/// the record with every lossy float replaced by what serde_json parses its spelling to
fn normalise_floats(r: &Record) -> Record {
    let mut r = r.clone();
    if let RecordKind::Lint { context, .. } = &mut r.kind {
        for t in context.iter_mut() {
            if let TokenKind::Number(n) = &mut t.kind {
                let v = n.value.0;
                if v.is_finite() && !float_survives(v) {
                    if let Some(p) = serde_json::to_string(&v).ok().and_then(|s| serde_json::from_str::<f64>(&s).ok()) {
                        n.value = p.into();
                    }
                }
            }
        }
    }
    r
}

struct World {
    dict: Arc<FstDictionary>,
    group: LintGroup,
    cfgs: Vec<LintGroupConfig>,
    word_kinds: Vec<TokenKind>,
    dir: PathBuf,
    file_no: usize,
}

const NUMBERS: &[&str] = &[
    "3.14", "1e5", "0.30000000000000004", "123456789012345678901234567890", "1e308", "1.7976931348623157e308",
    "2.2250738585072014e-308", "4.9e-324", "1e-400", "0.1", "100", "9007199254740993", "1st", "22nd", "5e-324",
    "8.41e21", "2.0", "0.000001", "1.0e23", "9.5e-7", "123.456e2", "6.02214076e23", "179769313486231570000000000000000000000",
];

fn hostile_text(rng: &mut Rng, allow_nonfinite: bool) -> String {
    let sents = crate::corpus::sentences();
    let mut cs: Vec<char> = sents[rng.below(sents.len())].chars().collect();
    if rng.chance(1, 3) {
        cs.push(' ');
        cs.extend(sents[rng.below(sents.len())].chars());
    }
    let n = rng.below(7);
    for _ in 0..n {
        let at = rng.below(cs.len() + 1);
        match rng.below(6) {
            0 => {
                let num = if allow_nonfinite && rng.chance(1, 12) { "1e999" } else { *rng.pick(NUMBERS) };
                let piece: Vec<char> = format!(" {} ", num).chars().collect();
                cs.splice(at..at, piece);
            }
            1 => {
                let w: Vec<char> = format!(" {} ", random_string(rng, 6)).chars().collect();
                cs.splice(at..at, w);
            }
            2 => {
                cs.splice(at..at, "\r\n".chars());
            }
            _ => cs.insert(at, random_char(rng)),
        }
    }
    cs.into_iter().collect()
}

fn random_token_kind(rng: &mut Rng, w: &World) -> TokenKind {
    match rng.below(9) {
        0 => TokenKind::Word(None),
        1 => {
            if w.word_kinds.is_empty() { TokenKind::Word(None) } else { rng.pick(&w.word_kinds).clone() }
        }
        2 => TokenKind::Punctuation(*rng.pick(&[Punctuation::Period, Punctuation::Comma, Punctuation::Bang, Punctuation::OpenSquare])),
        3 => {
            let v: f64 = match rng.below(4) {
                0 => rng.below(1000) as f64,
                1 => f64::from_bits(rng.next() & 0x7FEF_FFFF_FFFF_FFFF), // any finite non-negative double
                2 => (rng.next() as f64) / 1e6,
                _ => NUMBERS[rng.below(NUMBERS.len())].parse::<f64>().unwrap_or(1.5),
            };
            let v = if v.is_finite() { v } else { 1.0 };
            TokenKind::Number(Number { value: v.into(), suffix: None, radix: if rng.chance(1, 5) { 16 } else { 10 }, precision: rng.below(4) })
        }
        4 => TokenKind::Space(rng.below(5)),
        5 => TokenKind::Newline(rng.below(3)),
        6 => TokenKind::Unlintable,
        7 => TokenKind::ParagraphBreak,
        _ => rng.pick(&[TokenKind::EmailAddress, TokenKind::Url, TokenKind::Hostname, TokenKind::Decade, TokenKind::Regexish]).clone(),
    }
}

/// One record, built the way the front-ends build them (`RecordKind::from_lint` on a real
/// document), or with directly constructed hostile tokens, or a config update.
fn random_record(rng: &mut Rng, w: &mut World, allow_nonfinite: bool, texts: &mut Vec<String>) -> Vec<Record> {
    let when = match rng.below(6) {
        0 => i64::MIN,
        1 => i64::MAX,
        2 => 0,
        3 => -(rng.below(1 << 40) as i64),
        _ => rng.below(1 << 40) as i64,
    };
    let uuid = ((rng.next() as u128) << 64) | rng.next() as u128;
    match rng.below(10) {
        // real document, real lints and synthetic spans
        0..=5 => {
            let text = hostile_text(rng, allow_nonfinite);
            texts.push(text.clone());
            let markdown = rng.chance(1, 3);
            let doc = match guarded(|| {
                if markdown { Document::new_markdown_default(&text, &*w.dict) } else { Document::new_plain_english(&text, &*w.dict) }
            }) {
                Ok(d) => d,
                Err(_) => return vec![],
            };
            let mut lints: Vec<Lint> = if rng.chance(1, 2) { guarded(|| w.group.lint(&doc)).unwrap_or_default() } else { vec![] };
            lints.truncate(3);
            let len = doc.get_full_content().len();
            for _ in 0..rng.range(1, 2) {
                let a = rng.below(len + 1);
                let b = (a + rng.below(12)).min(len);
                lints.push(Lint { span: Span::new(a, b), lint_kind: *rng.pick(&KINDS), ..Default::default() });
            }
            if rng.chance(1, 8) {
                lints.push(Lint { span: Span::new(0, len), lint_kind: *rng.pick(&KINDS), ..Default::default() });
            }
            let mut out = vec![];
            for l in lints {
                if let Ok(kind) = guarded(|| RecordKind::from_lint(&l, &doc)) {
                    out.push(mk_record(kind, when, uuid));
                }
            }
            out
        }
        // directly constructed tokens with arbitrary content
        6..=7 => {
            let n = rng.below(5);
            let mut context = vec![];
            for _ in 0..n {
                let content = random_string(rng, 12);
                texts.push(content.clone());
                context.push(FatStringToken { content, kind: random_token_kind(rng, w) });
            }
            vec![mk_record(RecordKind::Lint { kind: *rng.pick(&KINDS), context }, when, uuid)]
        }
        // configuration updates
        _ => {
            let ci = rng.below(w.cfgs.len());
            vec![mk_record(RecordKind::LintConfigUpdate(w.cfgs[ci].clone()), when, uuid)]
        }
    }
}

fn make_configs(rng: &mut Rng) -> Vec<LintGroupConfig> {
    let mut v = vec![LintGroupConfig::default()];
    let mut c = LintGroupConfig::default();
    c.fill_with_curated();
    v.push(c.clone());
    c.set_rule_enabled("SpellCheck", false);
    v.push(c.clone());
    for i in 0..5 {
        let mut c = LintGroupConfig::default();
        for j in 0..rng.range(1, 4) {
            // hostile keys: a config key is an arbitrary string
            c.set_rule_enabled(format!("k{}-{}-{}", i, j, random_string(rng, 5)), rng.chance(1, 2));
        }
        c.set_rule_enabled(format!("line\nbreak\r\"{}", i), true);
        v.push(c);
    }
    // rules that are PRESENT BUT UNSET (`"Rule": null`): what `clear()` leaves behind (and what
    // `merge_from` does to its argument), and what a JSON with explicit nulls deserialises to
    let mut c = LintGroupConfig::default();
    c.fill_with_curated();
    c.clear();
    v.push(c.clone());
    c.set_rule_enabled("SpellCheck", true);
    c.set_rule_enabled("LongSentences", false);
    v.push(c);
    if let Ok(c) = serde_json::from_str::<LintGroupConfig>(r#"{"LongSentences": null, "SpellCheck": true, "AnA": null, "x\ny": null}"#) {
        v.push(c);
    }
    let mut a = LintGroupConfig::default();
    a.set_rule_enabled("AnA", true);
    let mut b = LintGroupConfig::default();
    b.set_rule_enabled("SpellCheck", false);
    a.merge_from(&mut b);
    v.push(b);
    v.push(a);
    v
}

fn append_session(path: &PathBuf, records: &[Record]) -> Result<(), String> {
    // exactly how harper-ls's `save_stats` opens and writes the file
    let mut writer = std::io::BufWriter::new(
        std::fs::OpenOptions::new().read(true).append(true).create(true).open(path).map_err(|e| e.to_string())?,
    );
    Stats { records: records.to_vec() }.write(&mut writer).map_err(|e| e.to_string())?;
    writer.flush().map_err(|e| e.to_string())
}

/// What `Stats::read(Stats::write(recs))` is expected to return given the two recorded defects:
/// `None` = the read is expected to fail (a non-finite number was written as `null`); otherwise the
/// records with every lossy float replaced by what serde_json parses its spelling to.
fn expected_readback(recs: &[Record]) -> Option<Vec<Record>> {
    if recs.iter().any(has_nonfinite) {
        return None;
    }
    Some(recs.iter().map(normalise_floats).collect())
}

enum Outcome {
    Exact,
    KnownNonfinite,
    KnownLossyFloat,
    Bad(&'static str, String),
}

fn judge(recs: &[Record], back: Result<Result<Vec<Record>, String>, String>) -> Outcome {
    match back {
        Ok(Ok(got)) => {
            if got == recs {
                Outcome::Exact
            } else if expected_readback(recs).is_some_and(|e| e == got) {
                Outcome::KnownLossyFloat
            } else {
                Outcome::Bad("readback-mismatch", format!("read(write(rs)) != rs: {}", first_diff(recs, &got)))
            }
        }
        Ok(Err(e)) => {
            if recs.iter().any(has_nonfinite) {
                Outcome::KnownNonfinite
            } else {
                Outcome::Bad("read-error", format!("Stats::read rejects the log Stats::write produced: {}", e))
            }
        }
        Err(_) => Outcome::Bad("panic", "Stats::read panicked".into()),
    }
}

/// The property on real records: write (once in memory; in `cuts.len()+1` append sessions to a
/// file), read back, compare records and order.
fn eval_roundtrip(sess: &mut Session, w: &mut World, recs: &[Record], cuts: &[usize], origin: &str, input: Value) -> Option<String> {
    sess.o();
    sess.count(&format!("log:{}", origin));
    sess.count(&format!("log-sessions:{}", cuts.len() + 1));
    sess.add("records", recs.len() as u64);
    // assumption monitors, per record
    for r in recs {
        match serde_json::to_string(r) {
            Ok(line) => {
                sess.monitor("record-line-has-no-linebreak", !line.bytes().any(|b| b == b'\n' || b == b'\r'));
                sess.monitor("record-line-starts-and-ends-with-braces", line.starts_with('{') && line.ends_with('}'));
                if has_nonfinite(r) {
                    sess.count("nonfinite-record");
                } else {
                    if has_lossy_float(r) {
                        sess.count("lossy-float-record");
                    }
                    // serde's derive round-trips the record (up to the recorded float defect)
                    let back = serde_json::from_str::<Record>(&line);
                    let want = normalise_floats(r);
                    sess.monitor("record-serde-roundtrip", matches!(&back, Ok(b) if *b == want));
                }
            }
            Err(_) => sess.monitor("record-serialises", false),
        }
        if let RecordKind::Lint { context, .. } = &r.kind {
            if context.iter().any(|t| t.content.chars().any(|c| c == '\n' || c == '\r' || c == '"' || (c as u32) < 0x20 || (c as u32) > 0xFFFF)) {
                sess.nontrivial(&format!("{:?}", r));
                sess.count("record-with-hostile-content");
            }
        }
    }
    // (1) in memory: one write, one read
    let bytes = match guarded(|| write_mem(recs)) {
        Ok(Ok(b)) => b,
        Ok(Err(e)) => {
            sess.fail("write-error", format!("Stats::write failed: {}", e), input, None);
            return None;
        }
        Err(_) => {
            sess.fail("panic", "Stats::write panicked".into(), input, None);
            return None;
        }
    };
    let back = guarded(|| Stats::read(&mut Cursor::new(&bytes)).map(|s| s.records).map_err(|e| e.to_string()));
    let mem_outcome = judge(recs, back);
    // (2) append sessions to one file, opened as save_stats opens it
    w.file_no += 1;
    let path = w.dir.join(format!("stats-{}.txt", w.file_no));
    let _ = std::fs::remove_file(&path);
    let mut bounds = vec![0];
    bounds.extend_from_slice(cuts);
    bounds.push(recs.len());
    let mut werr = None;
    for i in 0..bounds.len() - 1 {
        if let Err(e) = append_session(&path, &recs[bounds[i]..bounds[i + 1]]) {
            werr = Some(e);
        }
    }
    let file_outcome = if let Some(e) = werr {
        Outcome::Bad("write-error", format!("append session failed: {}", e))
    } else {
        let mut fbytes = vec![];
        let _ = std::fs::File::open(&path).and_then(|mut f| f.read_to_end(&mut fbytes));
        if fbytes != bytes {
            // append composes: the file is byte for byte the single write
            Outcome::Bad("append-not-concatenation", "the file written in several append sessions differs from one write of all records".into())
        } else {
            let back = guarded(|| {
                std::fs::File::open(&path).map_err(|e| e.to_string()).and_then(|mut f| Stats::read(&mut f).map(|s| s.records).map_err(|e| e.to_string()))
            });
            judge(recs, back)
        }
    };
    let _ = std::fs::remove_file(&path);
    let mut reported = false;
    for (what, o) in [("in memory", mem_outcome), ("append sessions", file_outcome)] {
        match o {
            Outcome::Exact => {
                if recs.iter().any(has_nonfinite) {
                    sess.count("nonfinite-but-read-back"); // the recorded defect no longer reproduces
                }
            }
            Outcome::KnownNonfinite => {
                if !reported {
                    sess.fail("c19-nonfinite-number", format!("({}) a non-finite Number token was written as null; Stats::read rejects the log", what), input.clone(), None);
                    reported = true;
                    // the rest of the records must still satisfy the property
                    let rest: Vec<Record> = recs.iter().filter(|r| !has_nonfinite(r)).cloned().collect();
                    let mut input2 = input.clone();
                    input2["without_nonfinite_records"] = json!(true);
                    eval_roundtrip(sess, w, &rest, &[], "rest-of-known", input2);
                }
            }
            Outcome::KnownLossyFloat => {
                if !reported {
                    sess.fail("c19-float-not-roundtrip", format!("({}) read back equal except for Number values serde_json parses 1 ulp off: {}", what, first_diff(recs, &expected_readback(recs).unwrap_or_default())), input.clone(), None);
                    reported = true;
                }
            }
            Outcome::Bad(class, desc) => {
                sess.fail(class, format!("({}) {}", what, desc), input.clone(), None);
            }
        }
    }
    String::from_utf8(bytes).ok()
}

fn gen_case(case_seed: u64, w: &mut World, allow_nonfinite: bool) -> (Vec<Record>, Vec<usize>, Vec<String>) {
    let mut rng = Rng(case_seed);
    let mut recs = vec![];
    let mut texts = vec![];
    let target = rng.below(9);
    while recs.len() < target {
        let mut r = random_record(&mut rng, w, allow_nonfinite, &mut texts);
        recs.append(&mut r);
    }
    let mut cuts = vec![];
    for _ in 0..rng.below(3) {
        cuts.push(rng.below(recs.len() + 1));
    }
    cuts.sort();
    (recs, cuts, texts)
}

/// the witness of the recorded defect, built the way harper-wasm builds a record
fn corpus_case(i: usize, w: &World) -> (Vec<Record>, Vec<usize>, Vec<String>) {
    let texts: Vec<&str> = match i {
        0 => vec!["It costs 1e999$ today."],
        1 => vec!["She said \"hi\"\r\nand\tleft\u{0}\u{1f} 😀\u{2028}done.", "A plain one."],
        2 => vec!["Numbers: 0.30000000000000004 and 1e308 and 4.9e-324."],
        3 => vec![],
        5 => vec!["The constant is 1.7976931348623157 here."],
        _ => vec!["First session.", "Second\nsession.", "Third \\n session."],
    };
    let mut recs = vec![];
    for (j, t) in texts.iter().enumerate() {
        let doc = Document::new_plain_english(t, &*w.dict);
        let len = doc.get_full_content().len();
        let lint = Lint { span: Span::new(0, len), lint_kind: KINDS[(i + j) % 10], ..Default::default() };
        recs.push(mk_record(RecordKind::from_lint(&lint, &doc), 1_700_000_000 + j as i64, (i * 10 + j) as u128));
    }
    if i == 4 {
        recs.insert(1, mk_record(RecordKind::LintConfigUpdate(w.cfgs[3].clone()), 5, 99));
    }
    let cuts = if i == 4 { vec![1, 3] } else { vec![] };
    (recs, cuts, texts.iter().map(|s| s.to_string()).collect())
}

fn wasm_roundtrip(sess: &mut Session, rng: &mut Rng, n_texts: usize) {
    use harper_wasm::{Dialect as WDialect, Language, Linter as WLinter};
    let mut linter = WLinter::new(WDialect::American);
    let sents = crate::corpus::sentences();
    let mut applied = 0;
    for _ in 0..n_texts {
        let mut text = sents[rng.below(sents.len())].clone();
        if rng.chance(1, 2) {
            text = format!("\"{}\"\r\n\t{} 😀\u{1}", text, sents[rng.below(sents.len())]);
        }
        let lints = match guarded(|| linter.lint(text.clone(), Language::Plain)) {
            Ok(l) => l,
            Err(_) => continue,
        };
        for l in lints.iter().take(2) {
            if let Some(s) = l.suggestions().first() {
                if guarded(|| linter.apply_suggestion(text.clone(), l, s)).is_ok() {
                    applied += 1;
                }
            }
        }
    }
    sess.o();
    sess.add("wasm-applied-suggestions", applied);
    let file = linter.generate_stats_file();
    let n_lines = file.lines().count() as u64;
    let input = json!({"stream": "wasm", "file": file});
    if n_lines != applied {
        sess.fail("wasm-export-count", format!("{} suggestions applied, {} lines exported", applied, n_lines), input.clone(), None);
    }
    let mut fresh = WLinter::new(WDialect::American);
    match guarded(|| fresh.import_stats_file(file.clone())) {
        Ok(Ok(())) => {
            // import twice = append: the export is the concatenation
            let once = fresh.generate_stats_file();
            let _ = fresh.import_stats_file(file.clone());
            let twice = fresh.generate_stats_file();
            if once != file || twice != format!("{}{}", file, file) {
                sess.fail("wasm-import-export", "export(import(file)) != file".into(), input, None);
            }
        }
        Ok(Err(e)) => sess.fail("wasm-import-error", format!("import_stats_file rejects generate_stats_file's output: {}", e), input, None),
        Err(_) => sess.fail("panic", "import_stats_file panicked".into(), input, None),
    }
}

fn replay(ctx: &Ctx, sess: &mut Session, w: &mut World, skel: &(String, String), v: &Value) {
    let stream = v["stream"].as_str().unwrap_or("");
    let text_of = |v: &Value| -> String {
        v["cps"].as_array().map(|a| a.iter().filter_map(|x| x.as_u64()).filter_map(|x| char::from_u32(x as u32)).collect()).unwrap_or_default()
    };
    match stream {
        "esc" => eval_esc(sess, &text_of(v), "replay"),
        "lines" => eval_lines(sess, &text_of(v), "replay"),
        "corpus" => {
            let (recs, cuts, _) = corpus_case(v["index"].as_u64().unwrap_or(0) as usize, w);
            eval_roundtrip(sess, w, &recs, &cuts, "replay", v.clone());
            let cfgs = w.cfgs.clone();
            eval_sum(sess, &recs, &cfgs, "replay", v.clone());
        }
        "random" | "sum" => {
            let seed = v["case_seed"].as_u64().unwrap_or(ctx.seed);
            let (recs, cuts, _) = gen_case(seed, w, v["allow_nonfinite"].as_bool().unwrap_or(true));
            eval_roundtrip(sess, w, &recs, &cuts, "replay", v.clone());
            let cfgs = w.cfgs.clone();
            eval_sum(sess, &recs, &cfgs, "replay", v.clone());
        }
        "wasm" => {
            let mut rng = Rng::new(ctx.seed);
            wasm_roundtrip(sess, &mut rng, 30);
        }
        "long" => {
            let seed = v["case_seed"].as_u64().unwrap_or(ctx.seed);
            let (recs, cuts, _) = w25_gen_long_case(seed, w);
            eval_roundtrip(sess, w, &recs, &cuts, "replay", v.clone());
            let cfgs = w.cfgs.clone();
            eval_sum(sess, &recs, &cfgs, "replay", v.clone());
        }
        "edge-docs" => {
            let (recs, cuts, _) = w25_edge_doc_case(w);
            eval_roundtrip(sess, w, &recs, &cuts, "replay", v.clone());
            let cfgs = w.cfgs.clone();
            eval_sum(sess, &recs, &cfgs, "replay", v.clone());
        }
        "wasm-ll" => {
            let mut rng = Rng::new(ctx.seed);
            for _ in 0..4 {
                w25_wasm_long_lived(sess, &mut rng, 24);
            }
        }
        "cli" => {
            let mut rng = Rng::new(ctx.seed);
            w25_cli_summaries(sess, ctx, w, &mut rng, 9);
        }
        _ => {
            let ss = vec![text_of(v)];
            if let Some(log) = eval_wlog(sess, &ss, skel, "replay") {
                eval_rlog(sess, &log, skel, "replay");
            }
        }
    }
}

/// The record path of the SERVER: `workspace/executeCommand HarperRecordLint [<RecordKind as JSON
/// text>]` through the real `Backend`, `shutdown` (→ `save_stats` appends to the statistics file of
/// the configuration), two sessions on one file; `Stats::read` of that file must return exactly the
/// kinds that were sent, in order. One record for every `LintKind` the real rules produce.
fn server_sessions(sess: &mut Session, ctx: &Ctx, only: Option<Vec<String>>) {
    use crate::lsclient::*;
    let (_, _, stats_path) = set_home(&ctx.out.join("c19-home"));
    let _ = std::fs::remove_file(&stats_path);
    let cfg = json!({"harper-ls": {}});
    // kinds: from real lints until every lint kind the rules produce has been seen, plus a config update
    let kinds: Vec<String> = match only {
        Some(k) => k,
        None => {
            let dict = FstDictionary::curated();
            let mut group = LintGroup::new_curated(dict.clone(), Dialect::American);
            group.set_all_rules_to(Some(true));
            let mut seen = std::collections::BTreeSet::new();
            let mut out = vec![];
            let extra = ["Hello , world.".to_string(), "This is an test of teh the the thing , you know ; it costs 5$ and i like it alot.".to_string()];
            for t in extra.iter().chain(crate::corpus::sentences().iter()) {
                let doc = Document::new_plain_english(t, &*dict);
                let Ok(lints) = guarded(|| group.lint(&doc)) else { continue };
                for l in lints {
                    if seen.insert(format!("{:?}", l.lint_kind)) {
                        if let Ok(k) = guarded(|| RecordKind::from_lint(&l, &doc)) {
                            out.push(serde_json::to_string(&k).unwrap());
                        }
                    }
                }
                if seen.len() >= 10 {
                    break;
                }
            }
            sess.add("server:lint-kinds-recorded", seen.len() as u64);
            out.push(serde_json::to_string(&RecordKind::LintConfigUpdate(harper_core::linting::LintGroupConfig::new_curated())).unwrap());
            out
        }
    };
    let half = kinds.len() / 2;
    let r: Result<(), LsError> = (|| {
        for part in [&kinds[..half], &kinds[half..]] {
            let mut ls = LsSession::start()?;
            ls.initialize(&cfg)?;
            for k in part {
                ls.request_sync("workspace/executeCommand", json!({"command": "HarperRecordLint", "arguments": [k]}), &cfg)?;
            }
            ls.shutdown(&cfg)?;
        }
        Ok(())
    })();
    sess.monitor("the in-process language server completed the C19 sessions", r.is_ok());
    if r.is_err() {
        return;
    }
    sess.o();
    let input = json!({"kind": "server", "record_kinds": kinds});
    let back = guarded(|| std::fs::File::open(&stats_path).map_err(|e| e.to_string()).and_then(|f| Stats::read(&mut std::io::BufReader::new(f)).map_err(|e| e.to_string())));
    match back {
        Ok(Ok(st)) => {
            let got: Vec<Value> = st.records.iter().map(|r| serde_json::to_value(&r.kind).unwrap()).collect();
            let want: Vec<Value> = kinds.iter().map(|k| serde_json::from_str(k).unwrap_or(Value::Null)).collect();
            if got != want {
                let first = got.iter().zip(want.iter()).position(|(a, b)| a != b).unwrap_or(got.len().min(want.len()));
                sess.fail("server-records-differ", format!("{} records were sent to HarperRecordLint in two sessions, the statistics file reads back {}; first difference at #{}", want.len(), got.len(), first), input, None);
            } else {
                sess.nontrivial("server-sessions");
                sess.count("origin:server-sessions");
            }
        }
        Ok(Err(e)) => sess.fail("read-error", format!("the statistics file written by the server's save_stats cannot be read back: {}", e), input, None),
        Err(_) => sess.fail("panic", "Stats::read panicked on the server's statistics file".into(), input, None),
    }
}

pub fn run(ctx: &Ctx) {
    // (w25) the server streams below point HOME at a temp dir; cargo (CLI stream) needs the real one
    let _ = W25_ORIG_HOME.set(std::env::var("HOME").ok());
    let mut sess = Session::new(ctx);
    let mut rng = Rng::new(ctx.seed);
    let thorough = ctx.tier == Tier::Thorough;
    if let Some(v) = replay_input(ctx) {
        if v["kind"] == "server" {
            let k: Vec<String> = serde_json::from_value(v["record_kinds"].clone()).unwrap_or_default();
            server_sessions(&mut sess, ctx, Some(k));
            sess.nontrivial("replay-a");
            sess.nontrivial("replay-b");
            sess.finish("replay of one recorded server session", false, json!({}));
            return;
        }
        if v["kind"] == "server-ca" {
            w25_server_codeaction_sessions(&mut sess, ctx, &mut Rng::new(ctx.seed ^ 0x19ca));
            sess.nontrivial("replay-a");
            sess.nontrivial("replay-b");
            sess.finish("replay of the code-action server sessions", false, json!({}));
            return;
        }
    } else {
        // first, while this is the only thread (it sets HOME)
        server_sessions(&mut sess, ctx, None);
        let t0 = std::time::Instant::now();
        w25_server_codeaction_sessions(&mut sess, ctx, &mut Rng::new(ctx.seed ^ 0x19ca));
        sess.add("w25-ms:server-codeaction-sessions", t0.elapsed().as_millis() as u64);
    }
    let dir = std::env::temp_dir().join(format!("hv-c19-{}-{}", std::process::id(), ctx.seed));
    std::fs::create_dir_all(&dir).expect("temp dir");
    let dict = FstDictionary::curated();
    let mut group = LintGroup::new_curated(dict.clone(), Dialect::American);
    group.config.fill_with_curated();
    // the config table is generated from a fixed seed so that replays see the same table
    let cfgs = make_configs(&mut Rng::new(19));
    let word_kinds: Vec<TokenKind> = Document::new_plain_english("The quick brown foxes were jumping over 3 lazy dogs' backs, weren't they?", &*dict)
        .get_tokens()
        .iter()
        .map(|t| t.kind.clone())
        .filter(|k| matches!(k, TokenKind::Word(Some(_))))
        .collect();
    let mut w = World { dict, group, cfgs, word_kinds, dir: dir.clone(), file_no: 0 };
    let skel = skeleton();

    if let Some(v) = replay_input(ctx) {
        replay(ctx, &mut sess, &mut w, &skel, &v);
        sess.nontrivial("replay-a");
        sess.nontrivial("replay-b");
        let _ = std::fs::remove_dir_all(&dir);
        sess.finish("replay of one recorded input", false, json!({}));
        return;
    }

    // ---- 1. corpus ------------------------------------------------------------------------
    for s in ["", "a", "\n", "\r\n", "\"\\", "\u{0}\u{1f}\u{7f}", "é\u{2028}😀", "\u{8}\u{c}\t/", "\u{10ffff}\u{d7ff}"] {
        eval_esc(&mut sess, s, "corpus");
        eval_lines(&mut sess, s, "corpus");
    }
    for s in ["\"\\u004A\\ud83d\\ude00\\/\"", "\"\\ud83d\"", "\"\\ude00\"", "\"\\ud83d\\u0041\"", "\"a", "a\"", "\"\n\"", "\"\\x\"", "\"\\u12\"", "\"\\uD83D\\uDE00\"", "\"\u{7f}\"", " \"a\" ", "\t\"a\"\r\n", "\"a\" x", "\"\"", "\"", ""] {
        eval_unq(&mut sess, s, "corpus");
    }
    for s in ["a\r", "a\r\n", "\r\r\n", "a\n\nb", "\n\n", "a\nb\r", "\r", "\u{2028}\n\u{85}"] {
        eval_lines(&mut sess, s, "corpus");
    }
    for i in 0..6 {
        let (recs, cuts, texts) = corpus_case(i, &w);
        let input = json!({"stream": "corpus", "index": i, "texts": texts});
        let log = eval_roundtrip(&mut sess, &mut w, &recs, &cuts, "corpus", input.clone());
        let cfgs = w.cfgs.clone();
        eval_sum(&mut sess, &recs, &cfgs, "corpus", input);
        if let Some(log) = log {
            eval_lines(&mut sess, &log, "real-log");
        }
    }
    {
        let ss: Vec<String> = vec!["".into(), "a\nb".into(), "\"\r".into(), "😀\u{1}".into()];
        if let Some(log) = eval_wlog(&mut sess, &ss, &skel, "corpus") {
            eval_rlog(&mut sess, &log, &skel, "corpus");
            eval_rlog(&mut sess, &log.replace('\n', "\r\n"), &skel, "corpus");
            eval_rlog(&mut sess, &log.replace('\n', "\n\n"), &skel, "corpus");
            eval_rlog(&mut sess, log.trim_end(), &skel, "corpus");
        }
        eval_wlog(&mut sess, &[], &skel, "corpus");
        eval_rlog(&mut sess, "", &skel, "corpus");
        eval_rlog(&mut sess, "\n", &skel, "corpus");
    }

    // ---- 2. exhaustive small scope ----------------------------------------------------------
    let alpha: [char; 12] = ['a', '"', '\\', '\n', '\r', '\t', '\u{0}', '\u{1f}', '\u{7f}', 'é', '\u{2028}', '😀'];
    for len in 0..=3usize {
        for code in 0..alpha.len().pow(len as u32) {
            let mut c = code;
            let mut s = String::new();
            for _ in 0..len {
                s.push(alpha[c % alpha.len()]);
                c /= alpha.len();
            }
            eval_esc(&mut sess, &s, "exhaustive");
        }
    }
    // every control character, and every single char next to the table's boundaries
    for n in 0u32..0x30 {
        eval_esc(&mut sess, &char::from_u32(n).unwrap().to_string(), "all-controls");
    }
    let lalpha = ['a', '\n', '\r'];
    let lmax = if thorough { 7 } else { 5 };
    for len in 0..=lmax {
        for code in 0..3usize.pow(len as u32) {
            let mut c = code;
            let mut s = String::new();
            for _ in 0..len {
                s.push(lalpha[c % 3]);
                c /= 3;
            }
            eval_lines(&mut sess, &s, "exhaustive");
        }
    }
    // JSON string literals: all bodies of length ≤ 3 (thorough: 4) over the parser's alphabet
    let ualpha = ['"', '\\', 'u', 'n', '/', 'a', '\n', '\u{1}', 'é', ' '];
    let umax = if thorough { 4 } else { 3 };
    for len in 0..=umax {
        for code in 0..ualpha.len().pow(len as u32) {
            let mut c = code;
            let mut s = String::from("\"");
            for _ in 0..len {
                s.push(ualpha[c % ualpha.len()]);
                c /= ualpha.len();
            }
            s.push('"');
            eval_unq(&mut sess, &s, "exhaustive");
        }
    }
    // all \uXXXX escapes over a hex alphabet that reaches both cases and the surrogate ranges
    let hx = ['0', '1', 'd', 'D', '8', 'b', 'c', 'F', 'g'];
    for a in hx {
        for b in hx {
            for c in ['0', 'f', 'G'] {
                eval_unq(&mut sess, &format!("\"\\u{}{}{}0\"", a, b, c), "hex-escapes");
                eval_unq(&mut sess, &format!("\"\\ud83d\\u{}{}{}0\"", a, b, c), "hex-escapes");
            }
        }
    }

    // ---- 3. structured random ------------------------------------------------------------------
    let n_esc = if thorough { 120000 } else { 16000 };
    for i in 0..n_esc {
        let max = if i % 10 == 0 { 400 } else { 40 };
        let s = random_string(&mut rng, max);
        eval_esc(&mut sess, &s, "random");
        if i % 4 == 0 {
            // what serde_json wrote, and a mutation of it, through the parser
            let lit = serde_json::to_string(&s).unwrap();
            eval_unq(&mut sess, &lit, "roundtrip");
            let mut cs: Vec<char> = lit.chars().collect();
            let at = rng.below(cs.len() + 1).clamp(1, cs.len() - 1);
            match rng.below(3) {
                0 => cs.insert(at, *rng.pick(&['\\', '"', 'u', '\n', '\u{2}'])),
                1 => {
                    cs.remove(at.min(cs.len() - 2).max(1).min(cs.len() - 1));
                }
                _ => {
                    let esc: Vec<char> = format!("\\u{:04x}", rng.below(0x10000)).chars().collect();
                    cs.splice(at..at, esc);
                }
            }
            if cs.first() == Some(&'"') && cs.last() == Some(&'"') && cs.len() >= 2 {
                let m: String = cs.into_iter().collect();
                eval_unq(&mut sess, &m, "mutated");
            }
        }
    }
    let n_lines = if thorough { 80000 } else { 10000 };
    let lal = ['a', 'b', '\n', '\n', '\r', '\r', ' ', '\u{2028}', '\u{85}', '\u{b}', '\u{c}', '😀', '"', '}'];
    for _ in 0..n_lines {
        let n = rng.below(60);
        let s: String = (0..n).map(|_| *rng.pick(&lal)).collect();
        eval_lines(&mut sess, &s, "random");
    }
    // skeleton records through the real Stats::write / Stats::read, and mutated logs
    let n_wlog = if thorough { 20000 } else { 3000 };
    for _ in 0..n_wlog {
        let n = rng.below(5);
        let ss: Vec<String> = (0..n).map(|_| random_string(&mut rng, 10)).collect();
        if let Some(log) = eval_wlog(&mut sess, &ss, &skel, "random") {
            eval_rlog(&mut sess, &log, &skel, "written");
            let (m, how) = mutate_log(&mut rng, &log);
            eval_rlog(&mut sess, &m, &skel, how);
        }
    }
    // real records: round trip, append sessions, summary
    let n_log = if thorough { 60000 } else { 8000 };
    for i in 0..n_log {
        let case_seed = rng.next();
        // the recorded defect's input class is only generated in a small share of the cases,
        // so that most cases test the rest of the property
        let allow_nonfinite = i % 25 == 0;
        let (recs, cuts, texts) = gen_case(case_seed, &mut w, allow_nonfinite);
        let input = json!({"stream": "random", "case_seed": case_seed, "allow_nonfinite": allow_nonfinite, "texts": texts});
        if i < 2 {
            sess.sample(json!({"texts": texts, "records": recs.len(), "sessions": cuts.len() + 1}));
        }
        let log = eval_roundtrip(&mut sess, &mut w, &recs, &cuts, "random", input.clone());
        let cfgs = w.cfgs.clone();
        eval_sum(&mut sess, &recs, &cfgs, "random", input);
        if let Some(log) = log {
            if i % 5 == 0 && log.len() < 20000 {
                eval_lines(&mut sess, &log, "real-log");
            }
        }
    }
    // export / import through harper-wasm's Linter
    for _ in 0..(if thorough { 6 } else { 2 }) {
        wasm_roundtrip(&mut sess, &mut rng, if thorough { 60 } else { 25 });
    }
    // w25: lines longer than Stats::read's 8 KiB buffer, many records / many sessions, degenerate documents
    let w25_t0 = std::time::Instant::now();
    {
        let (recs, cuts, texts) = w25_edge_doc_case(&w);
        let input = json!({"stream": "edge-docs", "texts": texts});
        eval_roundtrip(&mut sess, &mut w, &recs, &cuts, "edge-docs", input.clone());
        let cfgs = w.cfgs.clone();
        eval_sum(&mut sess, &recs, &cfgs, "edge-docs", input);
    }
    for _ in 0..(if thorough { 400 } else { 40 }) {
        let case_seed = rng.next();
        let (recs, cuts, texts) = w25_gen_long_case(case_seed, &mut w);
        let input = json!({"stream": "long", "case_seed": case_seed, "texts": texts});
        let longest = recs.iter().filter_map(|r| serde_json::to_string(r).ok()).map(|l| l.len()).max().unwrap_or(0);
        sess.count(if longest > 8192 { "long:line>8KiB" } else if longest >= 8185 { "long:line-at-8KiB-boundary" } else { "long:short-lines" });
        sess.count(&format!("long:records-{}", if recs.len() >= 60 { "60+" } else { "<60" }));
        eval_roundtrip(&mut sess, &mut w, &recs, &cuts, "long", input.clone());
        let cfgs = w.cfgs.clone();
        eval_sum(&mut sess, &recs, &cfgs, "long", input);
    }
    sess.add("w25-ms:edge-docs+long", w25_t0.elapsed().as_millis() as u64);
    let w25_t0 = std::time::Instant::now();
    // w25: a long-lived harper-wasm Linter (every dialect, Markdown and plain, import in the middle)
    for _ in 0..(if thorough { 12 } else { 4 }) {
        w25_wasm_long_lived(&mut sess, &mut rng, if thorough { 40 } else { 16 });
    }
    sess.add("w25-ms:wasm-long-lived", w25_t0.elapsed().as_millis() as u64);
    let w25_t0 = std::time::Instant::now();
    // w25: the real harper-cli executable summarising logs Stats::write produced
    w25_cli_summaries(&mut sess, ctx, &mut w, &mut rng, if thorough { 32 } else { 4 });
    sess.add("w25-ms:cli-summaries(incl. cargo up-to-date check)", w25_t0.elapsed().as_millis() as u64);
    let _ = std::fs::remove_dir_all(&dir);
    sess.finish(
        "w25: + records from empty / whitespace-only / line-break-only documents; lines longer than the 8 KiB read buffer and at its boundary, 60–300 records in up to 6 append sessions; a long-lived harper_wasm::Linter of every dialect (apply, import in the middle, apply; Markdown and plain); the editor's record path (codeAction → HarperRecordLint with the embedded arguments, two documents open at once, default and explicit configuration incl. statsPath / null / unknown keys, two sessions); the real harper-cli summarize-lint-record on written logs. corpus (incl. the recorded `1e999` witness); exhaustively: escaping of all strings of ≤3 chars over {a \" \\ \\n \\r \\t NUL 0x1F DEL é U+2028 😀} and of every char < 0x30, `lines` of all strings of ≤5 (thorough ≤7) chars over {a \\n \\r}, parsing of all JSON string literals with bodies of ≤3 (thorough ≤4) chars over {\" \\ u n / a \\n 0x01 é space} and a grid of \\uXXXX escapes (both hex cases, surrogates); random: strings over all of Unicode (controls, line separators, astral), serde_json's own output mutated, logs of skeleton records through the real Stats::write/read incl. CRLF/blank-line/truncation/join mutations, lists of real Records (contexts via RecordKind::from_lint on documents with hostile characters and number spellings, directly built tokens of every kind, config updates with hostile keys; extreme timestamps) written in 1–3 append sessions to a file opened like save_stats and read back, their summaries, harper-wasm export/import; the server's record path (HarperRecordLint for a record of every lint kind the rules produce + a configuration update, two sessions, shutdown → save_stats, Stats::read of the file). Non-trivial = escaping changed the string / more than one line or a CR / a record with hostile content / a summary with ≥2 kinds or a misspelt word.",
        true,
        json!({"exhaustive_scope": format!("esc: len ≤3 over 12 chars; lines: len ≤{} over 3 chars; unq: body len ≤{} over 10 chars", lmax, umax)}),
    );
}

// ---------------------------------------------------------------------------------------------
// w25 additions: missing call sites, input families and configurations (oracle-only streams)
// ---------------------------------------------------------------------------------------------

static W25_ORIG_HOME: std::sync::OnceLock<Option<String>> = std::sync::OnceLock::new();

/// per-kind counts of the lint records of a list, by `LintKind`'s `Display` text
fn w25_kind_counts(recs: &[Record]) -> std::collections::BTreeMap<String, u32> {
    let mut m = std::collections::BTreeMap::new();
    for r in recs {
        if let RecordKind::Lint { kind, .. } = &r.kind {
            *m.entry(kind.to_string()).or_insert(0) += 1;
        }
    }
    m
}

/// Family `long`: records whose serialised line is longer than the 8 KiB buffer `Stats::read` puts
/// around its reader (multi-byte characters and escapes straddle the refills), and lists of many
/// records written in up to 6 append sessions (several of them empty).
fn w25_gen_long_case(case_seed: u64, w: &mut World) -> (Vec<Record>, Vec<usize>, Vec<String>) {
    let mut rng = Rng(case_seed);
    let mut recs = vec![];
    let mut texts = vec![];
    match rng.below(4) {
        // one very long token among short ones
        0 => {
            let n = rng.range(2500, 9000);
            let content: String = (0..n).map(|_| random_char(&mut rng)).collect();
            let mut context = vec![FatStringToken { content: random_string(&mut rng, 4), kind: TokenKind::Unlintable }];
            context.push(FatStringToken { content, kind: random_token_kind(&mut rng, w) });
            context.push(FatStringToken { content: "\n".into(), kind: TokenKind::Newline(1) });
            recs.push(mk_record(RecordKind::Lint { kind: *rng.pick(&KINDS), context }, 1, 1));
            recs.push(mk_record(RecordKind::LintConfigUpdate(w.cfgs[rng.below(w.cfgs.len())].clone()), 2, 2));
        }
        // a line of exactly 8190..8194 bytes before the line feed, made of 1-, 2-, 3- or 4-byte characters
        1 => {
            let c = *rng.pick(&['a', 'é', '\u{2028}', '😀', '"', '\n']);
            let probe = |k: usize| -> usize {
                let s: String = std::iter::repeat(c).take(k).collect();
                serde_json::to_string(&skeleton_record(&s)).map(|l| l.len()).unwrap_or(0)
            };
            let target = 8188 + rng.below(8);
            let mut k = 1;
            while probe(k) < target && k < 9000 {
                k += 1;
            }
            for d in 0..3usize {
                let s: String = std::iter::repeat(c).take(k.saturating_sub(1) + d).collect();
                recs.push(skeleton_record(&s));
            }
        }
        // a long real document, one lint over all of it (context = every token), Markdown or plain
        2 => {
            let sents = crate::corpus::sentences();
            let mut text = String::new();
            for _ in 0..rng.range(40, 120) {
                text.push_str(&sents[rng.below(sents.len())]);
                text.push_str(*rng.pick(&[" ", "\n", "\r\n", "\n\n", " \"q\" ", "\t", " 😀 ", "\u{2028}"]));
            }
            texts.push(trunc(&text, 200));
            let dict = w.dict.clone();
            let markdown = rng.chance(1, 2);
            if let Ok(doc) = guarded(|| if markdown { Document::new_markdown_default(&text, &*dict) } else { Document::new_plain_english(&text, &*dict) }) {
                let len = doc.get_full_content().len();
                let lint = Lint { span: Span::new(0, len), lint_kind: *rng.pick(&KINDS), ..Default::default() };
                if let Ok(kind) = guarded(|| RecordKind::from_lint(&lint, &doc)) {
                    recs.push(mk_record(kind, 3, 3));
                }
            }
        }
        // many small records
        _ => {
            let n = rng.range(60, 300);
            for i in 0..n {
                let kind = if i % 17 == 5 {
                    RecordKind::LintConfigUpdate(w.cfgs[rng.below(w.cfgs.len())].clone())
                } else {
                    RecordKind::Lint {
                        kind: *rng.pick(&KINDS),
                        context: vec![FatStringToken { content: random_string(&mut rng, 6), kind: if i % 3 == 0 { TokenKind::Word(None) } else { TokenKind::Unlintable } }],
                    }
                };
                recs.push(mk_record(kind, i as i64, i as u128));
            }
        }
    }
    let mut cuts = vec![];
    for _ in 0..rng.below(6) {
        cuts.push(rng.below(recs.len() + 1));
    }
    cuts.sort();
    (recs, cuts, texts)
}

/// Family `edge-docs`: records built by `RecordKind::from_lint` on empty, whitespace-only and
/// line-break-only documents (plain and Markdown), with empty and whole-document spans.
fn w25_edge_doc_case(w: &World) -> (Vec<Record>, Vec<usize>, Vec<String>) {
    let texts = ["", " ", "\n", "\r\n", "\r", "\t \t", "\u{feff}", "\u{a0}\u{2028}", "\n\n\n", "\u{3000}ａｂｃ\u{301}", "e\u{301}\u{200d}👩\u{200d}👩\u{200d}👧"];
    let mut recs = vec![];
    for (i, t) in texts.iter().enumerate() {
        for markdown in [false, true] {
            let Ok(doc) = guarded(|| if markdown { Document::new_markdown_default(t, &*w.dict) } else { Document::new_plain_english(t, &*w.dict) }) else { continue };
            let len = doc.get_full_content().len();
            for span in [Span::new(0, 0), Span::new(0, len), Span::new(len, len)] {
                let lint = Lint { span, lint_kind: KINDS[i % 10], ..Default::default() };
                if let Ok(kind) = guarded(|| RecordKind::from_lint(&lint, &doc)) {
                    recs.push(mk_record(kind, i as i64, (i * 2 + markdown as usize) as u128));
                }
            }
        }
    }
    let n = recs.len();
    (recs, vec![0, n / 3, n / 3, n], texts.iter().map(|s| s.to_string()).collect())
}

/// `harper_wasm::Linter` as a LONG-LIVED instance, every dialect, Markdown and plain: suggestions
/// applied, a foreign log imported, more suggestions applied — the export is (own records so far) ++
/// (imported log) ++ (own later records), each applied suggestion is one record of the lint's kind,
/// and summarising the export counts each applied lint exactly once.
fn w25_wasm_long_lived(sess: &mut Session, rng: &mut Rng, n_texts: usize) {
    use harper_wasm::{Dialect as WDialect, Language, Linter as WLinter};
    let dialects = [WDialect::American, WDialect::British, WDialect::Australian, WDialect::Canadian];
    let di = rng.below(4);
    let mut linter = WLinter::new(dialects[di]);
    sess.count(&format!("wasm-ll:dialect-{}", di));
    let sents = crate::corpus::sentences();
    // a foreign log: real records written by Stats::write
    let dict = FstDictionary::curated();
    let mut foreign = vec![];
    for (j, t) in ["A \"quoted\"\r\nline.", "Tab\there 😀."].iter().enumerate() {
        let doc = Document::new_plain_english(t, &*dict);
        let len = doc.get_full_content().len();
        let lint = Lint { span: Span::new(0, len), lint_kind: KINDS[(j * 3 + di) % 10], ..Default::default() };
        foreign.push(mk_record(RecordKind::from_lint(&lint, &doc), 10 + j as i64, 500 + j as u128));
    }
    let Ok(foreign_bytes) = write_mem(&foreign) else { return };
    let foreign_file = String::from_utf8(foreign_bytes).unwrap_or_default();
    let mut applied_kinds: Vec<String> = vec![]; // LintKind's key string of each applied lint, in order
    let mut exports: Vec<String> = vec![linter.generate_stats_file()];
    let mut import_at = None;
    for i in 0..n_texts {
        if i == n_texts / 2 {
            let before = linter.generate_stats_file();
            match guarded(|| linter.import_stats_file(foreign_file.clone())) {
                Ok(Ok(())) => {}
                _ => {
                    sess.o();
                    sess.fail("wasm-import-error", "import_stats_file rejects a log Stats::write produced".into(), json!({"stream": "wasm-ll", "file": foreign_file}), None);
                    return;
                }
            }
            import_at = Some(before);
        }
        let markdown = rng.chance(1, 2);
        let mut text = sents[rng.below(sents.len())].clone();
        match rng.below(4) {
            0 => text = format!("\"{}\"\r\n\t{} 😀\u{1}", text, sents[rng.below(sents.len())]),
            1 => text = format!("# Teh {}\n\n* an item , here\r\n* {}\n", text, text),
            2 => text = format!("{} {} {}", text, text, text), // the same construct several times
            _ => {}
        }
        sess.count(if markdown { "wasm-ll:markdown" } else { "wasm-ll:plain" });
        let lang = if markdown { Language::Markdown } else { Language::Plain };
        let Ok(lints) = guarded(|| linter.lint(text.clone(), lang)) else { continue };
        for l in lints.iter().take(3) {
            if let Some(s) = l.suggestions().first() {
                if guarded(|| linter.apply_suggestion(text.clone(), l, s)).is_ok() {
                    applied_kinds.push(l.lint_kind());
                    exports.push(linter.generate_stats_file());
                }
            }
        }
    }
    sess.o();
    sess.add("wasm-ll:applied", applied_kinds.len() as u64);
    let last = exports.last().cloned().unwrap_or_default();
    let input = json!({"stream": "wasm-ll", "file": trunc(&last, 4000)});
    // every export extends the previous one, except across the import, where the imported log is spliced in
    let mut ok_prefix = true;
    for p in exports.windows(2) {
        let grows = p[1].len() > p[0].len() && p[1].ends_with('\n');
        let extends = p[1].starts_with(p[0].as_str());
        let across_import = import_at.as_ref().is_some_and(|b| b == &p[0]) && p[1].starts_with(&format!("{}{}", p[0], foreign_file));
        if !grows || !(extends || across_import) {
            ok_prefix = false;
        }
    }
    if !ok_prefix {
        sess.fail("wasm-export-not-append", "an export of a long-lived harper_wasm::Linter is not the previous export plus the new record(s)".into(), input.clone(), None);
    }
    if let Some(before) = &import_at {
        if !last.starts_with(&format!("{}{}", before, foreign_file)) {
            sess.fail("wasm-import-not-concatenation", "after import_stats_file the export is not (records so far) ++ (imported log) ++ (later records)".into(), input.clone(), None);
        }
    }
    match guarded(|| Stats::read(&mut Cursor::new(last.as_bytes()))) {
        Ok(Ok(st)) => {
            let own: Vec<&Record> = st.records.iter().filter(|r| !foreign.iter().any(|f| f.uuid == r.uuid)).collect();
            let own_kinds: Vec<String> = own
                .iter()
                .map(|r| match &r.kind {
                    RecordKind::Lint { kind, .. } => kind.to_string_key(),
                    _ => "config".to_string(),
                })
                .collect();
            if own_kinds != applied_kinds {
                sess.fail("wasm-applied-not-recorded-once", format!("{} suggestions applied (kinds {:?}), the export holds own records of kinds {:?}", applied_kinds.len(), applied_kinds, own_kinds), input.clone(), None);
            }
            let imported = if import_at.is_some() { foreign.len() } else { 0 };
            let s = st.summarize();
            let want = (applied_kinds.len() + imported) as u32;
            let sum: u32 = s.lint_counts.values().sum();
            if s.total_applied != want || sum != want {
                sess.fail("wasm-summary-miscount", format!("{} applied + {} imported lint records, summary total {} / counters sum {}", applied_kinds.len(), imported, s.total_applied, sum), input, None);
            } else if applied_kinds.len() > 1 {
                sess.nontrivial(&format!("wasm-ll|{}", last.len()));
            }
        }
        Ok(Err(e)) => sess.fail("wasm-export-unreadable", format!("Stats::read rejects generate_stats_file's output: {}", e), input, None),
        Err(_) => sess.fail("panic", "Stats::read panicked on generate_stats_file's output".into(), input, None),
    }
}

/// The EDITOR's record path through the server: two documents open at once (plain text and Markdown,
/// hostile characters, the same mistake several times), `textDocument/codeAction` at every published
/// diagnostic, the `HarperRecordLint` command of the first quick fix executed with exactly the
/// arguments `lint_to_code_actions` embedded, `shutdown` (→ `save_stats`); a second session with an
/// explicit configuration (statsPath / null / unknown keys). Every statistics file (located by the
/// real `Config::from_lsp_config`) must read back exactly the record kinds that were sent to it, in
/// order, session after session; its summary counts each of them once.
fn w25_server_codeaction_sessions(sess: &mut Session, ctx: &Ctx, rng: &mut Rng) {
    use crate::lsclient::*;
    let home = ctx.out.join("c19-home");
    let (_, _, default_stats) = set_home(&home);
    let _ = std::fs::remove_file(&default_stats);
    let configured = home.join("configured dir").join("stats ü.txt");
    let _ = std::fs::remove_file(&configured);
    let sents = crate::corpus::sentences();
    let pick3 = |rng: &mut Rng, sep: &str| -> String { (0..3).map(|_| sents[rng.below(sents.len())].clone()).collect::<Vec<_>>().join(sep) };
    let docs: Vec<(String, &str, String)> = vec![
        ("file:///c19-ca/a%20b/notes%20%C3%BC.txt".into(), "plaintext", format!("This is an test of \"teh\" thing.\r\nAnd an apple , see 😀 teh\tteh and teh.\r\nIt was the\r\nthe end, and it is\tis so. She said \"hello\" \"hello\" twice.\r\n{}\n", pick3(rng, "\r\n"))),
        ("file:///c19-ca/readme.md".into(), "markdown", format!("# Teh titel\n\nThere is an problm here , and `code` an apple.\n\n* an item with teh error\n* an item with teh error\n\n{}\n", pick3(rng, "\n\n"))),
        ("file:///c19-ca/third.txt".into(), "plaintext", format!("{} It costs 5$ and i like it alot.\u{2028}Teh \u{1}end.", pick3(rng, " "))),
    ];
    let cfgs = [
        json!({"harper-ls": {}}),
        json!({"harper-ls": {"statsPath": configured.to_string_lossy(), "userDictPath": "", "linters": {"SpellCheck": true, "NoSuchRule": null}, "unknownKey": 7, "codeActions": {"ForceStable": true}}}),
    ];
    // (statistics file the session's configuration resolves to, record kinds sent, in order)
    let mut sent: Vec<(PathBuf, Vec<String>)> = vec![];
    let mut hostile = 0u64;
    let r: Result<(), LsError> = (|| {
        for (si, cfg) in cfgs.iter().enumerate() {
            let path = crate::config::Config::from_lsp_config(cfg.clone()).map(|c| c.stats_path).unwrap_or(default_stats.clone());
            let mut kinds = vec![];
            let mut ls = LsSession::start()?;
            ls.initialize(cfg)?;
            let open: Vec<&(String, &str, String)> = if si == 0 { docs.iter().take(2).collect() } else { docs.iter().skip(1).collect() };
            for (uri, lang, text) in &open {
                ls.notify("textDocument/didOpen", did_open(uri, lang, text))?;
            }
            ls.quiesce(cfg)?;
            for (uri, _, _) in &open {
                let diags: Vec<Value> = ls.last_publication(uri).and_then(|d| d.as_array().cloned()).unwrap_or_default();
                for d in diags.iter().take(if si == 0 { 14 } else { 8 }) {
                    let start = d["range"]["start"].clone();
                    let params = json!({"textDocument": {"uri": uri}, "range": {"start": start, "end": start}, "context": {"diagnostics": []}});
                    let resp = ls.request_sync("textDocument/codeAction", params, cfg)?;
                    let first = resp["result"].as_array().and_then(|a| a.iter().find(|x| x["command"]["command"] == "HarperRecordLint").cloned());
                    let Some(action) = first else { continue };
                    let args = action["command"]["arguments"].clone();
                    if let Some(k) = args[0].as_str() {
                        if k.contains("\\n") || k.contains("\\r") || k.contains("\\\"") || k.contains("\\t") || k.chars().any(|c| c as u32 > 0xFFFF) {
                            hostile += 1;
                        }
                        kinds.push(k.to_string());
                    }
                    ls.request_sync("workspace/executeCommand", json!({"command": "HarperRecordLint", "arguments": args}), cfg)?;
                }
            }
            ls.shutdown(cfg)?;
            sent.push((path, kinds));
        }
        Ok(())
    })();
    sess.monitor("the in-process language server completed the C19 code-action sessions", r.is_ok());
    if r.is_err() {
        return;
    }
    sess.add("server-ca:records-sent", sent.iter().map(|s| s.1.len() as u64).sum());
    sess.add("server-ca:records-with-hostile-context", hostile);
    sess.monitor("the code-action sessions sent at least one record per session", sent.iter().all(|s| !s.1.is_empty()));
    let mut files: Vec<PathBuf> = sent.iter().map(|s| s.0.clone()).collect();
    files.sort();
    files.dedup();
    sess.count(&format!("server-ca:statistics-files-{}", files.len()));
    for f in files {
        let want_s: Vec<String> = sent.iter().filter(|s| s.0 == f).flat_map(|s| s.1.iter().cloned()).collect();
        sess.o();
        let input = json!({"kind": "server-ca", "file": f, "record_kinds": want_s});
        let back = guarded(|| std::fs::File::open(&f).map_err(|e| e.to_string()).and_then(|h| Stats::read(&mut std::io::BufReader::new(h)).map_err(|e| e.to_string())));
        match back {
            Ok(Ok(st)) => {
                let got: Vec<Value> = st.records.iter().map(|r| serde_json::to_value(&r.kind).unwrap()).collect();
                let want: Vec<Value> = want_s.iter().map(|k| serde_json::from_str(k).unwrap_or(Value::Null)).collect();
                if got != want {
                    let first = got.iter().zip(want.iter()).position(|(a, b)| a != b).unwrap_or(got.len().min(want.len()));
                    sess.fail("server-codeaction-records-differ", format!("{} HarperRecordLint commands taken from code actions were executed, {:?} reads back {} records; first difference at #{}", want.len(), f, got.len(), first), input, None);
                    continue;
                }
                let s = st.summarize();
                let sum: u32 = s.lint_counts.values().sum();
                if s.total_applied as usize != want.len() || sum as usize != want.len() {
                    sess.fail("server-codeaction-summary-miscount", format!("{} lint records sent, summary total {} / counters sum {}", want.len(), s.total_applied, sum), input, None);
                    continue;
                }
                sess.nontrivial(&format!("server-ca|{}", f.display()));
                sess.count("origin:server-codeaction-sessions");
            }
            Ok(Err(e)) => sess.fail("read-error", format!("the statistics file written by the server's save_stats cannot be read back: {}", e), input, None),
            Err(_) => sess.fail("panic", "Stats::read panicked on the server's statistics file".into(), input, None),
        }
    }
}

/// The command-line call site: the real `harper-cli summarize-lint-record <file>` (built from the
/// repository into the harness's own target directory, as C13 does) on logs written by the real
/// `Stats::write` in several append sessions. The `LintKind` section of its report must carry each
/// kind with exactly the number of lint records of that kind (each applied lint counted once).
fn w25_cli_summaries(sess: &mut Session, ctx: &Ctx, w: &mut World, rng: &mut Rng, n: usize) {
    let target = PathBuf::from(env!("CARGO_MANIFEST_DIR")).join("target").join("lsbin");
    let mut cargo = std::process::Command::new("cargo");
    if let Some(Some(h)) = W25_ORIG_HOME.get() {
        cargo.env("HOME", h).env_remove("XDG_CONFIG_HOME").env_remove("XDG_DATA_HOME");
    }
    let built = cargo
        .args(["build", "--offline", "--locked", "-p", "harper-cli", "--manifest-path", "/repo/Cargo.toml", "--target-dir"])
        .arg(&target)
        .env("CARGO_NET_OFFLINE", "true")
        .stdout(std::process::Stdio::null())
        .stderr(std::process::Stdio::null())
        .status()
        .map(|s| s.success())
        .unwrap_or(false);
    sess.count(if built { "cli:built" } else { "cli:not-built(stream skipped)" });
    if !built {
        return;
    }
    let bin = target.join("debug").join("harper-cli");
    let dir = ctx.out.join("c19-cli");
    let _ = std::fs::create_dir_all(&dir);
    // the logs first, then the executable on all of them in parallel (a debug harper-cli takes ~2 s to start)
    let mut cases: Vec<(u64, usize, Vec<Record>, PathBuf)> = vec![];
    for i in 0..n {
        let case_seed = rng.next();
        let (mut recs, cuts, _) = if i % 3 == 2 { w25_gen_long_case(case_seed, w) } else { gen_case(case_seed, w, false) };
        if i == 0 {
            recs.clear(); // the empty log
        }
        if i == 1 {
            // several records in the same second, one kind thrice
            for j in 0..3 {
                recs.push(mk_record(RecordKind::Lint { kind: LintKind::Spelling, context: vec![FatStringToken { content: "teh".into(), kind: TokenKind::Word(None) }] }, 1_700_000_000, 900 + j));
            }
        }
        // the recorded defect's input class (non-finite Number: the log cannot be read) is judged by eval_roundtrip
        recs.retain(|r| !has_nonfinite(r));
        let cuts: Vec<usize> = cuts.into_iter().map(|c| c.min(recs.len())).collect();
        let file = dir.join(format!("log {}.txt", i));
        let _ = std::fs::remove_file(&file);
        let mut bounds = vec![0];
        bounds.extend_from_slice(&cuts);
        bounds.push(recs.len());
        let mut ok = true;
        for b in bounds.windows(2) {
            ok &= append_session(&file, &recs[b[0]..b[1]]).is_ok();
        }
        if ok {
            cases.push((case_seed, i, recs, file));
        }
    }
    let outs = par_map(cases.len(), 8, |j| std::process::Command::new(&bin).arg("summarize-lint-record").arg(&cases[j].3).output().ok());
    for ((case_seed, i, recs, _), out) in cases.into_iter().zip(outs.into_iter()) {
        let Some(out) = out else { continue };
        sess.o();
        sess.count("origin:cli-summary");
        let input = json!({"stream": "cli", "case_seed": case_seed, "index": i});
        let stdout = String::from_utf8_lossy(&out.stdout).to_string();
        if !out.status.success() {
            sess.fail("cli-summary-error", format!("harper-cli summarize-lint-record fails on a log Stats::write produced: {}", trunc(&String::from_utf8_lossy(&out.stderr), 300)), input, None);
            continue;
        }
        // `LintKind` counts / ===== / <kind>\t<count>* / Misspelling counts / …
        let mut got = std::collections::BTreeMap::new();
        let mut shape_ok = true;
        let mut lines = stdout.lines();
        shape_ok &= lines.next() == Some("`LintKind` counts");
        shape_ok &= lines.next().is_some_and(|l| !l.is_empty() && l.chars().all(|c| c == '='));
        let mut closed = false;
        for l in lines {
            if l == "Misspelling counts" {
                closed = true;
                break;
            }
            match l.rsplit_once('\t') {
                Some((k, c)) => match c.parse::<u32>() {
                    Ok(c) if !got.contains_key(k) => {
                        got.insert(k.to_string(), c);
                    }
                    _ => shape_ok = false,
                },
                None => shape_ok = false,
            }
        }
        sess.monitor("harper-cli summarize-lint-record prints the `LintKind` section as <kind>TAB<count> lines", shape_ok && closed);
        if !(shape_ok && closed) {
            continue;
        }
        let want = w25_kind_counts(&recs);
        if got != want {
            sess.fail("cli-summary-miscount", format!("harper-cli summarize-lint-record reports {:?}; the log holds lint records {:?}", got, want), input, None);
        } else if want.len() > 1 {
            sess.nontrivial(&format!("cli|{}", case_seed));
        }
    }
}
