//! Canonical printing of real tokens (must match `Harper.Kind.tag` / `Tok.show` of the Lean model)
//! and of texts with the per-character class flags the model takes as parameters.
use harper_core::{Punctuation, Token, TokenKind};

pub fn kind_tag(k: &TokenKind) -> String {
    match k {
        TokenKind::Word(_) => "word".into(),
        TokenKind::Punctuation(Punctuation::Quote(q)) => match q.twin_loc {
            Some(t) => format!("quote:{}", t),
            None => "quote:-".into(),
        },
        TokenKind::Punctuation(Punctuation::Currency(_)) => "p.Currency".into(),
        TokenKind::Punctuation(p) => format!("p.{:?}", p),
        TokenKind::Decade => "decade".into(),
        TokenKind::Number(n) => format!(
            "num{}:{}",
            n.radix,
            match n.suffix {
                Some(s) => format!("{:?}", s).to_lowercase(),
                None => "-".into(),
            }
        ),
        TokenKind::Space(n) => format!("space{}", n),
        TokenKind::Newline(n) => format!("nl{}", n),
        TokenKind::EmailAddress => "email".into(),
        TokenKind::Url => "url".into(),
        TokenKind::Hostname => "host".into(),
        TokenKind::Unlintable => "unl".into(),
        TokenKind::ParagraphBreak => "parbreak".into(),
        TokenKind::Regexish => "regexish".into(),
    }
}

pub fn tok_show(t: &Token) -> String {
    format!("{}@{}-{}", kind_tag(&t.kind), t.span.start, t.span.end)
}

pub fn toks_show(ts: &[Token]) -> String {
    ts.iter().map(tok_show).collect::<Vec<_>>().join(" ")
}

/// `is_english_lingual` is not exported by harper-core; it is observable through the plain
/// parser: a single character lexes as a `Word` iff it is lingual or an ASCII digit
/// (`lex_plural_digit`/`lex_number`/… need more than one character or a digit).
pub fn is_english_lingual(c: char) -> bool {
    use harper_core::parsers::{Parser, PlainEnglish};
    use std::cell::RefCell;
    use std::collections::HashMap;
    thread_local! { static CACHE: RefCell<HashMap<char, bool>> = RefCell::new(HashMap::new()); }
    if c.is_ascii() {
        return c.is_ascii_alphabetic();
    }
    CACHE.with(|m| {
        *m.borrow_mut().entry(c).or_insert_with(|| {
            // two copies: "cc" lexes as one Word of length 2 iff c is lingual
            let toks = PlainEnglish.parse(&[c, c]);
            toks.len() == 1 && matches!(toks[0].kind, TokenKind::Word(_))
        })
    })
}

/// `cp:flags` words for the model: l = english lingual, n = numeric, a = alphanumeric
pub fn text_field(cs: &[char]) -> String {
    let mut s = String::with_capacity(cs.len() * 6);
    for (i, c) in cs.iter().enumerate() {
        if i > 0 {
            s.push(' ');
        }
        s.push_str(&(*c as u32).to_string());
        let (l, n, a) = (is_english_lingual(*c), c.is_numeric(), c.is_alphanumeric());
        if l || n || a {
            s.push(':');
            if l {
                s.push('l');
            }
            if n {
                s.push('n');
            }
            if a {
                s.push('a');
            }
        }
    }
    s
}

/// the external-lexer table handed to the model: where the real parser produced a
/// Url / EmailAddress / Hostname token
pub fn ext_field(ts: &[Token]) -> String {
    ts.iter()
        .filter_map(|t| {
            let k = match t.kind {
                TokenKind::Url => "url",
                TokenKind::EmailAddress => "email",
                TokenKind::Hostname => "host",
                _ => return None,
            };
            Some(format!("{}:{}:{}", t.span.start, k, t.span.end.saturating_sub(t.span.start)))
        })
        .collect::<Vec<_>>()
        .join(" ")
}
