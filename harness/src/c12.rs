//! C12 — checking two paragraphs together equals checking them separately.
//!
//! K: `lex` (PlainEnglish::parse) and `doc` (Document::new) on the three texts P, D, P+D of every
//!    pair against the Lean models — the objects the theorems `lex_append` / `document_append`
//!    relate.
//! Monitors (hypotheses of those theorems, evaluated on the REAL token streams):
//!    `BoundaryOK` is decidable on the text (evaluated and counted); `ExtLocal` — the url / e-mail /
//!    hostname tokens of P+D are those of P followed by those of D shifted.
//! O: the property on the real full rule set: `lint(P+D)` vs `lint(P) ++ shift(lint(D), |P|)`
//!    as multisets of (span, kind, message, suggestions, priority) and in order on each side of the
//!    break, with every rule on (chunk cache defeated) and with the curated defaults (long-lived,
//!    caching group as an editor runs it). Every difference is a failure with (P, D) as input;
//!    the rule(s) responsible are identified by re-running each rule alone.
use crate::common::*;
use crate::corpus;
use crate::textgen;
use crate::tokfmt::*;
use harper_core::linting::{Lint, LintGroup, Linter};
use harper_core::parsers::{Parser, PlainEnglish};
use harper_core::{Dialect, Document, FstDictionary, Punctuation, Token, TokenKind};
use serde_json::{Value, json};
use std::cell::RefCell;
use std::collections::BTreeMap;

const CONFIGS: [&str; 3] = ["all-rules-on/American/uncached", "curated-defaults/American/cached", "curated-defaults/American/fresh-group-per-lint"];
/// one unknown word in two letter cases
const CASE_TYPOS: &[(&str, &str)] = &[("teh", "Teh"), ("wrod", "WROD"), ("recieve", "Recieve"), ("mispelled", "MISPELLED"), ("thier", "Thier"), ("becuase", "BecuaSe"), ("zqxv", "Zqxv")];
const QUOTES: [char; 3] = ['"', '“', '”'];

struct Groups {
    all: LintGroup,
    curated: LintGroup,
    single: LintGroup,
    nonce: u64,
    keys: Vec<String>,
}

thread_local! { static GROUPS: RefCell<Option<Groups>> = RefCell::new(None); }

fn with_groups<T>(f: impl FnOnce(&mut Groups) -> T) -> T {
    GROUPS.with(|g| {
        let mut g = g.borrow_mut();
        if g.is_none() {
            let mk = || LintGroup::new_curated(FstDictionary::curated(), Dialect::American);
            let mut all = mk();
            all.config.fill_with_curated();
            all.set_all_rules_to(Some(true));
            let mut curated = mk();
            curated.config.fill_with_curated();
            let mut single = mk();
            single.set_all_rules_to(Some(false));
            let mut keys: Vec<String> = all.iter_keys().map(|s| s.to_string()).collect();
            keys.sort();
            keys.dedup();
            *g = Some(Groups { all, curated, single, nonce: 0, keys });
        }
        f(g.as_mut().unwrap())
    })
}

type Key = (usize, usize, String, String, String, u8);

fn key_of(l: &Lint, shift: usize) -> Key {
    (
        l.span.start + shift,
        l.span.end + shift,
        format!("{:?}", l.lint_kind),
        l.message.clone(),
        format!("{:?}", l.suggestions),
        l.priority,
    )
}

fn lint_text(cfg: usize, text: &str) -> Result<Vec<Lint>, String> {
    guarded(|| {
        let dict = FstDictionary::curated();
        let doc = Document::new(text, &PlainEnglish, &dict);
        with_groups(|g| {
            if cfg == 2 {
                // a brand-new group for this one lint: no per-linter memo (SpellCheck's word cache,
                // the chunk cache) has seen any other text
                let mut fresh = LintGroup::new_curated(FstDictionary::curated(), Dialect::American);
                fresh.config.fill_with_curated();
                fresh.lint(&doc)
            } else if cfg == 0 {
                // a fresh dummy key changes the config hash: no chunk-cache hit from another context
                g.all.config.unset_rule_enabled(format!("zz-c12-nonce-{}", g.nonce));
                g.nonce += 1;
                g.all.config.set_rule_enabled(format!("zz-c12-nonce-{}", g.nonce), true);
                g.all.lint(&doc)
            } else {
                g.curated.lint(&doc)
            }
        })
    })
}

/// lints of `text` with only `rule` enabled (cache defeated the same way)
fn lint_single(rule: &str, text: &str) -> Result<Vec<Lint>, String> {
    guarded(|| {
        let dict = FstDictionary::curated();
        let doc = Document::new(text, &PlainEnglish, &dict);
        with_groups(|g| {
            g.single.config.unset_rule_enabled(format!("zz-c12-nonce-{}", g.nonce));
            g.nonce += 1;
            g.single.config.set_rule_enabled(format!("zz-c12-nonce-{}", g.nonce), true);
            g.single.config.set_rule_enabled(rule, true);
            let r = g.single.lint(&doc);
            g.single.config.set_rule_enabled(rule, false);
            r
        })
    })
}

fn expected(lp: &[Lint], ld: &[Lint], plen: usize) -> Vec<Key> {
    lp.iter().map(|l| key_of(l, 0)).chain(ld.iter().map(|l| key_of(l, plen))).collect()
}

/// the comparison of the property; `None` = equal
fn compare(whole: &[Lint], lp: &[Lint], ld: &[Lint], plen: usize) -> Option<(String, String)> {
    let got: Vec<Key> = whole.iter().map(|l| key_of(l, 0)).collect();
    let want = expected(lp, ld, plen);
    let mut gs = got.clone();
    let mut ws = want.clone();
    gs.sort();
    ws.sort();
    if gs != ws {
        let only_whole: Vec<&Key> = gs.iter().filter(|k| !ws.contains(k)).collect();
        let only_parts: Vec<&Key> = ws.iter().filter(|k| !gs.contains(k)).collect();
        return Some((
            "multiset".into(),
            format!("only in lint(P+D): {:?}; only in lint(P)++shift(lint(D)): {:?}", only_whole.iter().take(3).collect::<Vec<_>>(), only_parts.iter().take(3).collect::<Vec<_>>()),
        ));
    }
    // exact order on each side of the break (a group concatenates rule by rule, so the two sides
    // interleave; within a side the order must be the order of the part's own lint list)
    let side = |ks: &[Key], first: bool| -> Vec<Key> { ks.iter().filter(|k| (k.0 < plen) == first).cloned().collect() };
    if side(&got, true) != side(&want, true) || side(&got, false) != side(&want, false) {
        return Some(("order".into(), "same lints, but their relative order within one paragraph differs".into()));
    }
    // no lint straddles the break
    if let Some(k) = got.iter().find(|k| k.0 < plen && k.1 > plen) {
        return Some(("multiset".into(), format!("lint {:?} straddles the paragraph break", k)));
    }
    None
}

fn slug(s: &str) -> String {
    s.chars().map(|c| if c.is_ascii_alphanumeric() { c } else { '-' }).collect()
}

/// which rules, run alone, violate the property on (P, D)
fn responsible_rules(p: &str, d: &str) -> Vec<String> {
    let keys = with_groups(|g| g.keys.clone());
    let whole = format!("{}{}", p, d);
    let plen = p.chars().count();
    let mut out = vec![];
    for k in keys {
        let (Ok(w), Ok(lp), Ok(ld)) = (lint_single(&k, &whole), lint_single(&k, p), lint_single(&k, d)) else {
            out.push(format!("{}(panic)", k));
            continue;
        };
        if compare(&w, &lp, &ld, plen).is_some() {
            out.push(k);
        }
    }
    out
}

fn shift_tok(t: &Token, by: usize, tok_by: usize) -> String {
    let mut t = t.clone();
    t.span.start += by;
    t.span.end += by;
    if let TokenKind::Punctuation(Punctuation::Quote(q)) = &mut t.kind {
        if let Some(tw) = q.twin_loc {
            q.twin_loc = Some(tw + tok_by);
        }
    }
    tok_show(&t)
}

pub struct PairOut {
    k: Vec<(String, String)>,
    counts: Vec<String>,
    monitors: Vec<(String, bool)>,
    fails: Vec<(String, String, Value)>,
    nontrivial: bool,
}

fn has_at_lookahead(p: &str, d: &str, tp: &[Token], tw: &[Token]) -> bool {
    // mechanism: `lex_email_address` scans to the LAST `@` of the remaining text and `lex_url`'s
    // login part to the FIRST `@`: an `@` in D changes how an address / URL inside P is lexed
    let plen = p.chars().count();
    d.contains('@')
        && (tp.iter().any(|t| matches!(t.kind, TokenKind::EmailAddress | TokenKind::Url))
            || tw.iter().any(|t| t.span.start < plen && matches!(t.kind, TokenKind::EmailAddress | TokenKind::Url)))
}

pub fn eval_pair(p: &str, d: &str, with_k: bool, only_cfg: Option<usize>, fresh: bool) -> PairOut {
    let mut out = PairOut { k: vec![], counts: vec![], monitors: vec![], fails: vec![], nontrivial: false };
    let whole = format!("{}{}", p, d);
    let plen = p.chars().count();
    let inp = |cfg: usize| json!({"P": p, "D": d, "cfg": CONFIGS[cfg]});
    // ClsOK, the laws of the class tables `lex_append` assumes, on every character seen
    {
        let law3 = whole.chars().all(|c| !c.is_numeric() || (!c.is_ascii_alphabetic() && c != '+' && c != '-'));
        let nl = !is_english_lingual('\n') && !'\n'.is_alphanumeric();
        out.monitors.push(("ClsOK (newline neither lingual nor alphanumeric; a numeric character is not an ASCII letter or sign), every character seen".into(), law3 && nl));
    }
    let dict = FstDictionary::curated();
    // ---- tokens of the three texts -------------------------------------------------------------
    let mut lexed: Vec<Option<Vec<Token>>> = vec![];
    let mut docs: Vec<Option<Vec<Token>>> = vec![];
    for text in [p, d, whole.as_str()] {
        let src: Vec<char> = text.chars().collect();
        let lx = guarded(|| PlainEnglish.parse(&src)).ok();
        let ext = lx.as_ref().map(|t| ext_field(t)).unwrap_or_default();
        let dc = guarded(|| Document::new(text, &PlainEnglish, &dict)).ok().map(|d| d.get_tokens().to_vec());
        if with_k {
            let tf = text_field(&src);
            out.k.push((format!("lex | {} | {}", tf, ext), match &lx { Some(t) => format!("ok {}", toks_show(t)).trim_end().to_string(), None => "panic".into() }));
            out.k.push((format!("doc | {} | {}", tf, ext), match &dc { Some(t) => format!("ok {}", toks_show(t)).trim_end().to_string(), None => "panic".into() }));
        }
        if with_k {
            // the piece iterators of the real document against `Harper.Chunks`
            if let Ok(doc) = guarded(|| Document::new(text, &PlainEnglish, &dict)) {
                use harper_core::TokenStringExt;
                let show = |ps: Vec<&[Token]>| -> String {
                    let v: Vec<String> = ps
                        .iter()
                        .map(|p| match (p.first(), p.last()) {
                            (Some(a), Some(b)) => format!("{}-{}/{}", a.span.start, b.span.end, p.len()),
                            _ => "e".to_string(),
                        })
                        .collect();
                    format!("ok {}", v.join(" ")).trim_end().to_string()
                };
                let tf = text_field(&src);
                out.k.push((format!("pieces par | {} | {}", tf, ext), show(doc.iter_paragraphs().collect())));
                out.k.push((format!("pieces sent | {} | {}", tf, ext), show(doc.iter_sentences().collect())));
                out.k.push((format!("pieces chunk | {} | {}", tf, ext), show(doc.iter_chunks().collect())));
            }
        }
        lexed.push(lx);
        docs.push(dc);
    }
    let boundary_ok = !d.starts_with('\n');
    out.counts.push(format!("BoundaryOK:{}", boundary_ok));
    let mut tokens_append = None;
    if let (Some(lp), Some(ld), Some(lw)) = (&lexed[0], &lexed[1], &lexed[2]) {
        // ExtLocal on the tables the model is given
        let ext = |ts: &[Token], lo: usize, hi: usize, by: usize| -> Vec<(usize, usize, String)> {
            ts.iter()
                .filter(|t| matches!(t.kind, TokenKind::Url | TokenKind::EmailAddress | TokenKind::Hostname) && t.span.start >= lo && t.span.start < hi)
                .map(|t| (t.span.start + by, t.span.end + by, kind_tag(&t.kind)))
                .collect()
        };
        let mut want = ext(lp, 0, usize::MAX, 0);
        want.extend(ext(ld, 0, usize::MAX, plen));
        let ext_local = ext(lw, 0, usize::MAX, 0) == want;
        if boundary_ok {
            let at = has_at_lookahead(p, d, lp, lw);
            if ext_local || !at {
                out.monitors.push(("ExtLocal (url/e-mail/hostname tokens of P+D = those of P, then those of D shifted)".into(), ext_local));
            } else {
                out.monitors.push(("c12-lex-at-lookahead".into(), false));
            }
            // lex_append on the real lexer
            let want: Vec<String> = lp.iter().map(|t| shift_tok(t, 0, 0)).chain(ld.iter().map(|t| shift_tok(t, plen, lp.len()))).collect();
            let got: Vec<String> = lw.iter().map(tok_show).collect();
            let ok = want == got;
            if ext_local {
                out.monitors.push(("lex_append on the real lexer (BoundaryOK ∧ ExtLocal ⇒ tokens(P+D) = tokens(P) ++ shift(tokens(D)))".into(), ok));
            }
        }
    }
    if let (Some(tp), Some(td), Some(tw)) = (&docs[0], &docs[1], &docs[2]) {
        let want: Vec<String> = tp.iter().map(|t| shift_tok(t, 0, 0)).chain(td.iter().map(|t| shift_tok(t, plen, tp.len()))).collect();
        let got: Vec<String> = tw.iter().map(tok_show).collect();
        let ok = want == got;
        tokens_append = Some(ok);
        if boundary_ok {
            out.counts.push(format!("document_append(real tokens):{}", ok));
            let lex_ok = match (&lexed[0], &lexed[1], &lexed[2]) {
                (Some(lp), Some(ld), Some(lw)) => {
                    let w: Vec<String> = lp.iter().map(|t| shift_tok(t, 0, 0)).chain(ld.iter().map(|t| shift_tok(t, plen, lp.len()))).collect();
                    w == lw.iter().map(tok_show).collect::<Vec<_>>()
                }
                _ => false,
            };
            // the TEXT-level hypotheses of the theorem `document_append`
            if let (true, Some(lp), Some(_ld)) = (lex_ok, &lexed[0], &lexed[1]) {
                let pc: Vec<char> = p.chars().collect();
                let k = pc.iter().rev().take_while(|c| **c == '\n').count();
                let para_break_end = k >= 2; // a maximal run of ≥ 2 newlines ends P
                let no_quote_chars = !pc.iter().any(|c| QUOTES.contains(c));
                // ExtNoNl: no url / e-mail / hostname token of P contains a newline
                let ext_no_nl = lp.iter().all(|t| {
                    !matches!(t.kind, TokenKind::Url | TokenKind::EmailAddress | TokenKind::Hostname)
                        || !pc[t.span.start.min(pc.len())..t.span.end.min(pc.len())].contains(&'\n')
                });
                out.monitors.push(("ExtNoNl (no url/e-mail/hostname token of P contains a newline)".into(), ext_no_nl));
                out.counts.push(format!("ParaBreakEnd:{}", para_break_end));
                if para_break_end && no_quote_chars && ext_no_nl {
                    // consequences proved in Lean from the text: the last lexer token of P is Newline(k), no quote token
                    let break_tok = matches!(lp.last().map(|t| &t.kind), Some(TokenKind::Newline(n)) if *n == k);
                    let no_quotes = !lp.iter().any(|t| matches!(t.kind, TokenKind::Punctuation(Punctuation::Quote(_))));
                    out.monitors.push(("parsePlain_ends_break / parsePlain_noQuotes on the real lexer (P ends in k ≥ 2 newlines ⇒ last token Newline(k); no quote characters ⇒ no quote token)".into(), break_tok && no_quotes));
                    out.monitors.push(("document_append: P ends in ≥2 newlines ∧ no quote character in P ∧ D does not start with a newline ∧ ExtLocal ∧ ExtNoNl ⇒ DocAppend, on the real Document::new".into(), ok));
                }
            }
            if lex_ok {
                out.monitors.push(("DocAppend on the real passes (lexer tokens append ⇒ document tokens append, quote twins shifted)".into(), ok));
            }
        }
        if td.iter().any(|t| matches!(t.kind, TokenKind::Punctuation(Punctuation::Quote(_)))) {
            out.counts.push("D-has-quotes".into());
        }
        if tp.len() >= 8 && td.len() >= 4 {
            out.nontrivial = true;
        }
    }
    // ---- the property on the real rule set ------------------------------------------------------
    for cfg in 0..CONFIGS.len() {
        if only_cfg.is_some_and(|c| c != cfg) || (cfg == 2 && !fresh && only_cfg != Some(2)) {
            continue;
        }
        // the whole first, so that a caching group cannot have seen the parts alone before
        let (Ok(lw), Ok(lp), Ok(ld)) = (lint_text(cfg, &whole), lint_text(cfg, p), lint_text(cfg, d)) else {
            out.counts.push("lint-panicked(C01's business)".into());
            continue;
        };
        out.counts.push(format!("lints-in-P:{}", lp.len().min(5)));
        out.counts.push(format!("lints-in-D:{}", ld.len().min(5)));
        if let Some((what, desc)) = compare(&lw, &lp, &ld, plen) {
            let (class, rules) = if boundary_ok && tokens_append == Some(false) {
                // the tokens already differ: a lexer / condensing look-ahead across the break
                let at = match (&lexed[0], &lexed[2]) {
                    (Some(lp_), Some(lw_)) => has_at_lookahead(p, d, lp_, lw_),
                    _ => false,
                };
                (if at { "c12-lex-at-lookahead".to_string() } else { "c12-tokens-differ".to_string() }, vec![])
            } else {
                let rules = responsible_rules(p, d);
                // D begins with k newlines: they merge with P's break into ONE token, so a lint of D
                // alone that starts ON its leading newline (a sentence-wide span) starts k characters
                // later in the whole. Exactly that and nothing else: same end, kind, message,
                // suggestions, priority; parts-lint starts at |P|, whole-lint at |P| + k.
                let k = d.chars().take_while(|c| *c == '\n').count();
                let leading_newline_only = !boundary_ok && k > 0 && {
                    let got: Vec<Key> = lw.iter().map(|l| key_of(l, 0)).collect();
                    let want = expected(&lp, &ld, plen);
                    let only_whole: Vec<&Key> = got.iter().filter(|x| !want.contains(x)).collect();
                    let only_parts: Vec<&Key> = want.iter().filter(|x| !got.contains(x)).collect();
                    !only_whole.is_empty()
                        && only_whole.len() == only_parts.len()
                        && only_parts.iter().all(|b| b.0 == plen && only_whole.iter().any(|a| a.0 == plen + k && (a.1, &a.2, &a.3, &a.4, a.5) == (b.1, &b.2, &b.3, &b.4, b.5)))
                };
                let class = if leading_newline_only {
                    "c12-leading-newline-in-span".to_string()
                } else if cfg == 2 && rules.is_empty() {
                    // reproduced only with a fresh group per lint: state carried inside a linter from
                    // the first paragraph to the second
                    "c12-linter-memo-across-paragraphs".to_string()
                } else if what == "order" && rules.is_empty() {
                    "c12-order".to_string()
                } else if rules.is_empty() {
                    "c12-unidentified".to_string()
                } else {
                    format!("c12-rule-{}{}", slug(&rules[0]), if boundary_ok { "" } else { "-leading-newline" })
                };
                (class, rules)
            };
            out.fails.push((class, format!("[{}] {} (rules responsible when run alone: {:?}) — {}", CONFIGS[cfg], what, rules, desc), inp(cfg)));
        }
    }
    out
}

fn merge(sess: &mut Session, o: PairOut, key: &str) {
    let mut case = None;
    for (op, imp) in &o.k {
        case = Some(sess.k(op, imp));
    }
    sess.o();
    for c in &o.counts {
        sess.count(c);
    }
    for (m, held) in &o.monitors {
        sess.monitor(m, *held);
    }
    if o.nontrivial {
        sess.nontrivial(key);
    }
    for (class, desc, input) in o.fails {
        sess.fail(&class, desc, input, case);
    }
}

/// first paragraphs: 1–3 rule-test sentences free of quotation marks, ending in `.`, `!` or `?`
fn first_paragraph(rng: &mut Rng, pool: &[&String]) -> String {
    let n = rng.range(1, 3);
    let mut s = String::new();
    for i in 0..n {
        if i > 0 {
            s.push(' ');
        }
        s.push_str(pool[rng.below(pool.len())]);
    }
    s
}

pub fn run(ctx: &Ctx) {
    let mut sess = Session::new(ctx);
    let mut rng = Rng::new(ctx.seed);
    if let Some(v) = replay_input(ctx) {
        if crate::rules::replay(&mut sess, &v) || crate::leaves::replay(&mut sess, &v) || crate::prules::replay(&mut sess, &v) || crate::rules2::replay(&mut sess, &v) || crate::mrules::replay(&mut sess, &v) {
            sess.nontrivial("replay-a");
            sess.nontrivial("replay-b");
            sess.finish("replay of one recorded rule input", false, json!({}));
            return;
        }
        let p = v["P"].as_str().unwrap_or("").to_string();
        let d = v["D"].as_str().unwrap_or("").to_string();
        let cfg = v["cfg"].as_str().and_then(|c| CONFIGS.iter().position(|x| *x == c));
        let o = eval_pair(&p, &d, true, cfg, cfg == Some(2));
        merge(&mut sess, o, "replay");
        sess.nontrivial("replay-a");
        sess.nontrivial("replay-b");
        sess.finish("replay of one recorded (P, D) pair", false, json!({}));
        return;
    }
    let pool: Vec<&String> = corpus::sentences()
        .iter()
        .filter(|s| !s.chars().any(|c| QUOTES.contains(&c)) && s.trim_end().ends_with(['.', '!', '?']) && s.trim_end().len() == s.len())
        .collect();
    sess.add("first-paragraph-sentence-pool", pool.len() as u64);
    let seps = ["\n\n", "\n\n\n", " \n\n", "\n\n", "\n\n", " \t\n\n", "\t \n\n\n", " \t \n\n"];
    let mut pairs: Vec<(String, String)> = vec![];
    // 1. corpus: the witnesses of the theorems' conditions and of past findings
    let p0 = "I have 5.\n\n";
    for d in [
        "3 apples.", "\nfoo", "\n\nSecond one.", "@home now.", ": colon", "lower case start.", "\"Quoted\" text and \"more.", "", " leading space", "e.g. this",
        "st", "'s", ".", "...", "al. et", "th place", "1st", "a@b.c", "x@y", "x:y //", "1", "e5", ".5", "s", "0s", "]", "-z]", "There is an test.",
    ] {
        pairs.push((p0.to_string(), d.to_string()));
        pairs.push(("See e.g.\n\n".to_string(), d.to_string()));
        pairs.push(("Mail bob@example.com now.\n\n".to_string(), d.to_string()));
        pairs.push(("See http://example.com/a for an details.\n\n".to_string(), d.to_string()));
        pairs.push(("He said et.\n\n".to_string(), d.to_string()));
        pairs.push(("It was the 1.\n\n".to_string(), d.to_string()));
        pairs.push(("This are a.\n\n".to_string(), d.to_string()));
    }
    // witnesses of the recorded finding `c12-lex-at-lookahead`
    pairs.push(("Write to zqxv@example.com today.\n\n".to_string(), "Ping @alice.".to_string()));
    pairs.push(("See http://example.com/zqxv for details.\n\n".to_string(), "Mail me @home.".to_string()));
    // regression witnesses of the REPAIRED finding `c12-condense-spaces-skip` (128f7ba) and neighbours: all must pass
    for (p, d) in [
        ("This is fine. \t\n\n", " \tfoo bar."), ("This is fine.\t \n\n", "\t \tfoo bar."), ("This is fine. \t \t \t\n\n", " \tfoo."),
        ("This is fine. \t \n\n", " \tfoo bar."), ("This is fine. \n\n", " \tfoo bar."), ("This is fine. \t\n\n", " foo bar."), ("This is fine. \t \t\n\n", " \tfoo bar."),
    ] {
        pairs.push((p.to_string(), d.to_string()));
    }
    // the same unknown word in both paragraphs in different letter case (a per-document memo keyed
    // by a normalised word makes the second paragraph's suggestions depend on the first)
    for (a, b) in CASE_TYPOS {
        for (x, y) in [(a, b), (b, a), (a, a)] {
            pairs.push((format!("I saw {} cat here.\n\n", x), format!("{} dog barked at {}.", y, x)));
            pairs.push((format!("{} is wrong.\n\n", x), format!("So is {} again.", y)));
        }
    }
    let n_corpus = pairs.len();
    // 2. small scope: every separator × every curated opening of D, on a fixed first paragraph
    let openings = [
        "\n", "\n\n", " ", "\t", "1", "12th", "@", ":", "a", "the the", "\"", "“q”", "'", ".", ",", "!", "-", "[a-z]", "0x1F", "1980s", "e.g.", "et al.", "etc.", "I", "i",
        // openings that rules look BEHIND from (a rule that slides a window over the whole document sees the
        // previous paragraph's break / terminator as the token before these)
        "$ 20 ", "20 $ ", "€ 5 ", "5 € ", "£5 ", "5 % ", "# 5 ", "— ", "… ", ") ", "( ", ", ", "; ", "of ", "and ", "to ", "an ", "a ", "than ", "then ", "it's ", "its ", "there ", "their ",
    ];
    for sep in ["\n\n", "\n\n\n", " \n\n", "\t\n\n", "\n\n\n\n"] {
        for o in openings {
            for tail in ["", " is an test of the the harness.", "Second paragraph here."] {
                pairs.push((format!("This is an test.{}", sep), format!("{}{}", o, tail)));
            }
        }
    }
    let n_small = pairs.len();
    // 3. structured random
    let nrand = if ctx.tier == Tier::Thorough { 30000 } else { 6000 };
    for i in 0..nrand {
        let p = format!("{}{}", first_paragraph(&mut rng, &pool), seps[rng.below(seps.len())]);
        let d = match i % 8 {
            0 => textgen::sentence(&mut rng),
            1 => format!("{}{}", rng.pick(&openings), textgen::sentence(&mut rng)),
            2 => {
                let s = textgen::sentence(&mut rng);
                let mut cs: Vec<char> = s.chars().collect();
                if let Some(c) = cs.first_mut() {
                    *c = c.to_lowercase().next().unwrap_or(*c);
                }
                cs.into_iter().collect()
            }
            3 => format!("{} {}", rng.pick(textgen::SPICE), textgen::prose(&mut rng)),
            4 => format!("{}{}", rng.pick(&[" \t", "\t ", " \t ", "  ", "\t\t ", " \t \t"]), textgen::sentence(&mut rng)),
            _ => textgen::text(&mut rng),
        };
        // the same condensable construct in BOTH paragraphs (every pass that merges tokens and
        // re-indexes the rest must leave the other paragraph alone)
        let (p, d) = if i % 3 == 0 {
            let items = ["1st", "22nd", "103rd", "e.g.", "N.S.A.", "don't", "...", "etc.", "et al.", "3.5", "0x1F", "1980s", "a.m.", "it's", "5's", "[a-z]"];
            let inject = |rng: &mut Rng, text: &str, item: &str| -> String {
                let cs: Vec<char> = text.chars().collect();
                let spaces: Vec<usize> = cs.iter().enumerate().filter(|(_, c)| **c == ' ').map(|(i, _)| i).collect();
                if spaces.is_empty() {
                    return format!("{} {}", item, text);
                }
                let at = spaces[rng.below(spaces.len())];
                let mut out: String = cs[..at].iter().collect();
                out.push(' ');
                out.push_str(item);
                out.extend(cs[at..].iter());
                out
            };
            let (a, b) = if i % 9 == 3 {
                let (x, y) = *rng.pick(CASE_TYPOS);
                if rng.chance(1, 2) { (x, y) } else { (y, x) }
            } else {
                let a = *rng.pick(&items);
                (a, if rng.chance(1, 2) { a } else { *rng.pick(&items) })
            };
            (inject(&mut rng, &p, a), inject(&mut rng, &d, b))
        } else {
            (p, d)
        };
        pairs.push((p, d));
    }
    // a fresh group per lint is costly: the corpus, and a slice of the random pairs (the ones with the
    // same construct / the same unknown word injected in both paragraphs fall on i % 9 == 3)
    let fresh_every = if ctx.tier == Tier::Thorough { 9 } else { 45 };
    let with_k_every = if ctx.tier == Tier::Thorough { 1 } else { 1 };
    let outs = par_map(pairs.len(), 16, |i| eval_pair(&pairs[i].0, &pairs[i].1, i % with_k_every == 0, None, i < n_corpus || i % fresh_every == 3));
    for (i, o) in outs.into_iter().enumerate() {
        if i == n_corpus || i == n_small || i == n_small + 1 {
            sess.sample(json!({"P": trunc(&pairs[i].0, 160), "D": trunc(&pairs[i].1, 160)}));
        }
        sess.count(if i < n_corpus { "origin:corpus" } else if i < n_small { "origin:small-scope" } else { "origin:random" });
        let key = format!("{}\u{0}{}", pairs[i].0, pairs[i].1);
        merge(&mut sess, o, &key);
    }
    // concrete rules against Model/Rules.lean: K, in-range and per-rule locality
    crate::rules::run_into(&mut sess, ctx, &mut rng);
    crate::leaves::run_into(&mut sess, ctx, &mut rng);
    crate::prules::run_into(&mut sess, ctx, &mut rng);
    crate::rules2::run_into(&mut sess, ctx, &mut rng);
    crate::mrules::run_into(&mut sess, ctx, &mut rng);
    sess.finish(
        &format!("{} {} {} {} {} {}", crate::rules::RULE, crate::leaves::RULE, crate::prules::RULE, crate::rules2::RULE, crate::mrules::RULE, "pairs (P, D): P = 1–3 rule-test sentences free of quotation marks ending in [.!?] followed by a paragraph break (\\n\\n, \\n\\n\\n, space+\\n\\n); D = a rule-test sentence, the same with a curated opening (newlines, blank, digits, ordinal, @, :, lower case, quotes, apostrophe, punctuation, regexish, hex, decade, e.g., et al., etc.), lower-cased first letter, spice + prose, or a mutated / malformed text of the shared generator; plus a corpus of boundary witnesses and a small-scope grid (5 separators × 25 openings × 3 tails). K: PlainEnglish::parse (`lex`), Document::new (`doc`) and iter_paragraphs / iter_sentences / iter_chunks (`pieces`) on P, D and P+D against the Lean models. O: lint(P+D) = lint(P) ++ shift(lint(D)) as multisets of (span, kind, message, suggestions, priority), in the same order within each paragraph, none straddling the break; every rule on (chunk cache defeated by a config nonce) and curated defaults (long-lived caching group). Monitors: ClsOK (class-table laws on every character seen), ExtLocal, ExtNoNl, lex_append, DocAppend, parsePlain_ends_break/noQuotes, and the theorem document_append with its text-level hypotheses on the real token streams. Non-trivial = P has ≥8 and D ≥4 document tokens; distinct by (P, D)."),
        false,
        json!({"configs": CONFIGS, "pairs": pairs.len()}),
    );
}
