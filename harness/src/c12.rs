//! C12 — checking two paragraphs together equals checking them separately.
//!
//! K: `lex` (PlainEnglish::parse) and `doc` (Document::new) on the three texts P, D, P+D of every
//!    pair against the Lean models — the objects the theorems `lex_append` / `document_append`
//!    relate.
//! Monitors (hypotheses of those theorems, evaluated on the REAL token streams):
//!    `BoundaryOK` is decidable on the text (evaluated and counted); `ExtLocal` — the url / e-mail /
//!    hostname tokens of P+D are those of P followed by those of D shifted.
//! O: the property on the real full rule set: `lint(P+D)` vs `lint(P) ++ shift(lint(D), |P|)`
//!    as multisets of (span, kind, message, suggestions, priority) and in order on each side of the
//!    break, with every rule on (chunk cache defeated) and with the curated defaults (long-lived,
//!    caching group as an editor runs it). Every difference is a failure with (P, D) as input;
//!    the rule(s) responsible are identified by re-running each rule alone.
use crate::common::*;
use crate::corpus;
use crate::textgen;
use crate::tokfmt::*;
use harper_core::linting::{Lint, LintGroup, Linter};
use harper_core::parsers::{Parser, PlainEnglish};
use harper_core::{Dialect, Document, FstDictionary, Punctuation, Token, TokenKind};
use serde_json::{Value, json};
use std::cell::RefCell;
use std::collections::BTreeMap;

const CONFIGS: [&str; 3] = ["all-rules-on/American/uncached", "curated-defaults/American/cached", "curated-defaults/American/fresh-group-per-lint"];
/// one unknown word in two letter cases
const CASE_TYPOS: &[(&str, &str)] = &[("teh", "Teh"), ("wrod", "WROD"), ("recieve", "Recieve"), ("mispelled", "MISPELLED"), ("thier", "Thier"), ("becuase", "BecuaSe"), ("zqxv", "Zqxv")];
const QUOTES: [char; 3] = ['"', '“', '”'];

struct Groups {
    all: LintGroup,
    curated: LintGroup,
    single: LintGroup,
    nonce: u64,
    keys: Vec<String>,
}

thread_local! { static GROUPS: RefCell<Option<Groups>> = RefCell::new(None); }

fn with_groups<T>(f: impl FnOnce(&mut Groups) -> T) -> T {
    GROUPS.with(|g| {
        let mut g = g.borrow_mut();
        if g.is_none() {
            let mk = || LintGroup::new_curated(FstDictionary::curated(), Dialect::American);
            let mut all = mk();
            all.config.fill_with_curated();
            all.set_all_rules_to(Some(true));
            let mut curated = mk();
            curated.config.fill_with_curated();
            let mut single = mk();
            single.set_all_rules_to(Some(false));
            let mut keys: Vec<String> = all.iter_keys().map(|s| s.to_string()).collect();
            keys.sort();
            keys.dedup();
            *g = Some(Groups { all, curated, single, nonce: 0, keys });
        }
        f(g.as_mut().unwrap())
    })
}

type Key = (usize, usize, String, String, String, u8);

fn key_of(l: &Lint, shift: usize) -> Key {
    (
        l.span.start + shift,
        l.span.end + shift,
        format!("{:?}", l.lint_kind),
        l.message.clone(),
        format!("{:?}", l.suggestions),
        l.priority,
    )
}

fn lint_text(cfg: usize, text: &str) -> Result<Vec<Lint>, String> {
    guarded(|| {
        let dict = FstDictionary::curated();
        let doc = Document::new(text, &PlainEnglish, &dict);
        with_groups(|g| {
            if cfg == 2 {
                // a brand-new group for this one lint: no per-linter memo (SpellCheck's word cache,
                // the chunk cache) has seen any other text
                let mut fresh = LintGroup::new_curated(FstDictionary::curated(), Dialect::American);
                fresh.config.fill_with_curated();
                fresh.lint(&doc)
            } else if cfg == 0 {
                // a fresh dummy key changes the config hash: no chunk-cache hit from another context
                g.all.config.unset_rule_enabled(format!("zz-c12-nonce-{}", g.nonce));
                g.nonce += 1;
                g.all.config.set_rule_enabled(format!("zz-c12-nonce-{}", g.nonce), true);
                g.all.lint(&doc)
            } else {
                g.curated.lint(&doc)
            }
        })
    })
}

/// lints of `text` with only `rule` enabled (cache defeated the same way)
fn lint_single(rule: &str, text: &str) -> Result<Vec<Lint>, String> {
    guarded(|| {
        let dict = FstDictionary::curated();
        let doc = Document::new(text, &PlainEnglish, &dict);
        with_groups(|g| {
            g.single.config.unset_rule_enabled(format!("zz-c12-nonce-{}", g.nonce));
            g.nonce += 1;
            g.single.config.set_rule_enabled(format!("zz-c12-nonce-{}", g.nonce), true);
            g.single.config.set_rule_enabled(rule, true);
            let r = g.single.lint(&doc);
            g.single.config.set_rule_enabled(rule, false);
            r
        })
    })
}

fn expected(lp: &[Lint], ld: &[Lint], plen: usize) -> Vec<Key> {
    lp.iter().map(|l| key_of(l, 0)).chain(ld.iter().map(|l| key_of(l, plen))).collect()
}

/// the comparison of the property; `None` = equal
fn compare(whole: &[Lint], lp: &[Lint], ld: &[Lint], plen: usize) -> Option<(String, String)> {
    let got: Vec<Key> = whole.iter().map(|l| key_of(l, 0)).collect();
    let want = expected(lp, ld, plen);
    let mut gs = got.clone();
    let mut ws = want.clone();
    gs.sort();
    ws.sort();
    if gs != ws {
        let only_whole: Vec<&Key> = gs.iter().filter(|k| !ws.contains(k)).collect();
        let only_parts: Vec<&Key> = ws.iter().filter(|k| !gs.contains(k)).collect();
        return Some((
            "multiset".into(),
            format!("only in lint(P+D): {:?}; only in lint(P)++shift(lint(D)): {:?}", only_whole.iter().take(3).collect::<Vec<_>>(), only_parts.iter().take(3).collect::<Vec<_>>()),
        ));
    }
    // exact order on each side of the break (a group concatenates rule by rule, so the two sides
    // interleave; within a side the order must be the order of the part's own lint list)
    let side = |ks: &[Key], first: bool| -> Vec<Key> { ks.iter().filter(|k| (k.0 < plen) == first).cloned().collect() };
    if side(&got, true) != side(&want, true) || side(&got, false) != side(&want, false) {
        return Some(("order".into(), "same lints, but their relative order within one paragraph differs".into()));
    }
    // no lint straddles the break
    if let Some(k) = got.iter().find(|k| k.0 < plen && k.1 > plen) {
        return Some(("multiset".into(), format!("lint {:?} straddles the paragraph break", k)));
    }
    None
}

fn slug(s: &str) -> String {
    s.chars().map(|c| if c.is_ascii_alphanumeric() { c } else { '-' }).collect()
}

/// which rules, run alone, violate the property on (P, D)
fn responsible_rules(p: &str, d: &str) -> Vec<String> {
    let keys = with_groups(|g| g.keys.clone());
    let whole = format!("{}{}", p, d);
    let plen = p.chars().count();
    let mut out = vec![];
    for k in keys {
        let (Ok(w), Ok(lp), Ok(ld)) = (lint_single(&k, &whole), lint_single(&k, p), lint_single(&k, d)) else {
            out.push(format!("{}(panic)", k));
            continue;
        };
        if compare(&w, &lp, &ld, plen).is_some() {
            out.push(k);
        }
    }
    out
}

fn shift_tok(t: &Token, by: usize, tok_by: usize) -> String {
    let mut t = t.clone();
    t.span.start += by;
    t.span.end += by;
    if let TokenKind::Punctuation(Punctuation::Quote(q)) = &mut t.kind {
        if let Some(tw) = q.twin_loc {
            q.twin_loc = Some(tw + tok_by);
        }
    }
    tok_show(&t)
}

pub struct PairOut {
    k: Vec<(String, String)>,
    counts: Vec<String>,
    monitors: Vec<(String, bool)>,
    fails: Vec<(String, String, Value)>,
    nontrivial: bool,
}

fn has_at_lookahead(p: &str, d: &str, tp: &[Token], tw: &[Token]) -> bool {
    // mechanism: `lex_email_address` scans to the LAST `@` of the remaining text and `lex_url`'s
    // login part to the FIRST `@`: an `@` in D changes how an address / URL inside P is lexed
    let plen = p.chars().count();
    d.contains('@')
        && (tp.iter().any(|t| matches!(t.kind, TokenKind::EmailAddress | TokenKind::Url))
            || tw.iter().any(|t| t.span.start < plen && matches!(t.kind, TokenKind::EmailAddress | TokenKind::Url)))
}

pub fn eval_pair(p: &str, d: &str, with_k: bool, only_cfg: Option<usize>, fresh: bool) -> PairOut {
    let mut out = PairOut { k: vec![], counts: vec![], monitors: vec![], fails: vec![], nontrivial: false };
    let whole = format!("{}{}", p, d);
    let plen = p.chars().count();
    let inp = |cfg: usize| json!({"P": p, "D": d, "cfg": CONFIGS[cfg]});
    // ClsOK, the laws of the class tables `lex_append` assumes, on every character seen
    {
        let law3 = whole.chars().all(|c| !c.is_numeric() || (!c.is_ascii_alphabetic() && c != '+' && c != '-'));
        let nl = !is_english_lingual('\n') && !'\n'.is_alphanumeric();
        out.monitors.push(("ClsOK (newline neither lingual nor alphanumeric; a numeric character is not an ASCII letter or sign), every character seen".into(), law3 && nl));
    }
    let dict = FstDictionary::curated();
    // ---- tokens of the three texts -------------------------------------------------------------
    let mut lexed: Vec<Option<Vec<Token>>> = vec![];
    let mut docs: Vec<Option<Vec<Token>>> = vec![];
    for text in [p, d, whole.as_str()] {
        let src: Vec<char> = text.chars().collect();
        let lx = guarded(|| PlainEnglish.parse(&src)).ok();
        let ext = lx.as_ref().map(|t| ext_field(t)).unwrap_or_default();
        let dc = guarded(|| Document::new(text, &PlainEnglish, &dict)).ok().map(|d| d.get_tokens().to_vec());
        if with_k {
            let tf = text_field(&src);
            out.k.push((format!("lex | {} | {}", tf, ext), match &lx { Some(t) => format!("ok {}", toks_show(t)).trim_end().to_string(), None => "panic".into() }));
            out.k.push((format!("doc | {} | {}", tf, ext), match &dc { Some(t) => format!("ok {}", toks_show(t)).trim_end().to_string(), None => "panic".into() }));
        }
        if with_k {
            // the piece iterators of the real document against `Harper.Chunks`
            if let Ok(doc) = guarded(|| Document::new(text, &PlainEnglish, &dict)) {
                use harper_core::TokenStringExt;
                let show = |ps: Vec<&[Token]>| -> String {
                    let v: Vec<String> = ps
                        .iter()
                        .map(|p| match (p.first(), p.last()) {
                            (Some(a), Some(b)) => format!("{}-{}/{}", a.span.start, b.span.end, p.len()),
                            _ => "e".to_string(),
                        })
                        .collect();
                    format!("ok {}", v.join(" ")).trim_end().to_string()
                };
                let tf = text_field(&src);
                out.k.push((format!("pieces par | {} | {}", tf, ext), show(doc.iter_paragraphs().collect())));
                out.k.push((format!("pieces sent | {} | {}", tf, ext), show(doc.iter_sentences().collect())));
                out.k.push((format!("pieces chunk | {} | {}", tf, ext), show(doc.iter_chunks().collect())));
            }
        }
        lexed.push(lx);
        docs.push(dc);
    }
    let boundary_ok = !d.starts_with('\n');
    out.counts.push(format!("BoundaryOK:{}", boundary_ok));
    let mut tokens_append = None;
    if let (Some(lp), Some(ld), Some(lw)) = (&lexed[0], &lexed[1], &lexed[2]) {
        // ExtLocal on the tables the model is given
        let ext = |ts: &[Token], lo: usize, hi: usize, by: usize| -> Vec<(usize, usize, String)> {
            ts.iter()
                .filter(|t| matches!(t.kind, TokenKind::Url | TokenKind::EmailAddress | TokenKind::Hostname) && t.span.start >= lo && t.span.start < hi)
                .map(|t| (t.span.start + by, t.span.end + by, kind_tag(&t.kind)))
                .collect()
        };
        let mut want = ext(lp, 0, usize::MAX, 0);
        want.extend(ext(ld, 0, usize::MAX, plen));
        let ext_local = ext(lw, 0, usize::MAX, 0) == want;
        if boundary_ok {
            let at = has_at_lookahead(p, d, lp, lw);
            if ext_local || !at {
                out.monitors.push(("ExtLocal (url/e-mail/hostname tokens of P+D = those of P, then those of D shifted)".into(), ext_local));
            } else {
                out.monitors.push(("c12-lex-at-lookahead".into(), false));
            }
            // lex_append on the real lexer
            let want: Vec<String> = lp.iter().map(|t| shift_tok(t, 0, 0)).chain(ld.iter().map(|t| shift_tok(t, plen, lp.len()))).collect();
            let got: Vec<String> = lw.iter().map(tok_show).collect();
            let ok = want == got;
            if ext_local {
                out.monitors.push(("lex_append on the real lexer (BoundaryOK ∧ ExtLocal ⇒ tokens(P+D) = tokens(P) ++ shift(tokens(D)))".into(), ok));
            }
        }
    }
    if let (Some(tp), Some(td), Some(tw)) = (&docs[0], &docs[1], &docs[2]) {
        let want: Vec<String> = tp.iter().map(|t| shift_tok(t, 0, 0)).chain(td.iter().map(|t| shift_tok(t, plen, tp.len()))).collect();
        let got: Vec<String> = tw.iter().map(tok_show).collect();
        let ok = want == got;
        tokens_append = Some(ok);
        if boundary_ok {
            out.counts.push(format!("document_append(real tokens):{}", ok));
            let lex_ok = match (&lexed[0], &lexed[1], &lexed[2]) {
                (Some(lp), Some(ld), Some(lw)) => {
                    let w: Vec<String> = lp.iter().map(|t| shift_tok(t, 0, 0)).chain(ld.iter().map(|t| shift_tok(t, plen, lp.len()))).collect();
                    w == lw.iter().map(tok_show).collect::<Vec<_>>()
                }
                _ => false,
            };
            // the TEXT-level hypotheses of the theorem `document_append`
            if let (true, Some(lp), Some(_ld)) = (lex_ok, &lexed[0], &lexed[1]) {
                let pc: Vec<char> = p.chars().collect();
                let k = pc.iter().rev().take_while(|c| **c == '\n').count();
                let para_break_end = k >= 2; // a maximal run of ≥ 2 newlines ends P
                let no_quote_chars = !pc.iter().any(|c| QUOTES.contains(c));
                // ExtNoNl: no url / e-mail / hostname token of P contains a newline
                let ext_no_nl = lp.iter().all(|t| {
                    !matches!(t.kind, TokenKind::Url | TokenKind::EmailAddress | TokenKind::Hostname)
                        || !pc[t.span.start.min(pc.len())..t.span.end.min(pc.len())].contains(&'\n')
                });
                out.monitors.push(("ExtNoNl (no url/e-mail/hostname token of P contains a newline)".into(), ext_no_nl));
                out.counts.push(format!("ParaBreakEnd:{}", para_break_end));
                if para_break_end && no_quote_chars && ext_no_nl {
                    // consequences proved in Lean from the text: the last lexer token of P is Newline(k), no quote token
                    let break_tok = matches!(lp.last().map(|t| &t.kind), Some(TokenKind::Newline(n)) if *n == k);
                    let no_quotes = !lp.iter().any(|t| matches!(t.kind, TokenKind::Punctuation(Punctuation::Quote(_))));
                    out.monitors.push(("parsePlain_ends_break / parsePlain_noQuotes on the real lexer (P ends in k ≥ 2 newlines ⇒ last token Newline(k); no quote characters ⇒ no quote token)".into(), break_tok && no_quotes));
                    out.monitors.push(("document_append: P ends in ≥2 newlines ∧ no quote character in P ∧ D does not start with a newline ∧ ExtLocal ∧ ExtNoNl ⇒ DocAppend, on the real Document::new".into(), ok));
                }
            }
            if lex_ok {
                out.monitors.push(("DocAppend on the real passes (lexer tokens append ⇒ document tokens append, quote twins shifted)".into(), ok));
            }
        }
        if td.iter().any(|t| matches!(t.kind, TokenKind::Punctuation(Punctuation::Quote(_)))) {
            out.counts.push("D-has-quotes".into());
        }
        if tp.len() >= 8 && td.len() >= 4 {
            out.nontrivial = true;
        }
    }
    // ---- the property on the real rule set ------------------------------------------------------
    for cfg in 0..CONFIGS.len() {
        if only_cfg.is_some_and(|c| c != cfg) || (cfg == 2 && !fresh && only_cfg != Some(2)) {
            continue;
        }
        // the whole first, so that a caching group cannot have seen the parts alone before
        let (Ok(lw), Ok(lp), Ok(ld)) = (lint_text(cfg, &whole), lint_text(cfg, p), lint_text(cfg, d)) else {
            out.counts.push("lint-panicked(C01's business)".into());
            continue;
        };
        out.counts.push(format!("lints-in-P:{}", lp.len().min(5)));
        out.counts.push(format!("lints-in-D:{}", ld.len().min(5)));
        if let Some((what, desc)) = compare(&lw, &lp, &ld, plen) {
            let (class, rules) = if boundary_ok && tokens_append == Some(false) {
                // the tokens already differ: a lexer / condensing look-ahead across the break
                let at = match (&lexed[0], &lexed[2]) {
                    (Some(lp_), Some(lw_)) => has_at_lookahead(p, d, lp_, lw_),
                    _ => false,
                };
                (if at { "c12-lex-at-lookahead".to_string() } else { "c12-tokens-differ".to_string() }, vec![])
            } else {
                let rules = responsible_rules(p, d);
                // D begins with k newlines: they merge with P's break into ONE token, so a lint of D
                // alone that starts ON its leading newline (a sentence-wide span) starts k characters
                // later in the whole. Exactly that and nothing else: same end, kind, message,
                // suggestions, priority; parts-lint starts at |P|, whole-lint at |P| + k.
                let k = d.chars().take_while(|c| *c == '\n').count();
                let leading_newline_only = !boundary_ok && k > 0 && {
                    let got: Vec<Key> = lw.iter().map(|l| key_of(l, 0)).collect();
                    let want = expected(&lp, &ld, plen);
                    let only_whole: Vec<&Key> = got.iter().filter(|x| !want.contains(x)).collect();
                    let only_parts: Vec<&Key> = want.iter().filter(|x| !got.contains(x)).collect();
                    !only_whole.is_empty()
                        && only_whole.len() == only_parts.len()
                        && only_parts.iter().all(|b| b.0 == plen && only_whole.iter().any(|a| a.0 == plen + k && (a.1, &a.2, &a.3, &a.4, a.5) == (b.1, &b.2, &b.3, &b.4, b.5)))
                };
                let class = if leading_newline_only {
                    "c12-leading-newline-in-span".to_string()
                } else if cfg == 2 && rules.is_empty() {
                    // reproduced only with a fresh group per lint: state carried inside a linter from
                    // the first paragraph to the second
                    "c12-linter-memo-across-paragraphs".to_string()
                } else if what == "order" && rules.is_empty() {
                    "c12-order".to_string()
                } else if rules.is_empty() {
                    "c12-unidentified".to_string()
                } else {
                    format!("c12-rule-{}{}", slug(&rules[0]), if boundary_ok { "" } else { "-leading-newline" })
                };
                (class, rules)
            };
            out.fails.push((class, format!("[{}] {} (rules responsible when run alone: {:?}) — {}", CONFIGS[cfg], what, rules, desc), inp(cfg)));
        }
    }
    out
}

fn merge(sess: &mut Session, o: PairOut, key: &str) {
    let mut case = None;
    for (op, imp) in &o.k {
        case = Some(sess.k(op, imp));
    }
    sess.o();
    for c in &o.counts {
        sess.count(c);
    }
    for (m, held) in &o.monitors {
        sess.monitor(m, *held);
    }
    if o.nontrivial {
        sess.nontrivial(key);
    }
    for (class, desc, input) in o.fails {
        sess.fail(&class, desc, input, case);
    }
}

/// first paragraphs: 1–3 rule-test sentences free of quotation marks, ending in `.`, `!` or `?`
fn first_paragraph(rng: &mut Rng, pool: &[&String]) -> String {
    let n = rng.range(1, 3);
    let mut s = String::new();
    for i in 0..n {
        if i > 0 {
            s.push(' ');
        }
        s.push_str(pool[rng.below(pool.len())]);
    }
    s
}

// =================================================================================================
// w25 additions: the property through the OTHER call sites of `LintGroup::lint` (harper-wasm's
// `Linter::lint`, harper-ls's `DocumentState::generate_diagnostics` and the real `Backend`), under
// the other configurations (every dialect, a merged dictionary with user words, `new_curated_empty_config`),
// the property's SECOND sentence evaluated directly (edit one paragraph of a three-paragraph
// document: the lints of the other paragraphs stay / move by the length change), and first
// paragraphs no generator wrote (several paragraphs, wrapped lines, non-ASCII / astral / combining /
// fullwidth words). All oracle-only.
// =================================================================================================

/// user words of the merged-dictionary configurations: case variants and apostrophes
const W25_USER_WORDS: &[&str] = &["teh", "Wrod", "RECIEVE", "zqxv", "O'Zqxv", "zqxv's", "Thier’s", "mispelled"];
const W25_STREAMS: [&str; 9] = [
    "core/all-rules-on/British/uncached",
    "core/all-rules-on/Australian/uncached",
    "core/all-rules-on/Canadian/uncached",
    "core/all-rules-on/American/merged-dictionary-with-user-words/uncached",
    "core/all-rules-on/American/merged-dictionary-with-user-words/fresh-group-per-lint",
    "wasm/Linter::lint(Plain)/American/long-lived",
    "wasm/Linter::lint(Plain)/British/import_words/long-lived",
    "wasm/Linter::lint(Plain)/American/new-Linter-per-lint",
    "ls/DocumentState::generate_diagnostics/American/merged-dictionary-with-user-words/long-lived",
];

struct W25Env {
    dialects: Vec<LintGroup>,
    merged_dict: std::sync::Arc<harper_core::MergedDictionary>,
    merged: LintGroup,
    wasm: harper_wasm::Linter,
    wasm_words: harper_wasm::Linter,
    ls: crate::document_state::DocumentState,
    nonce: u64,
}

thread_local! { static W25: RefCell<Option<W25Env>> = RefCell::new(None); }

fn w25_merged_dict() -> std::sync::Arc<harper_core::MergedDictionary> {
    let mut user = harper_core::MutableDictionary::new();
    for w in W25_USER_WORDS {
        user.append_word_str(w, harper_core::WordMetadata::default());
    }
    let mut m = harper_core::MergedDictionary::new();
    m.add_dictionary(FstDictionary::curated());
    m.add_dictionary(std::sync::Arc::new(user));
    std::sync::Arc::new(m)
}

fn with_w25<T>(f: impl FnOnce(&mut W25Env) -> T) -> T {
    W25.with(|g| {
        let mut g = g.borrow_mut();
        if g.is_none() {
            let all_on = |mut lg: LintGroup| {
                lg.config.fill_with_curated();
                lg.set_all_rules_to(Some(true));
                lg
            };
            let dialects = [Dialect::British, Dialect::Australian, Dialect::Canadian].into_iter().map(|d| all_on(LintGroup::new_curated(FstDictionary::curated(), d))).collect();
            let merged_dict = w25_merged_dict();
            let merged = all_on(LintGroup::new_curated(merged_dict.clone(), Dialect::American));
            let wasm = harper_wasm::Linter::new(harper_wasm::Dialect::American);
            let mut wasm_words = harper_wasm::Linter::new(harper_wasm::Dialect::British);
            wasm_words.import_words(W25_USER_WORDS.iter().map(|w| w.to_string()).collect());
            let ls = crate::document_state::DocumentState {
                linter: LintGroup::new_curated(merged_dict.clone(), Dialect::American),
                dict: merged_dict.clone(),
                url: tower_lsp::lsp_types::Url::parse("file:///c12.txt").unwrap(),
                ..Default::default()
            };
            *g = Some(W25Env { dialects, merged_dict, merged, wasm, wasm_words, ls, nonce: 0 });
        }
        f(g.as_mut().unwrap())
    })
}

fn w25_wasm_key(l: &harper_wasm::Lint) -> Key {
    let sugg: Vec<String> = l.suggestions().iter().map(|s| format!("{:?}:{}", s.kind(), s.get_replacement_text())).collect();
    (l.span().start, l.span().end, l.lint_kind(), l.message(), format!("{:?}", sugg), 0)
}

/// a position of a published diagnostic as ONE number that orders like (line, character)
fn w25_pos(line: u64, character: u64) -> usize {
    ((line << 24) | character.min((1 << 24) - 1)) as usize
}

fn w25_diag_keys(v: &Value) -> Vec<Key> {
    v.as_array()
        .map(|a| {
            a.iter()
                .map(|d| {
                    let p = |side: &str, f: &str| d["range"][side][f].as_u64().unwrap_or(0);
                    (
                        w25_pos(p("start", "line"), p("start", "character")),
                        w25_pos(p("end", "line"), p("end", "character")),
                        format!("{} {}", d["source"], d["code"]),
                        d["message"].as_str().unwrap_or("").to_string(),
                        String::new(),
                        d["severity"].as_u64().unwrap_or(0) as u8,
                    )
                })
                .collect()
        })
        .unwrap_or_default()
}

/// the lints of `text` through stream `s` of `W25_STREAMS`, as keys in that stream's coordinates
/// (characters for harper-core and harper-wasm, (line, UTF-16 column) for harper-ls)
fn w25_lint(s: usize, text: &str) -> Result<Vec<Key>, String> {
    guarded(|| {
        with_w25(|e| {
            e.nonce += 1;
            let nonce = e.nonce;
            let mut uncached = |g: &mut LintGroup, doc: &Document| -> Vec<Key> {
                g.config.unset_rule_enabled(format!("zz-c12-w25-nonce-{}", nonce - 1));
                g.config.set_rule_enabled(format!("zz-c12-w25-nonce-{}", nonce), true);
                let r = g.lint(doc).iter().map(|l| key_of(l, 0)).collect();
                g.config.unset_rule_enabled(format!("zz-c12-w25-nonce-{}", nonce));
                r
            };
            match s {
                0..=2 => {
                    let dict = FstDictionary::curated();
                    let doc = Document::new(text, &PlainEnglish, &dict);
                    uncached(&mut e.dialects[s], &doc)
                }
                3 => {
                    let doc = Document::new(text, &PlainEnglish, e.merged_dict.as_ref());
                    uncached(&mut e.merged, &doc)
                }
                4 => {
                    let dict = w25_merged_dict();
                    let doc = Document::new(text, &PlainEnglish, dict.as_ref());
                    let mut g = LintGroup::new_curated(dict.clone(), Dialect::American);
                    g.config.fill_with_curated();
                    g.set_all_rules_to(Some(true));
                    g.lint(&doc).iter().map(|l| key_of(l, 0)).collect()
                }
                5 => e.wasm.lint(text.to_string(), harper_wasm::Language::Plain).iter().map(w25_wasm_key).collect(),
                6 => e.wasm_words.lint(text.to_string(), harper_wasm::Language::Plain).iter().map(w25_wasm_key).collect(),
                7 => harper_wasm::Linter::new(harper_wasm::Dialect::American).lint(text.to_string(), harper_wasm::Language::Plain).iter().map(w25_wasm_key).collect(),
                _ => {
                    e.ls.document = Document::new(text, &PlainEnglish, e.merged_dict.as_ref());
                    let d = e.ls.generate_diagnostics(crate::config::DiagnosticSeverity::Hint);
                    w25_diag_keys(&serde_json::to_value(d).unwrap_or(Value::Null))
                }
            }
        })
    })
}

/// `compare` on keys that are already in the whole text's coordinates; `cut` = where D begins
fn w25_compare(got: &[Key], want: &[Key], cut: usize) -> Option<(String, String)> {
    let mut gs = got.to_vec();
    let mut ws = want.to_vec();
    gs.sort();
    ws.sort();
    if gs != ws {
        let only_whole: Vec<&Key> = gs.iter().filter(|k| !ws.contains(k)).take(3).collect();
        let only_parts: Vec<&Key> = ws.iter().filter(|k| !gs.contains(k)).take(3).collect();
        return Some(("multiset".into(), format!("only in lint(P+D): {:?}; only in lint(P)++shift(lint(D)): {:?}", only_whole, only_parts)));
    }
    let side = |ks: &[Key], first: bool| -> Vec<Key> { ks.iter().filter(|k| (k.0 < cut) == first).cloned().collect() };
    if side(got, true) != side(want, true) || side(got, false) != side(want, false) {
        return Some(("order".into(), "same lints, but their relative order within one paragraph differs".into()));
    }
    if let Some(k) = got.iter().find(|k| k.0 < cut && k.1 > cut) {
        return Some(("multiset".into(), format!("lint {:?} straddles the paragraph break", k)));
    }
    None
}

/// the matcher of the recorded finding `c12-lex-at-lookahead`, for a text `head + tail`
fn w25_known_at(head: &str, tail: &str) -> bool {
    if tail.starts_with('\n') || !tail.contains('@') {
        return false;
    }
    let dict = FstDictionary::curated();
    let whole = format!("{}{}", head, tail);
    let hlen = head.chars().count();
    let lex = |t: &str| guarded(|| PlainEnglish.parse(&t.chars().collect::<Vec<char>>())).unwrap_or_default();
    let doc = |t: &str| guarded(|| Document::new(t, &PlainEnglish, &dict)).map(|d| d.get_tokens().to_vec()).unwrap_or_default();
    let (tp, td, tw) = (doc(head), doc(tail), doc(&whole));
    let want: Vec<String> = tp.iter().map(|t| shift_tok(t, 0, 0)).chain(td.iter().map(|t| shift_tok(t, hlen, tp.len()))).collect();
    let differ = want != tw.iter().map(tok_show).collect::<Vec<_>>();
    differ && has_at_lookahead(head, tail, &lex(head), &lex(&whole))
}

/// the property's first sentence through stream `s`: lint(P+D) = lint(P) ++ shift(lint(D))
fn w25_eval_pair(s: usize, p: &str, d: &str) -> PairOut {
    let mut out = PairOut { k: vec![], counts: vec![], monitors: vec![], fails: vec![], nontrivial: false };
    let name = W25_STREAMS[s];
    let whole = format!("{}{}", p, d);
    // the whole first: a long-lived instance cannot have seen the parts alone before
    let (Ok(lw), Ok(lp), Ok(ld)) = (w25_lint(s, &whole), w25_lint(s, p), w25_lint(s, d)) else {
        out.counts.push(format!("w25:{}:lint-panicked(C01's business)", name));
        return out;
    };
    out.counts.push(format!("w25:{}:pairs", name));
    out.counts.push(format!("w25:{}:lints-in-whole:{}", name, lw.len().min(5)));
    // where D begins, and by how much D's lints move, in this stream's coordinates
    let shift = if name.starts_with("ls/") { w25_pos(p.chars().filter(|c| *c == '\n').count() as u64, 0) } else { p.chars().count() };
    let mut want = lp.clone();
    want.extend(ld.iter().map(|k| (k.0 + shift, k.1 + shift, k.2.clone(), k.3.clone(), k.4.clone(), k.5)));
    if !lp.is_empty() && !ld.is_empty() {
        out.nontrivial = true;
    }
    if let Some((what, desc)) = w25_compare(&lw, &want, shift) {
        let class = if w25_known_at(p, d) { "c12-lex-at-lookahead".to_string() } else { format!("c12-callsite-{}-{}", slug(name.split('/').next().unwrap_or("")), what) };
        out.fails.push((class, format!("[{}] {} — {}", name, what, desc), json!({"P": p, "D": d, "w25_stream": name})));
    }
    out
}

/// The property's SECOND sentence, directly: the text `paras[0] + … + paras[n-1]` and the same
/// text with paragraph `idx` replaced by `repl`. Every paragraph but the last is complete (ends
/// in a terminator and a paragraph break) and free of quotation marks, before and after the edit.
/// Then every lint outside the edited paragraph is there before and after, in the same order, the
/// ones behind it moved by the length change, and none reaches into the edited paragraph.
fn w25_eval_edit(s: Option<usize>, cfg: usize, paras: &[String], idx: usize, repl: &str) -> PairOut {
    let mut out = PairOut { k: vec![], counts: vec![], monitors: vec![], fails: vec![], nontrivial: false };
    let name = match s {
        Some(s) => W25_STREAMS[s],
        None => CONFIGS[cfg],
    };
    let before: String = paras.concat();
    let after: String = paras.iter().enumerate().map(|(i, x)| if i == idx { repl } else { x.as_str() }).collect();
    let lint = |t: &str| -> Result<Vec<Key>, String> {
        match s {
            Some(s) => w25_lint(s, t),
            None => lint_text(cfg, t).map(|v| v.iter().map(|l| key_of(l, 0)).collect()),
        }
    };
    // the editor's order: the document, then the edited document
    let (Ok(l0), Ok(l1)) = (lint(&before), lint(&after)) else {
        out.counts.push(format!("w25:edit:{}:lint-panicked(C01's business)", name));
        return out;
    };
    let ls = name.starts_with("ls/");
    let measure = |t: &str| if ls { w25_pos(t.chars().filter(|c| *c == '\n').count() as u64, 0) } else { t.chars().count() };
    let start = measure(&paras[..idx].concat());
    // nothing is behind the last paragraph (and in (line, column) coordinates its end is not a line start)
    let last = idx + 1 == paras.len();
    let old_end = if last { usize::MAX / 2 } else { measure(&paras[..=idx].concat()) };
    let new_end = if last { usize::MAX / 2 } else { measure(&format!("{}{}", paras[..idx].concat(), repl)) };
    out.counts.push(format!("w25:edit:{}:edits", name));
    out.counts.push(format!("w25:edit:paragraph-{}-of-{}{}", idx + 1, paras.len(), if repl.is_empty() { ":deleted" } else { "" }));
    let head = |ks: &[Key]| -> Vec<Key> { ks.iter().filter(|k| k.1 <= start && k.0 < start).cloned().collect() };
    let tail = |ks: &[Key], from: usize| -> Vec<Key> { ks.iter().filter(|k| k.0 >= from).map(|k| (k.0 - from, k.1 - from, k.2.clone(), k.3.clone(), k.4.clone(), k.5)).collect() };
    let reaches = |ks: &[Key], a: usize, b: usize| ks.iter().find(|k| (k.0 < a && k.1 > a) || (k.0 < b && k.1 > b)).cloned();
    let (h0, h1, t0, t1) = (head(&l0), head(&l1), tail(&l0, old_end), tail(&l1, new_end));
    if !h0.is_empty() || !t0.is_empty() {
        out.nontrivial = true;
    }
    let input = json!({"paragraphs": paras, "edit": idx, "replacement": repl, "w25_stream": name});
    let known_at = (0..paras.len()).any(|i| w25_known_at(&paras[..i].concat(), &paras[i..].concat())) || {
        let e: Vec<String> = paras.iter().enumerate().map(|(i, x)| if i == idx { repl.to_string() } else { x.clone() }).collect();
        (0..e.len()).any(|i| w25_known_at(&e[..i].concat(), &e[i..].concat()))
    };
    let mut fail = |what: &str, desc: String| {
        let class = if known_at { "c12-lex-at-lookahead".to_string() } else { format!("c12-edit-{}", what) };
        out.fails.push((class, format!("[{}] editing paragraph {} of {}: {}", name, idx + 1, paras.len(), desc), input.clone()));
    };
    if h0 != h1 {
        let mut a = h0.clone();
        let mut b = h1.clone();
        a.sort();
        b.sort();
        if a == b {
            fail("order", "the lints BEFORE the edited paragraph are the same but in another order".into());
        } else {
            fail("changes-earlier-paragraph", format!("the lints before the edited paragraph changed: only before the edit {:?}; only after the edit {:?}", h0.iter().filter(|k| !h1.contains(k)).take(3).collect::<Vec<_>>(), h1.iter().filter(|k| !h0.contains(k)).take(3).collect::<Vec<_>>()));
        }
    } else if t0 != t1 {
        let mut a = t0.clone();
        let mut b = t1.clone();
        a.sort();
        b.sort();
        if a == b {
            fail("order", "the lints BEHIND the edited paragraph are the same but in another order".into());
        } else {
            fail("changes-later-paragraph", format!("the lints behind the edited paragraph changed other than by the length change (positions relative to the end of the edited paragraph): only before the edit {:?}; only after the edit {:?}", t0.iter().filter(|k| !t1.contains(k)).take(3).collect::<Vec<_>>(), t1.iter().filter(|k| !t0.contains(k)).take(3).collect::<Vec<_>>()));
        }
    } else if let Some(k) = reaches(&l0, start, old_end).or(reaches(&l1, start, new_end)) {
        fail("straddles", format!("lint {:?} reaches across a boundary of the edited paragraph", k));
    }
    out
}

/// a complete paragraph free of quotation marks: 1–3 sentences, on one line or wrapped, then a break
fn w25_paragraph(rng: &mut Rng, pool: &[&String]) -> String {
    let n = rng.range(1, 3);
    let joint = if rng.chance(1, 4) { "\n" } else { " " };
    let mut s = String::new();
    for i in 0..n {
        if i > 0 {
            s.push_str(joint);
        }
        s.push_str(pool[rng.below(pool.len())]);
    }
    s.push_str(*rng.pick(&["\n\n", "\n\n", "\n\n\n", " \n\n"]));
    s
}

/// sentences (ending in a terminator, no quotation marks) in characters no rule test uses
const W25_EXOTIC: &[&str] = &[
    "Café déjà vu is an naïve façade.",
    "The 😀 emoji and the 👩‍👩‍👧 family are are here.",
    "An 𝐛𝐨𝐥𝐝 word and an 𝓈cript word.",
    "ｆｕｌｌｗｉｄｔｈ ｌｅｔｔｅｒｓ are an ｔｅｓｔ.",
    "A de\u{301}ja\u{300} vu with combining marks, teh e\u{301}nd.",
    "中文 and 한국어 and العربية in an sentence.",
    "It costs 5 € or £ 5 or ٣ dinars!",
    "Zero\u{200b}width and soft\u{ad}hyphen and nbsp\u{a0}here?",
    "Straße İstanbul ǅ ﬁ ½ teh.",
    "An 𝟏st and a １st and a 1ˢᵗ.",
];

const W25_DIALECT_WORDS: &[(&str, &str)] = &[("color", "colour"), ("center", "centre"), ("realize", "realise"), ("labor", "labour"), ("traveler", "traveller"), ("gray", "grey")];

/// first paragraphs and further texts no generator wrote
fn w25_families(rng: &mut Rng, pool: &[&String], thorough: bool) -> Vec<(String, String)> {
    let mut v: Vec<(String, String)> = vec![];
    let long_word: String = "pneumono".repeat(60);
    let long_doc = |rng: &mut Rng| -> String { (0..60).map(|_| pool[rng.below(pool.len())].as_str()).collect::<Vec<_>>().join(" ") };
    let ds: Vec<String> = vec![
        "".into(), " ".into(), "\t".into(), "  \t  ".into(), "There is an test.".into(), "teh Teh TEH.".into(),
        "Line one is an test.\r\nLine two.\r\n".into(), "Line one.\rLine two is an test.\r".into(), "\r\nStarts with CRLF.".into(),
        format!("A very long word {} is here.", long_word), long_word.clone(),
        "Second one is an test.\n\nThird one is an test.\n\nFourth one is an test.".into(),
        "1st 1st 1st e.g. e.g. N.S.A. N.S.A. ... ... don't don't.".into(),
    ];
    // the same word in the spelling of two dialects in both paragraphs (which one is flagged, and with
    // which suggestions, depends on the dialect of the group: the dialect streams pick these up)
    for (us, uk) in W25_DIALECT_WORDS {
        for (a, b) in [(us, uk), (uk, us), (us, us), (uk, uk)] {
            v.push((format!("I like the {} here.\n\n", a), format!("The {} is nice, and the {} too.", b, a)));
        }
    }
    // every exotic sentence as P (alone and behind an ordinary sentence) × every special D
    for (i, x) in W25_EXOTIC.iter().enumerate() {
        for (j, d) in ds.iter().enumerate() {
            if thorough || (i + j) % 3 == 0 {
                v.push((format!("{}\n\n", x), d.clone()));
                v.push((format!("This are a test. {}\n\n", x), format!("{} {}", W25_EXOTIC[(i + j) % W25_EXOTIC.len()], d)));
            }
        }
    }
    let n = if thorough { 3000 } else { 400 };
    for i in 0..n {
        // P of several paragraphs / wrapped lines; now and then with an exotic sentence inside
        let mut p = String::new();
        for _ in 0..rng.range(1, 3) {
            p.push_str(&w25_paragraph(rng, pool));
        }
        if i % 4 == 0 {
            p = format!("{} {}", rng.pick(W25_EXOTIC), p);
        }
        let d = match i % 6 {
            0 => ds[rng.below(ds.len())].clone(),
            1 => long_doc(rng),
            2 => format!("{}{}", w25_paragraph(rng, pool), textgen::sentence(rng)),
            3 => format!("{} {}", rng.pick(W25_EXOTIC), textgen::sentence(rng)),
            4 => textgen::sentence(rng).replace(' ', if rng.chance(1, 2) { "\r\n" } else { "  " }),
            _ => textgen::text(rng),
        };
        v.push((p, d));
    }
    v
}

/// The property at the real server: P+D, P and D open at once as three `plaintext` documents of
/// one harper-ls `Backend`; then the first document is edited (another first paragraph): what is
/// published for P+D is what is published for P, then what is published for D moved down by P's
/// line count.
fn w25_server(sess: &mut Session, ctx: &Ctx, pairs: &[(String, String, String)]) -> Result<(), crate::lsclient::LsError> {
    use crate::lsclient::*;
    set_home(&ctx.out.join("c12-home"));
    let cfg = json!({"harper-ls": {}});
    let mut ls = LsSession::start()?;
    ls.initialize(&cfg)?;
    let (uw, up, ud) = ("file:///c12-server/whole.txt".to_string(), "file:///c12-server/p.txt".to_string(), "file:///c12-server/d.txt".to_string());
    let mut ver = 1i64;
    for (n, (p, p2, d)) in pairs.iter().enumerate() {
        for (step, first) in [p, p2].into_iter().enumerate() {
            let whole = format!("{}{}", first, d);
            if n == 0 && step == 0 {
                ls.notify("textDocument/didOpen", did_open(&uw, "plaintext", &whole))?;
                ls.notify("textDocument/didOpen", did_open(&up, "plaintext", first))?;
                ls.notify("textDocument/didOpen", did_open(&ud, "plaintext", d))?;
            } else {
                ver += 1;
                ls.notify("textDocument/didChange", did_change(&uw, ver, &whole))?;
                ls.notify("textDocument/didChange", did_change(&up, ver, first))?;
                if step == 0 {
                    ls.notify("textDocument/didChange", did_change(&ud, ver, d))?;
                }
            }
            ls.quiesce(&cfg)?;
            let get = |ls: &LsSession, u: &str| ls.last_publication(u).map(w25_diag_keys);
            let (Some(lw), Some(lp), Some(ld)) = (get(&ls, &uw), get(&ls, &up), get(&ls, &ud)) else {
                sess.count("w25:server:no-publication");
                continue;
            };
            sess.o();
            sess.count("w25:server/Backend/plaintext/three-documents-open:pairs");
            sess.count(if step == 0 { "w25:server:new-pair" } else { "w25:server:first-paragraph-edited" });
            let shift = w25_pos(first.chars().filter(|c| *c == '\n').count() as u64, 0);
            let mut want = lp.clone();
            want.extend(ld.iter().map(|k| (k.0 + shift, k.1 + shift, k.2.clone(), k.3.clone(), k.4.clone(), k.5)));
            if !lp.is_empty() && !ld.is_empty() {
                sess.nontrivial(&format!("server\u{0}{}", whole));
            }
            if let Some((what, desc)) = w25_compare(&lw, &want, shift) {
                let class = if w25_known_at(first, d) { "c12-lex-at-lookahead".to_string() } else { format!("c12-callsite-server-{}", what) };
                sess.fail(&class, format!("[harper-ls Backend, plaintext, three documents open] {} — {}", what, desc), json!({"P": first, "D": d, "w25_stream": "server"}), None);
            }
        }
    }
    ls.shutdown(&cfg)?;
    Ok(())
}

/// all w25 streams; called from `run` with the pair list of the main stream
fn w25_run(sess: &mut Session, ctx: &Ctx, rng: &mut Rng, pool: &[&String], pairs: &[(String, String)], n_corpus: usize) {
    let thorough = ctx.tier == Tier::Thorough;
    // ---- 1. the other call sites / configurations on pairs of the main stream -------------------
    // (pairs whose D starts with a newline belong to the recorded finding of the main stream)
    let eligible: Vec<usize> = (0..pairs.len()).filter(|i| !pairs[*i].1.starts_with('\n')).collect();
    let mut jobs: Vec<(usize, usize)> = vec![]; // (stream, pair)
    let per_stream = if thorough { 4000 } else { 260 };
    for s in 0..W25_STREAMS.len() {
        let costly = W25_STREAMS[s].contains("per-lint");
        let want = if costly { per_stream / 4 } else { per_stream };
        // the corpus witnesses of the memo seeds (same word in two letter cases) always; the rest sampled
        let mut picked: Vec<usize> = eligible.iter().copied().filter(|i| *i < n_corpus && pairs[*i].0.len() < 40 && CASE_TYPOS.iter().any(|(a, b)| pairs[*i].1.contains(a) || pairs[*i].1.contains(b))).collect();
        if costly {
            picked.truncate(24);
        }
        picked.extend(eligible.iter().copied().filter(|i| pairs[*i].0.starts_with("I like the ") && W25_DIALECT_WORDS.iter().any(|(a, b)| pairs[*i].0.contains(a) || pairs[*i].0.contains(b))).take(if costly { 8 } else { 24 }));
        while picked.len() < want {
            picked.push(eligible[rng.below(eligible.len())]);
        }
        jobs.extend(picked.into_iter().map(|i| (s, i)));
    }
    let outs = par_map(jobs.len(), 16, |j| w25_eval_pair(jobs[j].0, &pairs[jobs[j].1].0, &pairs[jobs[j].1].1));
    for (j, o) in outs.into_iter().enumerate() {
        let key = format!("w25\u{0}{}\u{0}{}\u{0}{}", jobs[j].0, pairs[jobs[j].1].0, pairs[jobs[j].1].1);
        merge(sess, o, &key);
    }
    // ---- 2. the second sentence: edit one paragraph of a three-paragraph document -----------------
    struct Edit {
        s: Option<usize>,
        cfg: usize,
        paras: Vec<String>,
        idx: usize,
        repl: String,
    }
    let mut edits: Vec<Edit> = vec![];
    let nedit = if thorough { 3000 } else { 300 };
    let targets: [(Option<usize>, usize); 6] = [(None, 0), (None, 1), (Some(3), 0), (Some(5), 0), (Some(6), 0), (Some(8), 0)];
    let mut add = |edits: &mut Vec<Edit>, n: usize, paras: Vec<String>, idx: usize, repl: String| {
        let (s, cfg) = targets[n % targets.len()];
        edits.push(Edit { s, cfg, paras, idx, repl });
    };
    // corpus: the witnesses of the seeded changes as edits
    let mut n = 0;
    for (a, b, c, idx, r) in [
        ("This is the 1st draft.\n\n", "Here is the 2nd draft.\n\n", "And the 3rd one.", 0usize, "This is the first draft.\n\n"),
        ("The prices went up again this week.\n\n", "That is fine.\n\n", "$ 20 is too much for a sandwich.", 1, ""),
        ("I saw teh dog in the park.\n\n", "It was happy.\n\n", "Teh dog was happy to see me.", 0, "I saw the dog in the park.\n\n"),
        ("We bought apples, pears, etc.\n\n", "We bought apples.\n\n", "Is it good?", 1, "We bought pears, etc.\n\n"),
        ("This is an test.\n\n", "This are a test.\n\n", "There is an test.", 1, "😀 𝐛𝐨𝐥𝐝 ｆｕｌｌ are an test!\n\n"),
        ("This is an test.\n\n", "This are a test.\n\n", "There is an test.", 2, ""),
        ("This is an test.\n\n", "This are a test.\n\n", "There is an test.", 0, ""),
    ] {
        for _ in 0..targets.len() {
            add(&mut edits, n, vec![a.to_string(), b.to_string(), c.to_string()], idx, r.to_string());
            n += 1;
        }
    }
    for i in 0..nedit {
        let np = rng.range(2, 4);
        let mut paras: Vec<String> = (0..np).map(|_| w25_paragraph(rng, pool)).collect();
        if i % 5 == 0 {
            let k = rng.below(np);
            paras[k] = format!("{} {}", rng.pick(W25_EXOTIC), paras[k]);
        }
        if i % 3 == 0 {
            // the last paragraph: any further text that does not start with a newline
            let t = textgen::sentence(rng);
            paras[np - 1] = t;
        }
        let idx = rng.below(np);
        let last = idx == np - 1;
        let repl = match rng.below(6) {
            0 => String::new(),
            1 => format!("{}{}", w25_paragraph(rng, pool), w25_paragraph(rng, pool)),
            2 => format!("{} {}", rng.pick(W25_EXOTIC), w25_paragraph(rng, pool)),
            3 if last => textgen::sentence(rng),
            4 => {
                // a one-word edit of the paragraph itself (the usual keystroke): a typo goes in or out
                let x = &paras[idx];
                if x.contains(" the ") { x.replacen(" the ", " teh ", 1) } else { x.replacen(' ', " teh ", 1) }
            }
            _ => w25_paragraph(rng, pool),
        };
        if repl.starts_with('\n') {
            continue;
        }
        add(&mut edits, i, paras, idx, repl);
    }
    let outs = par_map(edits.len(), 16, |j| w25_eval_edit(edits[j].s, edits[j].cfg, &edits[j].paras, edits[j].idx, &edits[j].repl));
    for (j, o) in outs.into_iter().enumerate() {
        let key = format!("w25-edit\u{0}{:?}\u{0}{}\u{0}{}", edits[j].paras, edits[j].idx, edits[j].repl);
        merge(sess, o, &key);
    }
}

pub fn run(ctx: &Ctx) {
    let mut sess = Session::new(ctx);
    let mut rng = Rng::new(ctx.seed);
    if let Some(v) = replay_input(ctx) {
        if crate::rules::replay(&mut sess, &v) || crate::leaves::replay(&mut sess, &v) || crate::prules::replay(&mut sess, &v) || crate::rules2::replay(&mut sess, &v) || crate::mrules::replay(&mut sess, &v) {
            sess.nontrivial("replay-a");
            sess.nontrivial("replay-b");
            sess.finish("replay of one recorded rule input", false, json!({}));
            return;
        }
        // w25 replay kinds: an edit (`paragraphs`, `edit`, `replacement`) or a pair through one of the w25 streams
        if let Some(name) = v["w25_stream"].as_str() {
            let s = W25_STREAMS.iter().position(|x| *x == name);
            let cfg = CONFIGS.iter().position(|x| *x == name).unwrap_or(0);
            if let Some(ps) = v["paragraphs"].as_array() {
                let paras: Vec<String> = ps.iter().map(|x| x.as_str().unwrap_or("").to_string()).collect();
                let idx = (v["edit"].as_u64().unwrap_or(0) as usize).min(paras.len().saturating_sub(1));
                if !paras.is_empty() {
                    let o = w25_eval_edit(s, cfg, &paras, idx, v["replacement"].as_str().unwrap_or(""));
                    merge(&mut sess, o, "replay");
                }
            } else {
                let p = v["P"].as_str().unwrap_or("").to_string();
                let d = v["D"].as_str().unwrap_or("").to_string();
                if name == "server" {
                    let _ = w25_server(&mut sess, ctx, &[(p.clone(), p.clone(), d.clone())]);
                } else if let Some(s) = s {
                    let o = w25_eval_pair(s, &p, &d);
                    merge(&mut sess, o, "replay");
                }
            }
            sess.nontrivial("replay-a");
            sess.nontrivial("replay-b");
            sess.finish("replay of one recorded input of a w25 stream", false, json!({}));
            return;
        }
        let p = v["P"].as_str().unwrap_or("").to_string();
        let d = v["D"].as_str().unwrap_or("").to_string();
        let cfg = v["cfg"].as_str().and_then(|c| CONFIGS.iter().position(|x| *x == c));
        let o = eval_pair(&p, &d, true, cfg, cfg == Some(2));
        merge(&mut sess, o, "replay");
        sess.nontrivial("replay-a");
        sess.nontrivial("replay-b");
        sess.finish("replay of one recorded (P, D) pair", false, json!({}));
        return;
    }
    let pool: Vec<&String> = corpus::sentences()
        .iter()
        .filter(|s| !s.chars().any(|c| QUOTES.contains(&c)) && s.trim_end().ends_with(['.', '!', '?']) && s.trim_end().len() == s.len())
        .collect();
    sess.add("first-paragraph-sentence-pool", pool.len() as u64);
    // w25: the property at the real server (first: `set_home` wants no other thread running yet)
    let mut w25_secs: BTreeMap<&str, f64> = BTreeMap::new();
    let t_w25 = std::time::Instant::now();
    {
        let mut r2 = Rng::new(ctx.seed ^ 0x7725);
        let mut sp: Vec<(String, String, String)> = vec![
            ("I saw teh dog in the park.\n\n".into(), "I saw the dog in the park. It was an test.\n\n\n".into(), "Teh dog was happy to see me.".into()),
            ("We bought apples, pears, etc.\n\n".into(), "We bought 😀 𝐛𝐨𝐥𝐝 apples, etc.\nAnd an pear.\n\n".into(), "Is it good? $ 20 is too much.\r\nThere is an test.".into()),
        ];
        for _ in 0..(if ctx.tier == Tier::Thorough { 40 } else { 6 }) {
            sp.push((w25_paragraph(&mut r2, &pool), format!("{}{}", w25_paragraph(&mut r2, &pool), w25_paragraph(&mut r2, &pool)), textgen::sentence(&mut r2)));
        }
        if let Err(e) = w25_server(&mut sess, ctx, &sp) {
            sess.sample(json!({"w25 server stream failed": format!("{:?}", e)}));
            sess.count("w25:server:stream-error");
        }
    }
    w25_secs.insert("server stream", t_w25.elapsed().as_secs_f64());
    let seps = ["\n\n", "\n\n\n", " \n\n", "\n\n", "\n\n", " \t\n\n", "\t \n\n\n", " \t \n\n"];
    let mut pairs: Vec<(String, String)> = vec![];
    // 1. corpus: the witnesses of the theorems' conditions and of past findings
    let p0 = "I have 5.\n\n";
    for d in [
        "3 apples.", "\nfoo", "\n\nSecond one.", "@home now.", ": colon", "lower case start.", "\"Quoted\" text and \"more.", "", " leading space", "e.g. this",
        "st", "'s", ".", "...", "al. et", "th place", "1st", "a@b.c", "x@y", "x:y //", "1", "e5", ".5", "s", "0s", "]", "-z]", "There is an test.",
    ] {
        pairs.push((p0.to_string(), d.to_string()));
        pairs.push(("See e.g.\n\n".to_string(), d.to_string()));
        pairs.push(("Mail bob@example.com now.\n\n".to_string(), d.to_string()));
        pairs.push(("See http://example.com/a for an details.\n\n".to_string(), d.to_string()));
        pairs.push(("He said et.\n\n".to_string(), d.to_string()));
        pairs.push(("It was the 1.\n\n".to_string(), d.to_string()));
        pairs.push(("This are a.\n\n".to_string(), d.to_string()));
    }
    // witnesses of the recorded finding `c12-lex-at-lookahead`
    pairs.push(("Write to zqxv@example.com today.\n\n".to_string(), "Ping @alice.".to_string()));
    pairs.push(("See http://example.com/zqxv for details.\n\n".to_string(), "Mail me @home.".to_string()));
    // regression witnesses of the REPAIRED finding `c12-condense-spaces-skip` (128f7ba) and neighbours: all must pass
    for (p, d) in [
        ("This is fine. \t\n\n", " \tfoo bar."), ("This is fine.\t \n\n", "\t \tfoo bar."), ("This is fine. \t \t \t\n\n", " \tfoo."),
        ("This is fine. \t \n\n", " \tfoo bar."), ("This is fine. \n\n", " \tfoo bar."), ("This is fine. \t\n\n", " foo bar."), ("This is fine. \t \t\n\n", " \tfoo bar."),
    ] {
        pairs.push((p.to_string(), d.to_string()));
    }
    // the same unknown word in both paragraphs in different letter case (a per-document memo keyed
    // by a normalised word makes the second paragraph's suggestions depend on the first)
    for (a, b) in CASE_TYPOS {
        for (x, y) in [(a, b), (b, a), (a, a)] {
            pairs.push((format!("I saw {} cat here.\n\n", x), format!("{} dog barked at {}.", y, x)));
            pairs.push((format!("{} is wrong.\n\n", x), format!("So is {} again.", y)));
        }
    }
    let n_corpus = pairs.len();
    // 2. small scope: every separator × every curated opening of D, on a fixed first paragraph
    let openings = [
        "\n", "\n\n", " ", "\t", "1", "12th", "@", ":", "a", "the the", "\"", "“q”", "'", ".", ",", "!", "-", "[a-z]", "0x1F", "1980s", "e.g.", "et al.", "etc.", "I", "i",
        // openings that rules look BEHIND from (a rule that slides a window over the whole document sees the
        // previous paragraph's break / terminator as the token before these)
        "$ 20 ", "20 $ ", "€ 5 ", "5 € ", "£5 ", "5 % ", "# 5 ", "— ", "… ", ") ", "( ", ", ", "; ", "of ", "and ", "to ", "an ", "a ", "than ", "then ", "it's ", "its ", "there ", "their ",
    ];
    for sep in ["\n\n", "\n\n\n", " \n\n", "\t\n\n", "\n\n\n\n"] {
        for o in openings {
            for tail in ["", " is an test of the the harness.", "Second paragraph here."] {
                pairs.push((format!("This is an test.{}", sep), format!("{}{}", o, tail)));
            }
        }
    }
    let n_small = pairs.len();
    // 3. structured random
    let nrand = if ctx.tier == Tier::Thorough { 30000 } else { 6000 };
    for i in 0..nrand {
        let p = format!("{}{}", first_paragraph(&mut rng, &pool), seps[rng.below(seps.len())]);
        let d = match i % 8 {
            0 => textgen::sentence(&mut rng),
            1 => format!("{}{}", rng.pick(&openings), textgen::sentence(&mut rng)),
            2 => {
                let s = textgen::sentence(&mut rng);
                let mut cs: Vec<char> = s.chars().collect();
                if let Some(c) = cs.first_mut() {
                    *c = c.to_lowercase().next().unwrap_or(*c);
                }
                cs.into_iter().collect()
            }
            3 => format!("{} {}", rng.pick(textgen::SPICE), textgen::prose(&mut rng)),
            4 => format!("{}{}", rng.pick(&[" \t", "\t ", " \t ", "  ", "\t\t ", " \t \t"]), textgen::sentence(&mut rng)),
            _ => textgen::text(&mut rng),
        };
        // the same condensable construct in BOTH paragraphs (every pass that merges tokens and
        // re-indexes the rest must leave the other paragraph alone)
        let (p, d) = if i % 3 == 0 {
            let items = ["1st", "22nd", "103rd", "e.g.", "N.S.A.", "don't", "...", "etc.", "et al.", "3.5", "0x1F", "1980s", "a.m.", "it's", "5's", "[a-z]"];
            let inject = |rng: &mut Rng, text: &str, item: &str| -> String {
                let cs: Vec<char> = text.chars().collect();
                let spaces: Vec<usize> = cs.iter().enumerate().filter(|(_, c)| **c == ' ').map(|(i, _)| i).collect();
                if spaces.is_empty() {
                    return format!("{} {}", item, text);
                }
                let at = spaces[rng.below(spaces.len())];
                let mut out: String = cs[..at].iter().collect();
                out.push(' ');
                out.push_str(item);
                out.extend(cs[at..].iter());
                out
            };
            let (a, b) = if i % 9 == 3 {
                let (x, y) = *rng.pick(CASE_TYPOS);
                if rng.chance(1, 2) { (x, y) } else { (y, x) }
            } else {
                let a = *rng.pick(&items);
                (a, if rng.chance(1, 2) { a } else { *rng.pick(&items) })
            };
            (inject(&mut rng, &p, a), inject(&mut rng, &d, b))
        } else {
            (p, d)
        };
        pairs.push((p, d));
    }
    // w25: first paragraphs / further texts no generator above writes (appended: the pairs above stay as they were)
    let n_random_end = pairs.len();
    {
        let mut r2 = Rng::new(ctx.seed ^ 0x2577);
        pairs.extend(w25_families(&mut r2, &pool, ctx.tier == Tier::Thorough));
    }
    // a fresh group per lint is costly: the corpus, and a slice of the random pairs (the ones with the
    // same construct / the same unknown word injected in both paragraphs fall on i % 9 == 3)
    let fresh_every = if ctx.tier == Tier::Thorough { 9 } else { 45 };
    let with_k_every = if ctx.tier == Tier::Thorough { 1 } else { 1 };
    let t_main = std::time::Instant::now();
    // w25: the very long family texts cost the Lean model of the K step more than the whole rest of the
    // run; in the quick tier they are evaluated by the oracle (all three configurations) without K lines
    // (thorough tier: every eighth of them keeps its K lines)
    let k_too_long = |i: usize| i >= n_random_end && (ctx.tier != Tier::Thorough || i % 8 != 0) && pairs[i].0.len() + pairs[i].1.len() > 600;
    let outs = par_map(pairs.len(), 16, |i| eval_pair(&pairs[i].0, &pairs[i].1, i % with_k_every == 0 && !k_too_long(i), None, i < n_corpus || i % fresh_every == 3));
    for (i, o) in outs.into_iter().enumerate() {
        if i == n_corpus || i == n_small || i == n_small + 1 {
            sess.sample(json!({"P": trunc(&pairs[i].0, 160), "D": trunc(&pairs[i].1, 160)}));
        }
        if k_too_long(i) {
            sess.count("w25:family:over-600-bytes(oracle only: all in the quick tier, 7 of 8 in the thorough tier)");
        }
        sess.count(if i < n_corpus { "origin:corpus" } else if i < n_small { "origin:small-scope" } else if i < n_random_end { "origin:random" } else { "origin:w25-families" });
        if i >= n_random_end {
            let (p, d) = (&pairs[i].0, &pairs[i].1);
            for (tag, on) in [
                ("P-non-ascii", !p.is_ascii()),
                ("P-astral", p.chars().any(|c| c as u32 > 0xFFFF)),
                ("P-several-paragraphs", p.trim_end().contains("\n\n")),
                ("P-wrapped-lines", p.trim_end().contains('\n')),
                ("D-empty-or-blank", d.trim().is_empty()),
                ("D-cr", d.contains('\r')),
                ("D-non-ascii", !d.is_ascii()),
                ("D-several-paragraphs", d.trim().contains("\n\n")),
                ("D-over-2000-chars", d.chars().count() > 2000),
                ("D-word-over-100-chars", d.split_whitespace().any(|w| w.chars().count() > 100)),
            ] {
                if on {
                    sess.count(&format!("w25:family:{}", tag));
                }
            }
        }
        let key = format!("{}\u{0}{}", pairs[i].0, pairs[i].1);
        merge(&mut sess, o, &key);
    }
    w25_secs.insert("main pair stream (of which the appended families are 1/15 of the pairs in the quick tier)", t_main.elapsed().as_secs_f64());
    // w25: the other call sites and configurations, and the second sentence of the statement
    let t_w25 = std::time::Instant::now();
    {
        let mut r2 = Rng::new(ctx.seed ^ 0x2512);
        w25_run(&mut sess, ctx, &mut r2, &pool, &pairs, n_corpus);
    }
    w25_secs.insert("call-site / configuration streams and edit stream", t_w25.elapsed().as_secs_f64());
    // concrete rules against Model/Rules.lean: K, in-range and per-rule locality
    crate::rules::run_into(&mut sess, ctx, &mut rng);
    crate::leaves::run_into(&mut sess, ctx, &mut rng);
    crate::prules::run_into(&mut sess, ctx, &mut rng);
    crate::rules2::run_into(&mut sess, ctx, &mut rng);
    crate::mrules::run_into(&mut sess, ctx, &mut rng);
    sess.finish(
        &format!("{} {} {} {} {} {}", crate::rules::RULE, crate::leaves::RULE, crate::prules::RULE, crate::rules2::RULE, crate::mrules::RULE, "pairs (P, D): P = 1–3 rule-test sentences free of quotation marks ending in [.!?] followed by a paragraph break (\\n\\n, \\n\\n\\n, space+\\n\\n); D = a rule-test sentence, the same with a curated opening (newlines, blank, digits, ordinal, @, :, lower case, quotes, apostrophe, punctuation, regexish, hex, decade, e.g., et al., etc.), lower-cased first letter, spice + prose, or a mutated / malformed text of the shared generator; plus a corpus of boundary witnesses and a small-scope grid (5 separators × 25 openings × 3 tails). K: PlainEnglish::parse (`lex`), Document::new (`doc`) and iter_paragraphs / iter_sentences / iter_chunks (`pieces`) on P, D and P+D against the Lean models. O: lint(P+D) = lint(P) ++ shift(lint(D)) as multisets of (span, kind, message, suggestions, priority), in the same order within each paragraph, none straddling the break; every rule on (chunk cache defeated by a config nonce) and curated defaults (long-lived caching group). Monitors: ClsOK (class-table laws on every character seen), ExtLocal, ExtNoNl, lex_append, DocAppend, parsePlain_ends_break/noQuotes, and the theorem document_append with its text-level hypotheses on the real token streams. Non-trivial = P has ≥8 and D ≥4 document tokens; distinct by (P, D)."),
        false,
        json!({"configs": CONFIGS, "pairs": pairs.len(), "w25_streams": W25_STREAMS, "w25_wall_seconds": w25_secs}),
    );
}
