//! C07 — words added to a dictionary are accepted from then on and never lost.
//!
//! Real code exercised: `dictionary_io::{load_dict, save_dict, file_dict_name}` (harper-ls),
//! `MutableDictionary::append_word`, `MergedDictionary` (curated + user + file, built the way
//! `Backend::generate_file_dictionary` builds it), `LintGroup` with only `SpellCheck` enabled (and the
//! full curated group for the "other lints unchanged" clause), `harper_wasm::Linter::{import_words,
//! export_words, lint}`. Everything runs in a private directory under `std::env::temp_dir()`.
//!
//! K: a whole history goes to the Lean model on one `dio` line; per op the implementation reports
//!    the file after the op, what the real `load_dict` reloads from it, and the accept answers of
//!    the real SpellCheck. The order of `words_iter` (hash-table order) is handed to the model as data.
//!    Crash points: the bytes the real `save_dict` wrote are truncated by hand at a byte offset (all
//!    offsets for small files), the real `load_dict` reads the result.
//!    `dload` (real `load_dict` on arbitrary small files incl. torn UTF-8), `dchunk` (tokio `BufWriter`
//!    chunking rule, exhaustively for small capacities), `dsave` (a large dictionary through the real
//!    `save_dict` under `strace`: the `write` syscalls' sizes vs the model's).
//! O: the property on the real code (see `rule` at the bottom).
//!
//! The language-server command path itself (`workspace/executeCommand HarperAddToUserDict`) is left as
//! `server_scenarios` (TODO); the handler's steps `load_dict → append_word → save_dict →
//! update_document_from_file (= reload all dictionaries, rebuild the linter if the merged dictionary
//! differs)` are performed here directly, in that order, with the same functions.
use crate::common::*;
use crate::dictionary_io::{file_dict_name, load_dict, save_dict};
use harper_core::linting::{Lint, LintGroup, LintKind, Linter};
use harper_core::parsers::PlainEnglish;
use harper_core::{
    CharStringExt, Dialect, Dictionary, Document, FstDictionary, MergedDictionary, MutableDictionary, TokenKind, WordMetadata,
};
use serde_json::{Value, json};
use std::collections::{BTreeMap, BTreeSet, HashMap};
use std::path::{Path, PathBuf};
use std::sync::Arc;
use tower_lsp::lsp_types::Url;

/// documents of the scenarios; the last two have different paths but the same `file_dict_name`
const URLS: [&str; 4] = ["file:///w11/doc0.md", "file:///w11/doc1.md", "file:///w11/a/b.md", "file:///w11/a%25b.md"];

fn cs(s: &str) -> Vec<char> {
    s.chars().collect()
}
fn st(w: &[char]) -> String {
    w.iter().collect()
}
fn lownorm(w: &[char]) -> String {
    w.normalized().to_lower().iter().collect()
}
fn lownorm_s(w: &str) -> String {
    lownorm(&cs(w))
}
/// can the word be a document token (what the code action passes to the add commands)? Words that
/// are empty or contain white space (incl. CR / LF, which `str::lines` would not even give back) are
/// only reachable through `import_words` or a hand-edited file; a loader that trimmed or skipped
/// them would not violate the property, so histories containing one are not judged.
fn well_formed(w: &str) -> bool {
    !w.is_empty() && !w.chars().any(|c| c.is_whitespace())
}

// ---------------------------------------------------------------------------------------------
// line protocol (mirrors lean/Harper/Driver/DictIO.lean)
// ---------------------------------------------------------------------------------------------

fn list_tokens(ws: &[Vec<char>]) -> String {
    let mut t: Vec<String> = vec![];
    for w in ws {
        t.push("/".into());
        for c in w {
            t.push((*c as u32).to_string());
        }
    }
    t.join(" ")
}
fn list_tokens_s(ws: &[String]) -> String {
    list_tokens(&ws.iter().map(|w| cs(w)).collect::<Vec<_>>())
}
fn disk_tokens(bytes: Option<&[u8]>) -> String {
    match bytes {
        None => "absent".into(),
        Some(b) => match std::str::from_utf8(b) {
            Ok(s) => format!("t {}", chars_field(&cs(s))).trim_end().to_string(),
            Err(e) => {
                let s = std::str::from_utf8(&b[..e.valid_up_to()]).unwrap();
                format!("torn {}", chars_field(&cs(s))).trim_end().to_string()
            }
        },
    }
}
fn sorted_words(d: &MutableDictionary) -> Vec<Vec<char>> {
    let mut v: Vec<Vec<char>> = d.words_iter().map(|w| w.to_vec()).collect();
    v.sort();
    v
}
fn reload_tokens(rt: &tokio::runtime::Runtime, path: &Path) -> String {
    match rt.block_on(load_dict(path)) {
        Err(_) => "err".into(),
        Ok(d) => list_tokens(&sorted_words(&d)),
    }
}
fn fd_tokens(rt: &tokio::runtime::Runtime, path: &Path) -> String {
    let bytes = std::fs::read(path).ok();
    format!("F {} L {}", disk_tokens(bytes.as_deref()), reload_tokens(rt, path)).trim_end().to_string()
}
fn tab_row(c: char) -> String {
    let lower: Vec<char> = c.to_lowercase().collect();
    let norm = [c].normalized().to_vec();
    format!("{} , {} , {}", c as u32, chars_field(&lower), norm[0] as u32)
}

// ---------------------------------------------------------------------------------------------
// histories
// ---------------------------------------------------------------------------------------------

#[derive(Clone, Debug, PartialEq)]
enum At {
    Pre,
    Byte(usize),
}
#[derive(Clone, Debug, PartialEq)]
enum HOp {
    Add(String),
    AddFile(usize, String),
    Restart,
    Crash(String, At),
    Lint(usize, Vec<String>),
    JsImport(Vec<String>),
    JsLint(Vec<String>),
    JsRestart,
}
#[derive(Clone, Debug)]
struct Hist {
    /// user dictionary file present before the first op (a dictionary file on disk)
    init: Option<String>,
    british: bool,
    ops: Vec<HOp>,
}
impl Hist {
    fn to_json(&self) -> Value {
        let ops: Vec<Value> = self
            .ops
            .iter()
            .map(|o| match o {
                HOp::Add(w) => json!({"op": "add", "w": w}),
                HOp::AddFile(u, w) => json!({"op": "addFile", "url": URLS[*u], "w": w}),
                HOp::Restart => json!({"op": "restart"}),
                HOp::Crash(w, At::Pre) => json!({"op": "crash", "w": w, "at": "before-open"}),
                HOp::Crash(w, At::Byte(b)) => json!({"op": "crash", "w": w, "at": b}),
                HOp::Lint(u, q) => json!({"op": "lint", "url": URLS[*u], "words": q}),
                HOp::JsImport(w) => json!({"op": "jsImport", "words": w}),
                HOp::JsLint(q) => json!({"op": "jsLint", "words": q}),
                HOp::JsRestart => json!({"op": "jsRestart"}),
            })
            .collect();
        json!({"init_file": self.init, "dialect": if self.british { "British" } else { "American" }, "history": ops})
    }
    fn from_json(v: &Value) -> Option<Hist> {
        let url = |o: &Value| URLS.iter().position(|u| Some(*u) == o["url"].as_str()).unwrap_or(0);
        let words = |o: &Value| o["words"].as_array().map(|a| a.iter().filter_map(|x| x.as_str().map(|s| s.to_string())).collect::<Vec<_>>()).unwrap_or_default();
        let mut ops = vec![];
        for o in v["history"].as_array()? {
            let w = o["w"].as_str().unwrap_or("").to_string();
            ops.push(match o["op"].as_str()? {
                "add" => HOp::Add(w),
                "addFile" => HOp::AddFile(url(o), w),
                "restart" => HOp::Restart,
                "crash" => HOp::Crash(w, match o["at"].as_u64() { Some(b) => At::Byte(b as usize), None => At::Pre }),
                "lint" => HOp::Lint(url(o), words(o)),
                "jsImport" => HOp::JsImport(words(o)),
                "jsLint" => HOp::JsLint(words(o)),
                "jsRestart" => HOp::JsRestart,
                _ => return None,
            });
        }
        Some(Hist { init: v["init_file"].as_str().map(|s| s.to_string()), british: v["dialect"].as_str() == Some("British"), ops })
    }
}

struct Env {
    root: PathBuf,
    by_key: HashMap<String, Vec<Vec<char>>>,
    all: Vec<Vec<char>>,
    /// `file_dict_name` of every URL, and its first-occurrence index (the model's abstract name)
    names: Vec<String>,
    name_id: Vec<usize>,
}

#[derive(Default)]
struct Outcome {
    k: Vec<(String, String)>,
    fails: Vec<(String, String, Value)>,
    counts: Vec<String>,
    monitors: Vec<(&'static str, bool)>,
    nontrivial: Vec<String>,
    o_cases: usize,
}

fn only_spellcheck(dict: Arc<MergedDictionary>, dialect: Dialect) -> LintGroup {
    let mut lg = LintGroup::new_curated(dict, dialect);
    lg.config.clear();
    lg.set_all_rules_to(Some(false));
    lg.config.set_rule_enabled("SpellCheck", true);
    lg
}

/// what `update_document` keeps per document
struct DocState {
    dict: Arc<MergedDictionary>,
    linter: LintGroup,
    snap: (Vec<Vec<char>>, Vec<Vec<char>>),
}

const TEMPLATE_AT: usize = 7;
fn template(q: &str) -> String {
    format!("We saw {} today.", q)
}
fn one_token(doc: &Document, len: usize) -> bool {
    doc.get_tokens().iter().any(|t| matches!(t.kind, TokenKind::Word(_)) && t.span.start == TEMPLATE_AT && t.span.end == TEMPLATE_AT + len)
}
fn overlaps(l: &Lint, len: usize) -> bool {
    l.span.start < TEMPLATE_AT + len && TEMPLATE_AT < l.span.end
}

struct Real<'a> {
    env: &'a Env,
    rt: tokio::runtime::Runtime,
    user_path: PathBuf,
    fdir: PathBuf,
    dialect: Dialect,
    docs: HashMap<usize, DocState>,
    js: Option<harper_wasm::Linter>,
    monitors: Vec<(&'static str, bool)>,
}

impl<'a> Real<'a> {
    fn file_path(&self, url: usize) -> PathBuf {
        // Backend::get_file_dict_path
        self.fdir.join(file_dict_name(&Url::parse(URLS[url]).unwrap()).unwrap())
    }
    /// `load_user_dictionary` / `load_file_dictionary`: a failed load is the empty dictionary
    fn load_or_empty(&self, path: &Path) -> MutableDictionary {
        self.rt.block_on(load_dict(path)).unwrap_or(MutableDictionary::new())
    }
    /// the command handler's `load → append_word → save_dict`; returns the `words_iter` order saved
    fn add_to(&mut self, path: &Path, w: &str) -> Vec<Vec<char>> {
        let mut d = self.load_or_empty(path);
        d.append_word(cs(w), WordMetadata::default());
        let order: Vec<Vec<char>> = d.words_iter().map(|x| x.to_vec()).collect();
        self.rt.block_on(save_dict(path, d)).expect("save_dict failed in the harness's temp dir");
        order
    }
    /// `generate_file_dictionary` + the rebuild test of `update_document`
    fn update_document(&mut self, url: usize) -> &mut DocState {
        let user = self.load_or_empty(&self.user_path);
        let file = self.load_or_empty(&self.file_path(url));
        let snap = (sorted_words(&user), sorted_words(&file));
        let mut m = MergedDictionary::new();
        m.add_dictionary(FstDictionary::curated());
        m.add_dictionary(Arc::new(user));
        m.add_dictionary(Arc::new(file));
        let dict = Arc::new(m);
        let dialect = self.dialect;
        if !self.docs.contains_key(&url) {
            self.docs.insert(url, DocState { linter: only_spellcheck(dict.clone(), dialect), dict: dict.clone(), snap: snap.clone() });
        }
        let mut mon = None;
        let ds = self.docs.get_mut(&url).unwrap();
        // assumption of the model: MergedDictionary's `==` (a 64-bit hash of the words' characters in
        // words_iter order, WITHOUT word boundaries) notices every change an add can make. The empty
        // word contributes nothing to that stream, so adding it is invisible (and irrelevant: no
        // token is empty) — it is left out of the comparison.
        let ne = |s: &(Vec<Vec<char>>, Vec<Vec<char>>)| -> (Vec<Vec<char>>, Vec<Vec<char>>) {
            (s.0.iter().filter(|w| !w.is_empty()).cloned().collect(), s.1.iter().filter(|w| !w.is_empty()).cloned().collect())
        };
        if ne(&ds.snap) != ne(&snap) {
            mon = Some(ds.dict != dict);
        }
        if ds.dict != dict {
            ds.dict = dict.clone();
            ds.linter = only_spellcheck(dict.clone(), dialect);
            ds.snap = snap;
        }
        if let Some(m) = mon {
            self.monitors.push(("MergedDictionary::eq (64-bit hash of the word stream) notices the changed dictionary", m));
        }
        self.docs.get_mut(&url).unwrap()
    }
    /// a document update followed by a check of `We saw <q> today.`: `Some(accepted)` when `q` is one
    /// Word token there
    fn lint_words(&mut self, url: usize, qs: &[String]) -> Vec<Option<bool>> {
        let ds = self.update_document(url);
        qs.iter()
            .map(|q| {
                let text = template(q);
                let len = q.chars().count();
                let doc = Document::new(&text, &PlainEnglish, &ds.dict);
                if !one_token(&doc, len) {
                    return None;
                }
                let flagged = ds.linter.lint(&doc).iter().any(|l| l.lint_kind == LintKind::Spelling && overlaps(l, len));
                Some(!flagged)
            })
            .collect()
    }
    fn js(&mut self) -> &mut harper_wasm::Linter {
        if self.js.is_none() {
            self.js = Some(harper_wasm::Linter::new(if self.dialect == Dialect::British { harper_wasm::Dialect::British } else { harper_wasm::Dialect::American }));
        }
        self.js.as_mut().unwrap()
    }
    fn js_lint_words(&mut self, qs: &[String]) -> Vec<Option<bool>> {
        let cur = FstDictionary::curated();
        qs.iter()
            .map(|q| {
                let text = template(q);
                let len = q.chars().count();
                let doc = Document::new(&text, &PlainEnglish, &cur);
                if !one_token(&doc, len) {
                    return None;
                }
                let lints = self.js().lint(text, harper_wasm::Language::Plain);
                let mut spelling = false;
                for l in &lints {
                    let sp = l.span();
                    if sp.start < TEMPLATE_AT + len && TEMPLATE_AT < sp.end {
                        if l.lint_kind() == "Spelling" {
                            spelling = true;
                        } else {
                            return None; // remove_overlaps may have dropped a spelling lint here
                        }
                    }
                }
                Some(!spelling)
            })
            .collect()
    }
}

/// everything the oracle needs to know about one dictionary (user, one file dictionary, JS)
#[derive(Default, Clone)]
struct Ledger {
    /// (word, index of the op that added it; 0 = was in the file at the start)
    added: Vec<(String, usize)>,
    /// words whose add crashed strictly inside the save, or before the open (may legitimately be missing)
    optional: Vec<String>,
    /// indices of crash ops strictly inside a save
    crashes: Vec<usize>,
}
impl Ledger {
    fn partner(&self, w: &str) -> bool {
        let k = lownorm_s(w);
        self.added.iter().map(|(x, _)| x).chain(self.optional.iter()).any(|x| x != w && lownorm_s(x) == k)
    }
    fn crash_since(&self, idx: usize) -> bool {
        self.crashes.iter().any(|c| *c >= idx)
    }
    /// why may `w` (added at `idx`) be missing from the reloaded dictionary?
    fn class_lost(&self, w: &str, idx: usize) -> &'static str {
        if self.partner(w) {
            "c07-case-collision"
        } else if self.crash_since(idx) {
            "c07-crash-during-save"
        } else {
            "word-lost"
        }
    }
}

fn other_dialect(w: &str, dialect: Dialect) -> bool {
    FstDictionary::curated().get_word_metadata(&cs(w)).is_some_and(|m| m.dialect.is_some_and(|d| d != dialect))
}

/// why may `w`, present in the dictionary with exactly this spelling, still be reported?
fn class_flagged_present(led: &Ledger, w: &str, dialect: Dialect, js: bool) -> &'static str {
    let c = cs(w);
    if c.normalized().as_ref() != c.as_slice() {
        "c07-unnormalized-word"
    } else if other_dialect(w, dialect) {
        "c07-other-dialect-word"
    } else if js && led.partner(w) {
        "c07-case-collision" // import_words skipped synchronize_lint_dict: the count did not grow
    } else {
        "added-word-flagged"
    }
}

fn run_history(env: &Env, hist: &Hist, id: usize) -> Outcome {
    let mut out = Outcome::default();
    let input = hist.to_json();
    let r = guarded(|| run_history_inner(env, hist, id, &input));
    match r {
        Ok(o) => out = o,
        Err(m) => out.fails.push(("panic".into(), format!("the history panicked: {}", m), input)),
    }
    let _ = std::fs::remove_dir_all(env.root.join(format!("h{}", id)));
    out
}

fn run_history_inner(env: &Env, hist: &Hist, id: usize, input: &Value) -> Outcome {
    let mut out = Outcome::default();
    let dir = env.root.join(format!("h{}", id));
    let _ = std::fs::remove_dir_all(&dir);
    std::fs::create_dir_all(&dir).unwrap();
    let dialect = if hist.british { Dialect::British } else { Dialect::American };
    let mut real = Real {
        env,
        rt: tokio::runtime::Builder::new_current_thread().enable_all().build().unwrap(),
        user_path: dir.join("dictionary.txt"),
        fdir: dir.join("file_dictionaries"),
        dialect,
        docs: HashMap::new(),
        js: None,
        monitors: vec![],
    };
    let mut chars: BTreeSet<char> = BTreeSet::new();
    let mut keys: BTreeSet<String> = BTreeSet::new();
    let mut note = |chars: &mut BTreeSet<char>, s: &str| chars.extend(s.chars());
    let mut user = Ledger::default();
    let mut files: BTreeMap<usize, Ledger> = BTreeMap::new();
    let mut js = Ledger::default();
    // histories containing a word no document token can be (empty, white space, CR, LF) are compared
    // with the model (K) but not judged (O): no language-server command can add such a word — the
    // code action takes the word from a document token
    let mut junk = false;
    if let Some(init) = &hist.init {
        std::fs::write(&real.user_path, init).unwrap();
        note(&mut chars, init);
        for l in init.lines() {
            user.added.push((l.to_string(), 0));
        }
        if init.lines().any(|l| !well_formed(l)) {
            junk = true;
        }
    }
    let disk0 = disk_tokens(hist.init.as_ref().map(|s| s.as_bytes()));
    let mut op_txt: Vec<String> = vec![];
    let mut res_txt: Vec<String> = vec![];
    let fail = |out: &mut Outcome, class: &str, desc: String| out.fails.push((class.to_string(), desc, input.clone()));

    for (i0, op) in hist.ops.iter().enumerate() {
        let idx = i0 + 1;
        match op {
            HOp::Add(w) | HOp::Crash(w, _) => {
                note(&mut chars, w);
                if !well_formed(w) {
                    junk = true;
                }
                let old = std::fs::read(&real.user_path).ok();
                let up = real.user_path.clone();
                let order = real.add_to(&up, w);
                for o in &order {
                    chars.extend(o.iter());
                }
                let full = std::fs::read(&real.user_path).unwrap();
                if let HOp::Crash(_, at) = op {
                    let at_txt = match at {
                        At::Pre => {
                            match &old {
                                Some(b) => std::fs::write(&real.user_path, b).unwrap(),
                                None => std::fs::remove_file(&real.user_path).unwrap(),
                            }
                            user.optional.push(w.clone());
                            out.counts.push("crash:before-open".into());
                            "pre".to_string()
                        }
                        At::Byte(b) => {
                            let b = (*b).min(full.len());
                            std::fs::write(&real.user_path, &full[..b]).unwrap();
                            if b < full.len() {
                                user.crashes.push(idx);
                                user.optional.push(w.clone());
                                out.counts.push(if b == 0 { "crash:after-open" } else { "crash:inside-write" }.into());
                            } else {
                                user.added.push((w.clone(), idx));
                                out.counts.push("crash:after-last-write".into());
                            }
                            b.to_string()
                        }
                    };
                    real.docs.clear(); // the process died
                    op_txt.push(format!("crash , {} , {} , {}", chars_field(&cs(w)), list_tokens(&order), at_txt));
                } else {
                    user.added.push((w.clone(), idx));
                    op_txt.push(format!("add , {} , {}", chars_field(&cs(w)), list_tokens(&order)));
                    // the handler's `update_document_from_file` for the document the command came from
                    real.update_document(0);
                }
                res_txt.push(fd_tokens(&real.rt, &real.user_path));
                if let Ok(s) = std::str::from_utf8(&std::fs::read(&real.user_path).unwrap_or_default()) {
                    note(&mut chars, s);
                }
                // O: right after an add the word is accepted in the same and in another document
                if matches!(op, HOp::Add(_)) && !junk {
                    for url in [0usize, 1] {
                        out.o_cases += 1;
                        match real.lint_words(url, &[w.clone()])[0] {
                            None => out.counts.push("o:skipped-not-one-word-token".into()),
                            Some(true) => out.counts.push("o:accepted-after-add".into()),
                            Some(false) => {
                                let present = real.load_or_empty(&real.user_path).words_iter().any(|x| x == cs(w).as_slice());
                                let class = if present { class_flagged_present(&user, w, dialect, false) } else { user.class_lost(w, idx) };
                                fail(&mut out, class, format!("`{}` is reported in {} right after HarperAddToUserDict (op {})", w, URLS[url], idx));
                            }
                        }
                    }
                }
            }
            HOp::AddFile(url, w) => {
                note(&mut chars, w);
                if !well_formed(w) {
                    junk = true;
                }
                let nid = env.name_id[*url];
                // answers in every document before the add (for the isolation clause)
                let before: Vec<Option<bool>> = (0..URLS.len()).map(|u| real.lint_words(u, &[w.clone()])[0]).collect();
                let p = real.file_path(*url);
                let order = real.add_to(&p, w);
                for o in &order {
                    chars.extend(o.iter());
                }
                real.update_document(*url);
                files.entry(nid).or_default().added.push((w.clone(), idx));
                op_txt.push(format!("addf , {} , {} , {}", nid, chars_field(&cs(w)), list_tokens(&order)));
                res_txt.push(fd_tokens(&real.rt, &p));
                if !junk {
                    let after: Vec<Option<bool>> = (0..URLS.len()).map(|u| real.lint_words(u, &[w.clone()])[0]).collect();
                    for u in 0..URLS.len() {
                        out.o_cases += 1;
                        if u == *url {
                            match after[u] {
                                None => out.counts.push("o:skipped-not-one-word-token".into()),
                                Some(true) => out.counts.push("o:file-word-accepted-in-its-file".into()),
                                Some(false) => {
                                    let led = files.get(&nid).unwrap();
                                    let present = real.load_or_empty(&p).words_iter().any(|x| x == cs(w).as_slice());
                                    let class = if present { class_flagged_present(led, w, dialect, false) } else { led.class_lost(w, idx) };
                                    fail(&mut out, class, format!("`{}` is reported in {} right after HarperAddToFileDict for that document (op {})", w, URLS[u], idx));
                                }
                            }
                        } else if before[u] != after[u] {
                            let class = if env.names[u] == env.names[*url] { "c07-file-dict-name-collision" } else { "file-word-leaks" };
                            fail(&mut out, class, format!("adding `{}` to the file dictionary of {} changed its verdict in {} ({:?} → {:?})", w, URLS[*url], URLS[u], before[u], after[u]));
                        } else {
                            out.counts.push("o:file-word-isolated".into());
                        }
                    }
                }
            }
            HOp::Restart => {
                real.docs.clear();
                op_txt.push("restart".into());
                res_txt.push("r".into());
                out.counts.push("restart".into());
            }
            HOp::Lint(url, qs) => {
                for q in qs {
                    note(&mut chars, q);
                }
                let ans = real.lint_words(*url, qs);
                let nid = env.name_id[*url];
                let mut kept = vec![];
                let mut bits = vec!["A".to_string()];
                for (q, a) in qs.iter().zip(&ans) {
                    let Some(a) = a else {
                        out.counts.push("k:query-not-one-word-token".into());
                        continue;
                    };
                    kept.push(q.clone());
                    bits.push(if *a { "1" } else { "0" }.into());
                    keys.insert(lownorm_s(q));
                    keys.insert(lownorm(&cs(q).to_lower()));
                    if junk {
                        continue;
                    }
                    // O: every word added so far (user dictionary, this document's file dictionary)
                    let file_led = files.get(&nid);
                    let hit_user = user.added.iter().rev().find(|(x, _)| x == q);
                    let hit_file = file_led.and_then(|l| l.added.iter().rev().find(|(x, _)| x == q));
                    if hit_user.is_none() && hit_file.is_none() {
                        continue;
                    }
                    out.o_cases += 1;
                    if *a {
                        out.counts.push("o:added-word-accepted-later".into());
                        continue;
                    }
                    // reported: find out whether the word is still in a dictionary with this spelling
                    let in_user = real.load_or_empty(&real.user_path).words_iter().any(|x| x == cs(q).as_slice());
                    let in_file = real.load_or_empty(&real.file_path(*url)).words_iter().any(|x| x == cs(q).as_slice());
                    let class = if let Some((_, ai)) = hit_user {
                        if in_user { class_flagged_present(&user, q, dialect, false) } else { user.class_lost(q, *ai) }
                    } else {
                        let (_, ai) = hit_file.unwrap();
                        let led = file_led.unwrap();
                        if in_file { class_flagged_present(led, q, dialect, false) } else { led.class_lost(q, *ai) }
                    };
                    fail(&mut out, class, format!("`{}` was added earlier but is reported in {} at op {}", q, URLS[*url], idx));
                }
                op_txt.push(format!("lint , {} , {}", nid, list_tokens_s(&kept)).trim_end().to_string());
                res_txt.push(bits.join(" "));
            }
            HOp::JsImport(ws) => {
                for w in ws {
                    note(&mut chars, w);
                    js.added.push((w.clone(), idx));
                }
                real.js().import_words(ws.clone());
                let n = real.js().export_words().len();
                op_txt.push(format!("jimp , {}", list_tokens_s(ws)).trim_end().to_string());
                res_txt.push(format!("N {}", n));
                // O: imported words are accepted at once
                let ans = real.js_lint_words(ws);
                let export: Vec<String> = real.js().export_words();
                for (w, a) in ws.iter().zip(&ans) {
                    out.o_cases += 1;
                    match a {
                        None => out.counts.push("o:skipped-not-one-word-token".into()),
                        Some(true) => out.counts.push("o:js-imported-word-accepted".into()),
                        Some(false) => {
                            // a later word of the same import call may have replaced it
                            let class = if export.contains(w) { class_flagged_present(&js, w, dialect, true) } else { js.class_lost(w, idx) };
                            fail(&mut out, class, format!("`{}` is reported by Linter::lint right after import_words (op {}; export_words {} it)", w, idx, if export.contains(w) { "contains" } else { "does not contain" }));
                        }
                    }
                }
            }
            HOp::JsLint(qs) => {
                for q in qs {
                    note(&mut chars, q);
                }
                let ans = real.js_lint_words(qs);
                let export: Vec<String> = real.js().export_words();
                let mut kept = vec![];
                let mut bits = vec!["A".to_string()];
                for (q, a) in qs.iter().zip(&ans) {
                    let Some(a) = a else {
                        out.counts.push("k:query-not-one-word-token".into());
                        continue;
                    };
                    kept.push(q.clone());
                    bits.push(if *a { "1" } else { "0" }.into());
                    keys.insert(lownorm_s(q));
                    keys.insert(lownorm(&cs(q).to_lower()));
                    if let Some((_, ai)) = js.added.iter().rev().find(|(x, _)| x == q) {
                        out.o_cases += 1;
                        if *a {
                            out.counts.push("o:js-imported-word-accepted-later".into());
                        } else {
                            let class = if export.contains(q) { class_flagged_present(&js, q, dialect, true) } else { js.class_lost(q, *ai) };
                            fail(&mut out, class, format!("`{}` was imported earlier but is reported by Linter::lint at op {}", q, idx));
                        }
                    }
                }
                op_txt.push(format!("jlint , {}", list_tokens_s(&kept)).trim_end().to_string());
                res_txt.push(bits.join(" "));
            }
            HOp::JsRestart => {
                let ord: Vec<String> = real.js().export_words();
                for w in &ord {
                    note(&mut chars, w);
                }
                real.js = None;
                real.js().import_words(ord.clone());
                let mut sorted: Vec<Vec<char>> = ord.iter().map(|w| cs(w)).collect();
                sorted.sort();
                op_txt.push(format!("jrst , {}", list_tokens_s(&ord)).trim_end().to_string());
                res_txt.push(format!("E {}", list_tokens(&sorted)).trim_end().to_string());
                // O: the export holds every imported word (exact spelling)
                for (w, ai) in &js.added {
                    out.o_cases += 1;
                    if !ord.contains(w) {
                        let class = js.class_lost(w, *ai);
                        fail(&mut out, class, format!("`{}` was imported but export_words does not return it (op {})", w, idx));
                    }
                }
            }
        }
        // O: never lost — after every op the user dictionary file reloads to exactly the words added so far
        if !junk && matches!(op, HOp::Add(_) | HOp::Crash(..) | HOp::Restart | HOp::AddFile(..)) {
            out.o_cases += 1;
            let actual: Vec<String> = real.load_or_empty(&real.user_path).words_iter().map(st).collect();
            let mut ok = true;
            let mut seen = BTreeSet::new();
            for (w, ai) in &user.added {
                if !seen.insert(w.clone()) {
                    continue;
                }
                if !actual.contains(w) {
                    ok = false;
                    let class = user.class_lost(w, *ai);
                    fail(&mut out, class, format!("after op {} the user dictionary file no longer holds `{}` (added at op {}); it reloads to {:?}", idx, w, ai, actual));
                }
            }
            for w in &actual {
                if !user.added.iter().any(|(x, _)| x == w) && !user.optional.contains(w) {
                    ok = false;
                    let class = if !user.crashes.is_empty() { "c07-crash-during-save" } else { "word-invented" };
                    fail(&mut out, class, format!("after op {} the user dictionary file holds `{}`, which nobody added", idx, w));
                }
            }
            if ok {
                out.counts.push("o:file-reloads-to-added-words".into());
            }
        }
    }
    // ---- the K line ------------------------------------------------------------------------------
    let mut cur: Vec<Vec<char>> = vec![];
    for k in &keys {
        if let Some(v) = env.by_key.get(k) {
            cur.extend(v.iter().cloned());
        }
    }
    // two decoys
    cur.push(env.all[(id * 7919) % env.all.len()].clone());
    cur.push(env.all[(id * 104729 + 13) % env.all.len()].clone());
    cur.sort();
    cur.dedup();
    let curated = FstDictionary::curated();
    let cur_txt = cur
        .iter()
        .map(|c| {
            chars.extend(c.iter());
            let ok = curated.get_word_metadata(c).map(|m| m.dialect.is_none_or(|d| d == dialect)).unwrap_or(false);
            format!("{} {}", ok as u8, chars_field(c))
        })
        .collect::<Vec<_>>()
        .join(" ; ");
    let tab = chars.iter().map(|c| tab_row(*c)).collect::<Vec<_>>().join(" ; ");
    let line = format!("dio {} | {} | {} | {}", tab, cur_txt, disk0, op_txt.join(" ; "));
    let imp = format!("ok {}", res_txt.join(" ; ")).trim_end().to_string();
    out.k.push((line, imp));
    // monitors of the model's parameters: lower / normalize act character by character
    for c in &chars {
        let one = [*c];
        let lw: Vec<char> = c.to_lowercase().collect();
        out.monitors.push(("to_lower is per-character to_lowercase (the all-lower-case shortcut changes nothing)", one.to_lower().as_ref() == lw.as_slice()));
    }
    out.monitors.append(&mut real.monitors);
    if junk {
        out.counts.push("history:with-a-word-no-token-can-be (K only)".into());
    }
    if !user.crashes.is_empty() {
        out.counts.push("history:with-crash-inside-save".into());
    }
    out.counts.push(format!("history:len-{}", hist.ops.len().min(15)));
    out
}

// ---------------------------------------------------------------------------------------------
// generators
// ---------------------------------------------------------------------------------------------

const BASE: [&str; 8] = ["zqxv", "qxzv", "vkqz", "xqzk", "zqxvw", "kvxq", "qzxk", "wqxz"];
const FOREIGN_DIALECT: [&str; 4] = ["colour", "realise", "centre", "honour"];
const LISTED: [&str; 3] = ["house", "Paris", "banana"];
const JUNK: [&str; 7] = ["zqxv ", "zqxv\r", "zq\nxv", "", " ", "\tzq", "zq\r\nxv"];

fn gen_word(rng: &mut Rng, junk_ok: bool) -> String {
    let b = rng.pick(&BASE).to_string();
    match rng.below(if junk_ok { 16 } else { 15 }) {
        0..=4 => b,
        5 => {
            let mut c = cs(&b);
            c[0] = c[0].to_ascii_uppercase();
            st(&c)
        }
        6 => b.to_uppercase(),
        7 => cs(&b).iter().map(|c| if rng.chance(1, 2) { c.to_ascii_uppercase() } else { *c }).collect(),
        8 => format!("{}'{}", &b[..2], &b[2..]),
        9 => format!("{}’{}", &b[..2], &b[2..]),
        10 => format!("{}{}", b, rng.pick(&["é", "ž", "ß", "ï", "ö"])),
        11 => format!("{}{}", rng.pick(&["İ", "É", "Ž", "Ø"]), b),
        12 => rng.pick(&FOREIGN_DIALECT).to_string(),
        13 => rng.pick(&LISTED).to_string(),
        14 => format!("{}{}", b, (b'a' + rng.below(26) as u8) as char),
        _ => rng.pick(&JUNK).to_string(),
    }
}

fn gen_history(rng: &mut Rng) -> Hist {
    let junk_ok = rng.chance(1, 8);
    let with_js = rng.chance(1, 4);
    let mut pool: Vec<String> = (0..rng.range(2, 5)).map(|_| gen_word(rng, junk_ok)).collect();
    // case variants of pool words (collisions)
    if rng.chance(1, 3) {
        let w = pool[0].clone();
        let v: String = if w.chars().any(|c| c.is_uppercase()) { w.to_lowercase() } else { let mut c = cs(&w); if !c.is_empty() { c[0] = c[0].to_ascii_uppercase(); } st(&c) };
        pool.push(v);
    }
    let init = match rng.below(10) {
        0 => Some(format!("{}\n{}\n", pool[0], BASE[7])),
        1 => Some(format!("{}\r\n{}", BASE[6], BASE[5])),
        2 if junk_ok => Some((0..rng.range(0, 8)).map(|_| *rng.pick(&['a', 'A', '\n', '\r', ' ', 'é'])).collect()),
        3 => Some(String::new()),
        _ => None,
    };
    let n = rng.range(3, 14);
    let mut ops = vec![];
    for _ in 0..n {
        let w = rng.pick(&pool).clone();
        let qs = |rng: &mut Rng, pool: &Vec<String>| -> Vec<String> {
            let mut q: Vec<String> = pool.clone();
            if rng.chance(1, 2) {
                q.push(rng.pick(&BASE).to_uppercase());
            }
            q
        };
        let r = rng.below(100);
        ops.push(if with_js && r < 45 {
            match rng.below(6) {
                0..=2 => HOp::JsImport((0..rng.range(1, 3)).map(|_| rng.pick(&pool).clone()).collect()),
                3..=4 => HOp::JsLint(qs(rng, &pool)),
                _ => HOp::JsRestart,
            }
        } else if r < 40 {
            HOp::Add(w)
        } else if r < 52 {
            let nurl = if rng.chance(1, 6) { 4 } else { 2 };
            HOp::AddFile(rng.below(nurl), w)
        } else if r < 80 {
            HOp::Lint(rng.below(2), qs(rng, &pool))
        } else if r < 90 {
            HOp::Restart
        } else {
            let at = match rng.below(5) { 0 => At::Pre, 1 => At::Byte(0), 2 => At::Byte(usize::MAX), _ => At::Byte(rng.below(40)) };
            HOp::Crash(w, at)
        });
    }
    Hist { init, british: rng.chance(1, 6), ops }
}

fn corpus_histories() -> Vec<(&'static str, Hist)> {
    let l = |u: usize, q: &[&str]| HOp::Lint(u, q.iter().map(|s| s.to_string()).collect());
    let a = |w: &str| HOp::Add(w.to_string());
    vec![
        // finding 9b: the later case variant replaces the earlier word
        ("case-collision", Hist { init: None, british: false, ops: vec![a("zqxv"), l(0, &["zqxv"]), a("Zqxv"), l(0, &["zqxv", "Zqxv"])] }),
        // finding 9a: a crash right after the open loses every word
        ("crash-after-open", Hist { init: None, british: false, ops: vec![a("zqxv"), a("qxzv"), HOp::Crash("vkqz".into(), At::Byte(0)), l(0, &["zqxv", "qxzv", "vkqz"])] }),
        ("crash-inside-write", Hist { init: None, british: false, ops: vec![a("zqxv"), a("qxzv"), HOp::Crash("vkqzé".into(), At::Byte(7)), l(0, &["zqxv", "qxzv"]), a("kvxq"), l(1, &["zqxv", "qxzv", "kvxq"])] }),
        ("crash-harmless", Hist { init: None, british: false, ops: vec![a("zqxv"), HOp::Crash("qxzv".into(), At::Pre), l(0, &["zqxv", "qxzv"]), HOp::Crash("qxzv".into(), At::Byte(usize::MAX)), l(0, &["zqxv", "qxzv"])] }),
        ("curly-apostrophe", Hist { init: None, british: false, ops: vec![a("zq’xv"), l(0, &["zq’xv", "zq'xv"]), a("zq'xv"), l(0, &["zq’xv", "zq'xv"])] }),
        ("other-dialect", Hist { init: None, british: false, ops: vec![a("colour"), l(0, &["colour", "color"]), HOp::Restart, l(1, &["colour"])] }),
        ("file-dict", Hist { init: None, british: false, ops: vec![HOp::AddFile(0, "zqxv".into()), l(0, &["zqxv"]), l(1, &["zqxv"]), HOp::Restart, l(0, &["zqxv"]), l(1, &["zqxv"])] }),
        ("file-dict-name-collision", Hist { init: None, british: false, ops: vec![HOp::AddFile(2, "zqxv".into()), l(2, &["zqxv"]), l(3, &["zqxv"])] }),
        ("js-stale", Hist { init: None, british: false, ops: vec![HOp::JsImport(vec!["Zqxv".into()]), HOp::JsLint(vec!["Zqxv".into(), "zqxv".into()]), HOp::JsImport(vec!["zqxv".into()]), HOp::JsLint(vec!["Zqxv".into(), "zqxv".into()]), HOp::JsRestart, HOp::JsLint(vec!["Zqxv".into(), "zqxv".into()])] }),
        ("js-plain", Hist { init: None, british: false, ops: vec![HOp::JsImport(vec!["zqxv".into(), "qxzv".into()]), HOp::JsLint(vec!["zqxv".into(), "qxzv".into(), "vkqz".into()]), HOp::JsRestart, HOp::JsLint(vec!["zqxv".into(), "qxzv".into()]), HOp::JsImport(vec!["zqxv ".into(), "".into(), "zq\nxv".into()]), HOp::JsLint(vec!["zqxv".into()])] }),
        ("file-on-disk", Hist { init: Some("zqxv\r\nqxzv\nvkqz".into()), british: false, ops: vec![l(0, &["zqxv", "qxzv", "vkqz"]), a("kvxq"), HOp::Restart, l(1, &["zqxv", "qxzv", "vkqz", "kvxq"])] }),
        ("file-on-disk-blank-lines", Hist { init: Some("zqxv\r\nqxzv\n\n vkqz \n".into()), british: false, ops: vec![l(0, &["zqxv", "qxzv", "vkqz"]), a("kvxq"), HOp::Restart, l(1, &["zqxv", "qxzv", "vkqz", "kvxq"])] }),
        ("ill-formed-words", Hist { init: Some("Zqxv\r\r\n".into()), british: false, ops: vec![a("zqxv"), l(0, &["zqxv", "Zqxv"]), a("zq\nxv"), a("qxzv\r"), a(""), a(" "), HOp::Restart, l(0, &["zqxv", "zq", "xv", "qxzv"])] }),
    ]
}

// ---------------------------------------------------------------------------------------------
// the tokio BufWriter rule, a sink that records every write it receives
// ---------------------------------------------------------------------------------------------

struct Recorder(Vec<usize>);
impl tokio::io::AsyncWrite for Recorder {
    fn poll_write(mut self: std::pin::Pin<&mut Self>, _: &mut std::task::Context<'_>, buf: &[u8]) -> std::task::Poll<std::io::Result<usize>> {
        self.0.push(buf.len());
        std::task::Poll::Ready(Ok(buf.len()))
    }
    fn poll_flush(self: std::pin::Pin<&mut Self>, _: &mut std::task::Context<'_>) -> std::task::Poll<std::io::Result<()>> {
        std::task::Poll::Ready(Ok(()))
    }
    fn poll_shutdown(self: std::pin::Pin<&mut Self>, _: &mut std::task::Context<'_>) -> std::task::Poll<std::io::Result<()>> {
        std::task::Poll::Ready(Ok(()))
    }
}

/// `write_word_list`'s loop shape (`write_all` per piece, `flush` at the end) over a recording sink
fn bufwriter_chunks(rt: &tokio::runtime::Runtime, cap: usize, pieces: &[String]) -> Vec<usize> {
    use tokio::io::AsyncWriteExt;
    rt.block_on(async {
        let mut w = tokio::io::BufWriter::with_capacity(cap, Recorder(vec![]));
        for p in pieces {
            w.write_all(p.as_bytes()).await.unwrap();
        }
        w.flush().await.unwrap();
        w.into_inner().0
    })
}

// ---------------------------------------------------------------------------------------------
// strace of the real save_dict in a child process (this binary with HV_C07_SAVE_PROBE set)
// ---------------------------------------------------------------------------------------------

/// child side: build a dictionary from `<dir>/words.txt` (one word per line), write the `words_iter`
/// order to `<dir>/order.txt`, then call the real `save_dict(<dir>/saved.txt)`
fn save_probe_child(dir: &Path) {
    let words = std::fs::read_to_string(dir.join("words.txt")).unwrap();
    let mut d = MutableDictionary::new();
    for w in words.lines() {
        d.append_word(cs(w), WordMetadata::default());
    }
    let order: Vec<String> = d.words_iter().map(st).collect();
    std::fs::write(dir.join("order.txt"), order.join("\n")).unwrap();
    let rt = tokio::runtime::Builder::new_current_thread().enable_all().build().unwrap();
    eprintln!("C07-PROBE-BEGIN");
    rt.block_on(save_dict(dir.join("saved.txt"), d)).unwrap();
    eprintln!("C07-PROBE-END");
}

struct Straced {
    order: Vec<String>,
    open_flags: String,
    writes: Vec<usize>,
    other_syscalls: Vec<String>,
    saved: Vec<u8>,
}

fn strace_save(dir: &Path, words: &[String]) -> Option<Straced> {
    std::fs::create_dir_all(dir).ok()?;
    std::fs::write(dir.join("words.txt"), words.join("\n")).ok()?;
    let exe = std::env::current_exe().ok()?;
    let tr = dir.join("strace.txt");
    let st = std::process::Command::new("strace")
        .args(["-f", "-e", "trace=openat,open,creat,write,pwrite64,writev,close,fsync,fdatasync,ftruncate,rename,renameat,renameat2,unlink,unlinkat", "-o"])
        .arg(&tr)
        .arg(&exe)
        .arg("C07")
        .env("HV_C07_SAVE_PROBE", dir)
        .stdout(std::process::Stdio::null())
        .stderr(std::process::Stdio::null())
        .status()
        .ok()?;
    if !st.success() {
        return None;
    }
    let log = std::fs::read_to_string(&tr).ok()?;
    let target = dir.join("saved.txt");
    let target = target.to_string_lossy();
    let mut fd: Option<String> = None;
    let mut open_flags = String::new();
    let mut writes = vec![];
    let mut other = vec![];
    let mut closed = false;
    // with -f a syscall of one thread can be split into `<unfinished ...>` / `<... resumed>` lines
    let mut pending: HashMap<String, String> = HashMap::new();
    let mut calls: Vec<String> = vec![];
    for line in log.lines() {
        let mut it = line.splitn(2, ' ');
        let pid = it.next().unwrap_or("").to_string();
        let body = it.next().unwrap_or("").trim_start();
        if let Some(head) = body.strip_suffix("<unfinished ...>") {
            pending.insert(pid, head.to_string());
        } else if body.starts_with("<... ") {
            let rest = body.splitn(2, "resumed>").nth(1).unwrap_or("");
            let head = pending.remove(&pid).unwrap_or_default();
            calls.push(format!("{}{}", head, rest));
        } else {
            calls.push(body.to_string());
        }
    }
    for body in &calls {
        if fd.is_none() {
            if body.starts_with("openat(") && body.contains(target.as_ref()) {
                open_flags = body.split(", ").nth(2).unwrap_or("").to_string();
                fd = body.rsplit("= ").next().map(|s| s.trim().to_string());
            }
            continue;
        }
        if closed {
            continue;
        }
        let f = fd.as_ref().unwrap();
        if body.starts_with(&format!("write({},", f)) {
            if let Some(n) = body.rsplit("= ").next().and_then(|s| s.trim().parse::<usize>().ok()) {
                writes.push(n);
            }
        } else if body.starts_with(&format!("close({})", f)) {
            closed = true;
        } else if ["fsync", "fdatasync", "ftruncate", "rename", "unlink", "pwrite64", "writev"].iter().any(|s| body.starts_with(s)) {
            other.push(body.split('(').next().unwrap_or("").to_string());
        }
    }
    if !closed {
        return None;
    }
    let order = std::fs::read_to_string(dir.join("order.txt")).ok()?;
    let order: Vec<String> = if order.is_empty() && words.is_empty() { vec![] } else { order.split('\n').map(|s| s.to_string()).collect() };
    Some(Straced { order, open_flags, writes, other_syscalls: other, saved: std::fs::read(dir.join("saved.txt")).ok()? })
}

// ---------------------------------------------------------------------------------------------
// "all other lints are unchanged"
// ---------------------------------------------------------------------------------------------

fn lint_sig(l: &Lint) -> String {
    format!("{}:{}:{:?}:{}:{:?}", l.span.start, l.span.end, l.lint_kind, l.message, l.suggestions)
}

fn full_lints(user: &[&str], text: &str, dialect: Dialect) -> Result<(Vec<String>, Vec<(usize, usize)>), String> {
    let mut d = MutableDictionary::new();
    for w in user {
        d.append_word(cs(w), WordMetadata::default());
    }
    let mut m = MergedDictionary::new();
    m.add_dictionary(FstDictionary::curated());
    m.add_dictionary(Arc::new(d));
    let m = Arc::new(m);
    guarded(|| {
        let mut lg = LintGroup::new_curated(m.clone(), dialect);
        lg.config.fill_with_curated();
        let doc = Document::new(text, &PlainEnglish, &m);
        let lints = lg.lint(&doc);
        let other: Vec<String> = lints.iter().filter(|l| l.lint_kind != LintKind::Spelling).map(lint_sig).collect();
        let spell: Vec<(usize, usize)> = lints.iter().filter(|l| l.lint_kind == LintKind::Spelling).map(|l| (l.span.start, l.span.end)).collect();
        (other, spell)
    })
}

fn other_lints_case(sess: &mut Session, w: &str, text: &str) {
    sess.o();
    let input = json!({"stream": "other-lints", "w": w, "text": text});
    let (Ok((o0, s0)), Ok((o1, s1))) = (full_lints(&[], text, Dialect::American), full_lints(&[w], text, Dialect::American)) else {
        sess.count("other-lints:panicked (C01's business)");
        return;
    };
    let held = o0 == o1;
    sess.monitor("non-spelling rules do not read the user dictionary (C11 independence): all non-spelling lints equal before/after the add", held);
    if !held {
        let d0: Vec<&String> = o0.iter().filter(|x| !o1.contains(x)).collect();
        let d1: Vec<&String> = o1.iter().filter(|x| !o0.contains(x)).collect();
        sess.fail("other-lints-changed", format!("adding `{}` changed non-spelling lints of {:?}: gone {:?}, new {:?}", w, trunc(text, 120), d0, d1), input, None);
        return;
    }
    // the spelling lints that went away are lints on occurrences of `w` (in some capitalisation)
    let tc: Vec<char> = text.chars().collect();
    let key = lownorm_s(w);
    for sp in &s0 {
        if !s1.contains(sp) && lownorm(&tc[sp.0..sp.1]) != key {
            sess.fail("other-spelling-lint-gone", format!("adding `{}` removed the spelling lint on {:?}", w, st(&tc[sp.0..sp.1])), input.clone(), None);
        }
    }
    for sp in &s1 {
        if !s0.contains(sp) {
            sess.fail("spelling-lint-appeared", format!("adding `{}` created a spelling lint on {:?}", w, st(&tc[sp.0..sp.1])), input.clone(), None);
        }
    }
    sess.count(if s0.len() > s1.len() { "other-lints:equal, spelling lint on the word gone" } else { "other-lints:equal" });
}

// ---------------------------------------------------------------------------------------------
// server path — to be filled in once harness/src/lsclient.rs exists
// ---------------------------------------------------------------------------------------------

/// TODO(server path): issue `workspace/executeCommand` `HarperAddToUserDict` / `HarperAddToFileDict`
/// through the in-process language server (`lsclient`) for each history below and compare the
/// published diagnostics with what `run_history` computes by calling the handler's steps directly
/// (`load_dict → append_word → save_dict → update_document_from_file`). Expected to be called from
/// `run` with the corpus histories; it must push failures with the same classes (`classify` logic in
/// `run_history_inner`) and count its cases with `sess.o()`.
pub fn server_scenarios(_sess: &mut Session, _root: &Path, _histories: &[Value]) {
    // TODO(server path)
}

// ---------------------------------------------------------------------------------------------

fn merge(sess: &mut Session, o: Outcome, origin: &str) {
    sess.count(&format!("origin:{}", origin));
    for (op, imp) in o.k {
        sess.k(&op, &imp);
        sess.nontrivial(&op);
    }
    for _ in 0..o.o_cases {
        sess.o();
    }
    for c in o.counts {
        sess.count(&c);
    }
    for (m, h) in o.monitors {
        sess.monitor(m, h);
    }
    for (c, d, i) in o.fails {
        sess.fail(&c, d, i, None);
    }
}

pub fn run(ctx: &Ctx) {
    if let Ok(dir) = std::env::var("HV_C07_SAVE_PROBE") {
        save_probe_child(Path::new(&dir));
        return;
    }
    let mut sess = Session::new(ctx);
    let mut rng = Rng::new(ctx.seed);
    let thorough = ctx.tier == Tier::Thorough;
    let root = std::env::temp_dir().join(format!("hv-c07-{}-{}", std::process::id(), ctx.seed));
    let _ = std::fs::remove_dir_all(&root);
    std::fs::create_dir_all(&root).unwrap();
    let dict = FstDictionary::curated();
    let all: Vec<Vec<char>> = {
        let mut v: Vec<Vec<char>> = dict.words_iter().map(|w| w.to_vec()).collect();
        v.sort();
        v
    };
    let mut by_key: HashMap<String, Vec<Vec<char>>> = HashMap::new();
    for w in &all {
        by_key.entry(lownorm(w)).or_default().push(w.clone());
    }
    let names: Vec<String> = URLS.iter().map(|u| file_dict_name(&Url::parse(u).unwrap()).unwrap().to_string_lossy().to_string()).collect();
    let name_id: Vec<usize> = names.iter().map(|n| names.iter().position(|m| m == n).unwrap()).collect();
    let env = Env { root: root.clone(), by_key, all, names, name_id };
    let rt = tokio::runtime::Builder::new_current_thread().enable_all().build().unwrap();

    if let Some(v) = replay_input(ctx) {
        if let Some(h) = Hist::from_json(&v) {
            let o = run_history(&env, &h, 0);
            sess.sample(json!({"history": v, "k": o.k.first().map(|(a, b)| json!({"op": trunc(a, 400), "impl": trunc(b, 400)}))}));
            merge(&mut sess, o, "replay");
        } else if v["stream"] == "other-lints" {
            other_lints_case(&mut sess, v["w"].as_str().unwrap_or(""), v["text"].as_str().unwrap_or(""));
        }
        sess.nontrivial("replay-a");
        sess.nontrivial("replay-b");
        let _ = std::fs::remove_dir_all(&root);
        sess.finish("replay of one recorded input", false, json!({}));
        return;
    }

    // monitor: `file_dict_name` separates the two ordinary documents (its non-injectivity on paths
    // containing `%` is the recorded finding, exercised by URLs 2 and 3)
    sess.monitor("file_dict_name gives doc0.md and doc1.md different names", env.names[0] != env.names[1]);
    sess.add("file_dict_name collisions among the scenario URLs", (env.names[2] == env.names[3]) as u64);

    // ---- 1. corpus ---------------------------------------------------------------------------------
    let mut next_id = 1usize;
    let corpus = corpus_histories();
    for (name, h) in &corpus {
        let o = run_history(&env, h, next_id);
        next_id += 1;
        if sess.samples.len() < 3 {
            sess.sample(json!({"corpus": name, "history": h.to_json(), "impl": o.k.first().map(|(_, b)| trunc(b, 300))}));
        }
        merge(&mut sess, o, "corpus");
    }
    server_scenarios(&mut sess, &root, &corpus.iter().map(|(_, h)| h.to_json()).collect::<Vec<_>>());

    // ---- 2a. exhaustive: load_dict on every small file ----------------------------------------------
    {
        let tab = ['a', 'A', '\n', '\r', ' ', 'é'].iter().map(|c| tab_row(*c)).collect::<Vec<_>>().join(" ; ");
        let p = root.join("small.txt");
        let mut files: Vec<Vec<u8>> = vec![];
        let alpha5 = ['a', 'A', '\n', '\r', ' '];
        let maxlen = if thorough { 6 } else { 5 };
        for len in 0..=maxlen {
            for code in 0..5usize.pow(len as u32) {
                let mut c = code;
                let s: String = (0..len).map(|_| { let x = alpha5[c % 5]; c /= 5; x }).collect();
                files.push(s.into_bytes());
            }
        }
        // every byte prefix of every string of ≤3 characters over the alphabet with `é` (torn files)
        let alpha6 = ['a', 'A', '\n', '\r', ' ', 'é'];
        for len in 1..=3usize {
            for code in 0..6usize.pow(len as u32) {
                let mut c = code;
                let s: String = (0..len).map(|_| { let x = alpha6[c % 6]; c /= 6; x }).collect();
                if s.contains('é') {
                    let b = s.into_bytes();
                    for cut in 1..=b.len() {
                        files.push(b[..cut].to_vec());
                    }
                }
            }
        }
        for f in files {
            std::fs::write(&p, &f).unwrap();
            let op = format!("dload {} | {}", tab, disk_tokens(Some(&f)));
            let imp = format!("ok {}", reload_tokens(&rt, &p)).trim_end().to_string();
            sess.k(&op, &imp);
            sess.count("exhaustive:load_dict-small-file");
            if f.contains(&b'\n') || f.contains(&b'\r') {
                sess.nontrivial(&op);
            }
        }
    }
    // ---- 2b. exhaustive: the BufWriter rule for small capacities --------------------------------------
    {
        let piece = |n: usize| -> String { if n % 2 == 1 { format!("{}a", "é".repeat(n / 2)) } else { "é".repeat(n / 2) } };
        let maxp = if thorough { 5 } else { 4 };
        for cap in 1..=4usize {
            for len in 0..=maxp {
                for code in 0..6usize.pow(len as u32) {
                    let mut c = code;
                    let ps: Vec<String> = (0..len).map(|_| { let x = piece(c % 6); c /= 6; x }).collect();
                    let sizes = bufwriter_chunks(&rt, cap, &ps);
                    let op = format!("dchunk {} {}", cap, list_tokens_s(&ps)).trim_end().to_string();
                    let imp = format!("ok {}", sizes.iter().map(|n| n.to_string()).collect::<Vec<_>>().join(" ")).trim_end().to_string();
                    sess.k(&op, &imp);
                    sess.count("exhaustive:bufwriter-chunking");
                    if sizes.len() > 1 {
                        sess.nontrivial(&op);
                    }
                }
            }
        }
    }
    // ---- 2c. exhaustive: all histories of ≤4 (thorough ≤5) ops over a 5-op alphabet, and every crash
    //          point of one more add on every distinct file they end with --------------------------------
    {
        let q: Vec<String> = ["zqxv", "Zqxv", "qxzv"].iter().map(|s| s.to_string()).collect();
        let alphabet = [HOp::Add("zqxv".into()), HOp::Add("Zqxv".into()), HOp::Add("qxzv".into()), HOp::Restart, HOp::Lint(0, q.clone())];
        let maxlen = if thorough { 5 } else { 4 };
        let mut hs = vec![];
        for len in 0..=maxlen {
            for code in 0..5usize.pow(len as u32) {
                let mut c = code;
                let mut ops: Vec<HOp> = (0..len).map(|_| { let x = alphabet[c % 5].clone(); c /= 5; x }).collect();
                ops.push(HOp::Lint(1, q.clone()));
                hs.push(Hist { init: None, british: false, ops });
            }
        }
        let base = next_id;
        next_id += hs.len();
        let outs = par_map(hs.len(), 12, |i| run_history(&env, &hs[i], base + i));
        for o in outs {
            merge(&mut sess, o, "exhaustive-history");
        }
        // crash points: every byte offset (and "before the open") of `add vkqzé` on each distinct end file
        let mut ends: BTreeSet<Option<String>> = BTreeSet::new();
        ends.insert(None);
        for set in [vec![], vec!["zqxv"], vec!["Zqxv"], vec!["qxzv"], vec!["zqxv", "qxzv"], vec!["qxzv", "Zqxv"]] {
            ends.insert(Some(set.iter().map(|w| format!("{}\n", w)).collect()));
            if set.len() == 2 {
                ends.insert(Some(format!("{}\n{}\n", set[1], set[0])));
            }
        }
        let mut crash_h = vec![];
        for init in &ends {
            let len = init.as_ref().map(|s| s.len()).unwrap_or(0) + "vkqzé\n".len();
            crash_h.push(Hist { init: init.clone(), british: false, ops: vec![HOp::Crash("vkqzé".into(), At::Pre), HOp::Lint(0, q.clone())] });
            for b in 0..=len {
                crash_h.push(Hist { init: init.clone(), british: false, ops: vec![HOp::Crash("vkqzé".into(), At::Byte(b)), HOp::Lint(0, vec!["zqxv".into(), "Zqxv".into(), "qxzv".into(), "vkqzé".into()])] });
            }
        }
        let base = next_id;
        next_id += crash_h.len();
        let outs = par_map(crash_h.len(), 12, |i| run_history(&env, &crash_h[i], base + i));
        for o in outs {
            merge(&mut sess, o, "exhaustive-crash-point");
        }
    }
    // ---- 3. random histories --------------------------------------------------------------------------
    {
        let n = if thorough { 6000 } else { 900 };
        let hs: Vec<Hist> = (0..n).map(|_| gen_history(&mut rng)).collect();
        let base = next_id;
        next_id += hs.len();
        let outs = par_map(hs.len(), 12, |i| run_history(&env, &hs[i], base + i));
        for (i, o) in outs.into_iter().enumerate() {
            if i < 2 {
                sess.sample(json!({"random-history": hs[i].to_json(), "impl": o.k.first().map(|(_, b)| trunc(b, 300))}));
            }
            merge(&mut sess, o, "random-history");
        }
    }
    // ---- 4. large dictionaries through the real save_dict under strace ---------------------------------
    {
        let sizes: Vec<usize> = if thorough { vec![0, 1, 700, 1000, 2500, 6000] } else { vec![0, 3, 1000, 2300] };
        let mut strace_ok = 0u64;
        for (si, n) in sizes.iter().enumerate() {
            let mut words: Vec<String> = (0..*n).map(|i| format!("zq{}{}", i, "x".repeat(rng.below(9)))).collect();
            if *n >= 1000 {
                words.push("y".repeat(9000)); // a piece larger than the BufWriter goes out directly
                words.push("é".repeat(4100));
            }
            let dir = root.join(format!("strace{}", si));
            match strace_save(&dir, &words) {
                None => sess.count("strace:unavailable-or-unparsable"),
                Some(s) => {
                    strace_ok += 1;
                    let op = format!("dsave {}", list_tokens_s(&s.order)).trim_end().to_string();
                    let imp = format!("ok {} C {}", format!("F {}", chars_field(&cs(std::str::from_utf8(&s.saved).unwrap_or("?")))).trim_end(), s.writes.iter().map(|n| n.to_string()).collect::<Vec<_>>().join(" ")).trim_end().to_string();
                    sess.k(&op, &imp);
                    sess.nontrivial(&op);
                    sess.monitor("save_dict opens the file with O_TRUNC (File::create)", s.open_flags.contains("O_TRUNC") && s.open_flags.contains("O_CREAT") && s.open_flags.contains("O_WRONLY"));
                    sess.monitor("save_dict issues no fsync / rename / ftruncate / positional write on the dictionary file", s.other_syscalls.is_empty());
                    sess.add("strace:write-syscalls", s.writes.len() as u64);
                    // sampled crash prefixes of the large file through the real load_dict
                    let p = dir.join("prefix.txt");
                    let mut chars: BTreeSet<char> = BTreeSet::new();
                    chars.extend(std::str::from_utf8(&s.saved).unwrap_or("").chars());
                    let tab = chars.iter().map(|c| tab_row(*c)).collect::<Vec<_>>().join(" ; ");
                    let mut cuts: Vec<usize> = (0..if thorough { 12 } else { 5 }).map(|_| rng.below(s.saved.len() + 1)).collect();
                    let mut acc = 0;
                    for w in s.writes.iter().take(2) {
                        acc += w;
                        cuts.push(acc.min(s.saved.len()));
                    }
                    if *n > 1500 {
                        cuts.clear(); // the K line would be a megabyte; the chunk sizes above are the point
                    }
                    for cut in cuts {
                        std::fs::write(&p, &s.saved[..cut]).unwrap();
                        let op = format!("dload {} | {}", tab, disk_tokens(Some(&s.saved[..cut])));
                        let imp = format!("ok {}", reload_tokens(&rt, &p)).trim_end().to_string();
                        sess.k(&op, &imp);
                        sess.count("large-file:crash-prefix-reloaded");
                    }
                }
            }
            let _ = std::fs::remove_dir_all(&dir);
        }
        sess.add("strace:saves-traced", strace_ok);
        // the same shapes through the in-process mimic (always available)
        for n in [0usize, 1, 909, 910, 911, 2000] {
            let mut pieces = vec![];
            for i in 0..n {
                pieces.push(format!("zq{:06}", i));
                pieces.push("\n".to_string());
            }
            let sizes = bufwriter_chunks(&rt, 8192, &pieces);
            let words: Vec<String> = (0..n).map(|i| format!("zq{:06}", i)).collect();
            let op = format!("dsave {}", list_tokens_s(&words)).trim_end().to_string();
            let file: String = words.iter().map(|w| format!("{}\n", w)).collect();
            let imp = format!("ok {} C {}", format!("F {}", chars_field(&cs(&file))).trim_end(), sizes.iter().map(|n| n.to_string()).collect::<Vec<_>>().join(" ")).trim_end().to_string();
            sess.k(&op, &imp);
            sess.count("bufwriter-8192:mimicked-save");
        }
    }
    // ---- 5. all other lints are unchanged by an add -----------------------------------------------------
    {
        let sents = crate::corpus::sentences();
        let n = if thorough { 1500 } else { 260 };
        for i in 0..n {
            let s = &sents[rng.below(sents.len())];
            let mut w = gen_word(&mut rng, false);
            if FOREIGN_DIALECT.contains(&w.as_str()) || LISTED.contains(&w.as_str()) {
                w = BASE[i % BASE.len()].to_string();
            }
            // put the word at a word boundary of a rule-test sentence, sometimes twice / capitalised
            let words: Vec<&str> = s.split(' ').collect();
            let at = rng.below(words.len() + 1);
            let mut parts: Vec<String> = words.iter().map(|x| x.to_string()).collect();
            parts.insert(at, w.clone());
            if rng.chance(1, 4) {
                let mut c = cs(&w);
                c[0] = c[0].to_uppercase().next().unwrap();
                parts.push(st(&c));
            }
            other_lints_case(&mut sess, &w, &parts.join(" "));
        }
    }
    let _ = std::fs::remove_dir_all(&root);
    let extra = json!({
        "exhaustive_scope": "load_dict on all files of ≤5 (thorough ≤6) characters over {a A LF CR space} and every byte prefix of all strings of ≤3 characters over {a A LF CR space é}; tokio BufWriter chunking for capacities 1–4 × ≤4 (thorough ≤5) pieces of 0–5 bytes; all histories of ≤4 (thorough ≤5) ops over {add zqxv, add Zqxv, add qxzv, restart, lint} + a final lint in another document; every byte offset (and before-open) of the save of one more add on 9 distinct dictionary files",
        "urls": URLS, "file_dict_names": env.names,
        "server_path": "TODO(server path): harness/src/c07.rs server_scenarios — the command handler's steps are executed directly",
    });
    sess.finish(
        "K: histories of add / addFile / restart / crash@byte / lint (+ JS import / lint / export-restart) run against the real load_dict, save_dict, append_word, MergedDictionary (curated+user+file) and SpellCheck in a temp dir, and against the Lean state machine on one `dio` line each: per op the file contents, what load_dict reloads, and the accept bit of every query word that is one Word token in `We saw _ today.`; the hash-table order of words_iter is handed to the model, which refuses it unless it is a permutation of its own dictionary. Crash = the file the real save_dict wrote, truncated by hand at the byte offset, then re-read by the real load_dict. Also: load_dict on arbitrary small files incl. torn UTF-8 (dload), the BufWriter chunking rule (dchunk), large dictionaries saved by the real save_dict in a child process under strace — sizes of the write syscalls, O_TRUNC, no fsync/rename — (dsave). O (real code only): after `add w` the word is not reported in the same and in another document, at once and at every later lint incl. after restarts; after every op the user dictionary file reloads (real load_dict) to exactly the words added so far (a crash before the open or after the last write may lose only the word being added); a file-dictionary word is accepted in its own document and changes no verdict in the three other documents; JS: imported words are accepted by Linter::lint at once and later, export_words returns them, a new Linter importing the export accepts them; all non-spelling lints (full curated LintGroup) of rule-test sentences containing the word are identical before and after the add, and the only spelling lints that disappear are on the word itself. Words: lower-case nonsense, Capitalised / UPPER / mixed case, case variants of each other, ' and ’ inside, non-ASCII (é ž ß ï ö İ É Ž Ø), words of another dialect (colour …), listed words, and (K only, never judged) words no token can be: trailing space, CR, embedded LF, empty, blank. Non-trivial = distinct K lines of histories, files containing a line break, multi-write saves.",
        true,
        extra,
    );
}
