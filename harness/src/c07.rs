//! C07 — words added to a dictionary are accepted from then on and never lost.
//!
//! Real code exercised: `dictionary_io::{load_dict, save_dict, file_dict_name}` (harper-ls),
//! `MutableDictionary::append_word`, `MergedDictionary` (curated + user + file, built the way
//! `Backend::generate_file_dictionary` builds it), `LintGroup` with only `SpellCheck` enabled (and the
//! full curated group for the "other lints unchanged" clause), `harper_wasm::Linter::{import_words,
//! export_words, lint}`. Everything runs in a private directory under `std::env::temp_dir()`.
//!
//! K: a whole history goes to the Lean model on one `dio` line; per op the implementation reports
//!    the file after the op, what the real `load_dict` reloads from it, and the accept answers of
//!    the real SpellCheck. The order of `words_iter` (hash-table order) is handed to the model as data.
//!    Crash points: the bytes the real `save_dict` wrote are truncated by hand at a byte offset (all
//!    offsets for small files), the real `load_dict` reads the result.
//!    `dload` (real `load_dict` on arbitrary small files incl. torn UTF-8), `dchunk` (tokio `BufWriter`
//!    chunking rule, exhaustively for small capacities), `dsave` (a large dictionary through the real
//!    `save_dict` under `strace`: the `write` syscalls' sizes vs the model's).
//! O: the property on the real code (see `rule` at the bottom).
//!
//! Server path (`server_scenarios`): `workspace/executeCommand` `HarperAddToUserDict` /
//! `HarperAddToFileDict` through the REAL `Backend` served in-process (lsclient.rs): the LAST
//! publication for the command's document is compared with a brand-new `DocumentState` under the
//! dictionaries now on disk (so a linter that was not rebuilt shows), the other document is updated
//! and compared, a second server (restart) re-opens the documents. Probe words are chosen to collide
//! under naive dictionary fingerprints (even multiplicities, anagrams, concatenations, splits).
//! The rebuild decision itself (`MergedDictionary ==`) is compared with the model (`dfp`) and judged
//! on pairs of different word sets (`fingerprint_streams`).
//! URL kinds (`server_url_scenarios`, stream `server-url`, w24): 1–3 documents whose URLs are `file:///p`,
//! `untitled:Untitled-n`, `untitled:/p` or opaque (`zqverif:…`, a URL with a host) on the real server; the
//! command is taken from the code action the server offers; after every command: files written (the
//! whole file-dictionary directory), the response, whether anything was published, then every document
//! is checked again (didChange) and its verdicts compared with the model (`addfk` / `lintk` ops inside
//! the `dio` line carry the two bits `scheme()=="untitled"` / `to_file_path().is_ok()` computed with the
//! real `Url`) and judged (class `c07-untitled-url-file-dict-add-ignored`; a command from an `untitled:`
//! URL must leave every dictionary file byte for byte as it was: class `file-written-for-untitled-url` —
//! until repo commit 861d597 `untitled:/p` replaced the dictionary of `/p`, the retired class
//! `c07-untitled-url-overwrites-file-dict`).
//! The direct path (`run_history`) performs the handler's steps `load_dict → append_word → save_dict →
//! update_document_from_file (= reload all dictionaries, rebuild the linter if the merged dictionary
//! differs)` itself, in that order, with the same functions.
use crate::common::*;
use crate::dictionary_io::{file_dict_name, load_dict, save_dict};
use harper_core::linting::{Lint, LintGroup, LintKind, Linter};
use harper_core::parsers::PlainEnglish;
use harper_core::{
    CharStringExt, Dialect, Dictionary, Document, FstDictionary, MergedDictionary, MutableDictionary, TokenKind, WordMetadata,
};
use serde_json::{Value, json};
use std::collections::{BTreeMap, BTreeSet, HashMap};
use std::path::{Path, PathBuf};
use std::sync::Arc;
use tower_lsp::lsp_types::Url;
use crate::lsclient::LsSession;

/// documents of the scenarios; the last two have different paths but the same `file_dict_name`
const URLS: [&str; 4] = ["file:///w11/doc0.md", "file:///w11/doc1.md", "file:///w11/a/b.md", "file:///w11/a%25b.md"];

fn cs(s: &str) -> Vec<char> {
    s.chars().collect()
}
fn st(w: &[char]) -> String {
    w.iter().collect()
}
fn lownorm(w: &[char]) -> String {
    w.normalized().to_lower().iter().collect()
}
fn lownorm_s(w: &str) -> String {
    lownorm(&cs(w))
}
/// can the word be a document token (what the code action passes to the add commands)? Words that
/// are empty or contain white space (incl. CR / LF, which `str::lines` would not even give back) are
/// only reachable through `import_words` or a hand-edited file; a loader that trimmed or skipped
/// them would not violate the property, so histories containing one are not judged.
fn well_formed(w: &str) -> bool {
    !w.is_empty() && !w.chars().any(|c| c.is_whitespace())
}

// ---------------------------------------------------------------------------------------------
// line protocol (mirrors lean/Harper/Driver/DictIO.lean)
// ---------------------------------------------------------------------------------------------

fn list_tokens(ws: &[Vec<char>]) -> String {
    let mut t: Vec<String> = vec![];
    for w in ws {
        t.push("/".into());
        for c in w {
            t.push((*c as u32).to_string());
        }
    }
    t.join(" ")
}
fn list_tokens_s(ws: &[String]) -> String {
    list_tokens(&ws.iter().map(|w| cs(w)).collect::<Vec<_>>())
}
fn disk_tokens(bytes: Option<&[u8]>) -> String {
    match bytes {
        None => "absent".into(),
        Some(b) => match std::str::from_utf8(b) {
            Ok(s) => format!("t {}", chars_field(&cs(s))).trim_end().to_string(),
            Err(e) => {
                let s = std::str::from_utf8(&b[..e.valid_up_to()]).unwrap();
                format!("torn {}", chars_field(&cs(s))).trim_end().to_string()
            }
        },
    }
}
fn sorted_words(d: &MutableDictionary) -> Vec<Vec<char>> {
    let mut v: Vec<Vec<char>> = d.words_iter().map(|w| w.to_vec()).collect();
    v.sort();
    v
}
fn reload_tokens(rt: &tokio::runtime::Runtime, path: &Path) -> String {
    match rt.block_on(load_dict(path)) {
        Err(_) => "err".into(),
        Ok(d) => list_tokens(&sorted_words(&d)),
    }
}
fn fd_tokens(rt: &tokio::runtime::Runtime, path: &Path) -> String {
    let bytes = std::fs::read(path).ok();
    format!("F {} L {}", disk_tokens(bytes.as_deref()), reload_tokens(rt, path)).trim_end().to_string()
}
fn tab_row(c: char) -> String {
    let lower: Vec<char> = c.to_lowercase().collect();
    let norm = [c].normalized().to_vec();
    format!("{} , {} , {}", c as u32, chars_field(&lower), norm[0] as u32)
}

// ---------------------------------------------------------------------------------------------
// histories
// ---------------------------------------------------------------------------------------------

#[derive(Clone, Debug, PartialEq)]
enum At {
    Pre,
    Byte(usize),
}
#[derive(Clone, Debug, PartialEq)]
enum HOp {
    Add(String),
    AddFile(usize, String),
    Restart,
    Crash(String, At),
    Lint(usize, Vec<String>),
    JsImport(Vec<String>),
    JsLint(Vec<String>),
    JsRestart,
}
#[derive(Clone, Debug)]
struct Hist {
    /// user dictionary file present before the first op (a dictionary file on disk)
    init: Option<String>,
    british: bool,
    ops: Vec<HOp>,
}
impl Hist {
    fn to_json(&self) -> Value {
        let ops: Vec<Value> = self
            .ops
            .iter()
            .map(|o| match o {
                HOp::Add(w) => json!({"op": "add", "w": w}),
                HOp::AddFile(u, w) => json!({"op": "addFile", "url": URLS[*u], "w": w}),
                HOp::Restart => json!({"op": "restart"}),
                HOp::Crash(w, At::Pre) => json!({"op": "crash", "w": w, "at": "before-open"}),
                HOp::Crash(w, At::Byte(b)) => json!({"op": "crash", "w": w, "at": b}),
                HOp::Lint(u, q) => json!({"op": "lint", "url": URLS[*u], "words": q}),
                HOp::JsImport(w) => json!({"op": "jsImport", "words": w}),
                HOp::JsLint(q) => json!({"op": "jsLint", "words": q}),
                HOp::JsRestart => json!({"op": "jsRestart"}),
            })
            .collect();
        json!({"init_file": self.init, "dialect": if self.british { "British" } else { "American" }, "history": ops})
    }
    fn from_json(v: &Value) -> Option<Hist> {
        let url = |o: &Value| URLS.iter().position(|u| Some(*u) == o["url"].as_str()).unwrap_or(0);
        let words = |o: &Value| o["words"].as_array().map(|a| a.iter().filter_map(|x| x.as_str().map(|s| s.to_string())).collect::<Vec<_>>()).unwrap_or_default();
        let mut ops = vec![];
        for o in v["history"].as_array()? {
            let w = o["w"].as_str().unwrap_or("").to_string();
            ops.push(match o["op"].as_str()? {
                "add" => HOp::Add(w),
                "addFile" => HOp::AddFile(url(o), w),
                "restart" => HOp::Restart,
                "crash" => HOp::Crash(w, match o["at"].as_u64() { Some(b) => At::Byte(b as usize), None => At::Pre }),
                "lint" => HOp::Lint(url(o), words(o)),
                "jsImport" => HOp::JsImport(words(o)),
                "jsLint" => HOp::JsLint(words(o)),
                "jsRestart" => HOp::JsRestart,
                _ => return None,
            });
        }
        Some(Hist { init: v["init_file"].as_str().map(|s| s.to_string()), british: v["dialect"].as_str() == Some("British"), ops })
    }
}

struct Env {
    root: PathBuf,
    by_key: HashMap<String, Vec<Vec<char>>>,
    all: Vec<Vec<char>>,
    /// `file_dict_name` of every URL, and its first-occurrence index (the model's abstract name)
    names: Vec<String>,
    name_id: Vec<usize>,
}

#[derive(Default)]
struct Outcome {
    k: Vec<(String, String)>,
    fails: Vec<(String, String, Value)>,
    counts: Vec<String>,
    monitors: Vec<(&'static str, bool)>,
    nontrivial: Vec<String>,
    o_cases: usize,
}

fn only_spellcheck(dict: Arc<MergedDictionary>, dialect: Dialect) -> LintGroup {
    let mut lg = LintGroup::new_curated(dict, dialect);
    lg.config.clear();
    lg.set_all_rules_to(Some(false));
    lg.config.set_rule_enabled("SpellCheck", true);
    lg
}

/// what `update_document` keeps per document
struct DocState {
    dict: Arc<MergedDictionary>,
    linter: LintGroup,
    snap: (Vec<Vec<char>>, Vec<Vec<char>>),
}

const TEMPLATE_AT: usize = 7;
fn template(q: &str) -> String {
    format!("We saw {} today.", q)
}
fn one_token(doc: &Document, len: usize) -> bool {
    doc.get_tokens().iter().any(|t| matches!(t.kind, TokenKind::Word(_)) && t.span.start == TEMPLATE_AT && t.span.end == TEMPLATE_AT + len)
}
fn overlaps(l: &Lint, len: usize) -> bool {
    l.span.start < TEMPLATE_AT + len && TEMPLATE_AT < l.span.end
}

struct Real<'a> {
    env: &'a Env,
    rt: tokio::runtime::Runtime,
    user_path: PathBuf,
    fdir: PathBuf,
    dialect: Dialect,
    docs: HashMap<usize, DocState>,
    js: Option<harper_wasm::Linter>,
    monitors: Vec<(&'static str, bool)>,
}

impl<'a> Real<'a> {
    fn file_path(&self, url: usize) -> PathBuf {
        // Backend::get_file_dict_path
        self.fdir.join(file_dict_name(&Url::parse(URLS[url]).unwrap()).unwrap())
    }
    /// `load_user_dictionary` / `load_file_dictionary`: a failed load is the empty dictionary
    fn load_or_empty(&self, path: &Path) -> MutableDictionary {
        self.rt.block_on(load_dict(path)).unwrap_or(MutableDictionary::new())
    }
    /// the command handler's `load → append_word → save_dict`; returns the `words_iter` order saved
    fn add_to(&mut self, path: &Path, w: &str) -> Vec<Vec<char>> {
        let mut d = self.load_or_empty(path);
        d.append_word(cs(w), WordMetadata::default());
        let order: Vec<Vec<char>> = d.words_iter().map(|x| x.to_vec()).collect();
        self.rt.block_on(save_dict(path, d)).expect("save_dict failed in the harness's temp dir");
        order
    }
    /// `generate_file_dictionary` + the rebuild test of `update_document`
    fn update_document(&mut self, url: usize) -> &mut DocState {
        let user = self.load_or_empty(&self.user_path);
        let file = self.load_or_empty(&self.file_path(url));
        let snap = (sorted_words(&user), sorted_words(&file));
        let mut m = MergedDictionary::new();
        m.add_dictionary(FstDictionary::curated());
        m.add_dictionary(Arc::new(user));
        m.add_dictionary(Arc::new(file));
        let dict = Arc::new(m);
        let dialect = self.dialect;
        if !self.docs.contains_key(&url) {
            self.docs.insert(url, DocState { linter: only_spellcheck(dict.clone(), dialect), dict: dict.clone(), snap: snap.clone() });
        }
        let mut mon = None;
        let ds = self.docs.get_mut(&url).unwrap();
        // assumption of the model: MergedDictionary's `==` (a 64-bit hash of the words' characters in
        // words_iter order, WITHOUT word boundaries) notices every change an add can make. The empty
        // word contributes nothing to that stream, so adding it is invisible (and irrelevant: no
        // token is empty) — it is left out of the comparison.
        let ne = |s: &(Vec<Vec<char>>, Vec<Vec<char>>)| -> (Vec<Vec<char>>, Vec<Vec<char>>) {
            (s.0.iter().filter(|w| !w.is_empty()).cloned().collect(), s.1.iter().filter(|w| !w.is_empty()).cloned().collect())
        };
        if ne(&ds.snap) != ne(&snap) {
            mon = Some(ds.dict != dict);
        }
        if ds.dict != dict {
            ds.dict = dict.clone();
            ds.linter = only_spellcheck(dict.clone(), dialect);
            ds.snap = snap;
        }
        if let Some(m) = mon {
            self.monitors.push(("MergedDictionary::eq (64-bit hash of the word stream) notices the changed dictionary", m));
        }
        self.docs.get_mut(&url).unwrap()
    }
    /// a document update followed by a check of `We saw <q> today.`: `Some(accepted)` when `q` is one
    /// Word token there
    fn lint_words(&mut self, url: usize, qs: &[String]) -> Vec<Option<bool>> {
        let ds = self.update_document(url);
        qs.iter()
            .map(|q| {
                let text = template(q);
                let len = q.chars().count();
                let doc = Document::new(&text, &PlainEnglish, &ds.dict);
                if !one_token(&doc, len) {
                    return None;
                }
                let flagged = ds.linter.lint(&doc).iter().any(|l| l.lint_kind == LintKind::Spelling && overlaps(l, len));
                Some(!flagged)
            })
            .collect()
    }
    fn js(&mut self) -> &mut harper_wasm::Linter {
        if self.js.is_none() {
            self.js = Some(harper_wasm::Linter::new(if self.dialect == Dialect::British { harper_wasm::Dialect::British } else { harper_wasm::Dialect::American }));
        }
        self.js.as_mut().unwrap()
    }
    fn js_lint_words(&mut self, qs: &[String]) -> Vec<Option<bool>> {
        let cur = FstDictionary::curated();
        qs.iter()
            .map(|q| {
                let text = template(q);
                let len = q.chars().count();
                let doc = Document::new(&text, &PlainEnglish, &cur);
                if !one_token(&doc, len) {
                    return None;
                }
                let lints = self.js().lint(text, harper_wasm::Language::Plain);
                let mut spelling = false;
                for l in &lints {
                    let sp = l.span();
                    if sp.start < TEMPLATE_AT + len && TEMPLATE_AT < sp.end {
                        if l.lint_kind() == "Spelling" {
                            spelling = true;
                        } else {
                            return None; // remove_overlaps may have dropped a spelling lint here
                        }
                    }
                }
                Some(!spelling)
            })
            .collect()
    }
}

/// everything the oracle needs to know about one dictionary (user, one file dictionary, JS)
#[derive(Default, Clone)]
struct Ledger {
    /// (word, index of the op that added it; 0 = was in the file at the start)
    added: Vec<(String, usize)>,
    /// words whose add crashed strictly inside the save, or before the open (may legitimately be missing)
    optional: Vec<String>,
    /// indices of crash ops strictly inside a save
    crashes: Vec<usize>,
}
impl Ledger {
    fn partner(&self, w: &str) -> bool {
        let k = lownorm_s(w);
        self.added.iter().map(|(x, _)| x).chain(self.optional.iter()).any(|x| x != w && lownorm_s(x) == k)
    }
    fn crash_since(&self, idx: usize) -> bool {
        self.crashes.iter().any(|c| *c >= idx)
    }
    /// why may `w` (added at `idx`) be missing from the reloaded dictionary?
    fn class_lost(&self, w: &str, idx: usize) -> &'static str {
        if self.partner(w) {
            "c07-case-collision"
        } else if self.crash_since(idx) {
            "c07-crash-during-save"
        } else {
            "word-lost"
        }
    }
}

fn other_dialect(w: &str, dialect: Dialect) -> bool {
    FstDictionary::curated().get_word_metadata(&cs(w)).is_some_and(|m| m.dialect.is_some_and(|d| d != dialect))
}

/// why may `w`, present in the dictionary with exactly this spelling, still be reported?
fn class_flagged_present(led: &Ledger, w: &str, dialect: Dialect, js: bool) -> &'static str {
    let c = cs(w);
    if c.normalized().as_ref() != c.as_slice() {
        "c07-unnormalized-word"
    } else if other_dialect(w, dialect) {
        "c07-other-dialect-word"
    } else if js && led.partner(w) {
        "c07-case-collision" // import_words skipped synchronize_lint_dict: the count did not grow
    } else {
        "added-word-flagged"
    }
}

/// the `dio` line of a history (see lean/Harper/Driver/DictIO.lean) and the implementation's answer
fn build_dio_line(env: &Env, salt: usize, chars: &mut BTreeSet<char>, keys: &BTreeSet<String>, dialect: Dialect, disk0: &str, op_txt: &[String], res_txt: &[String]) -> (String, String) {
    let mut cur: Vec<Vec<char>> = vec![];
    for k in keys {
        if let Some(v) = env.by_key.get(k) {
            cur.extend(v.iter().cloned());
        }
    }
    // two decoys
    cur.push(env.all[(salt * 7919) % env.all.len()].clone());
    cur.push(env.all[(salt * 104729 + 13) % env.all.len()].clone());
    cur.sort();
    cur.dedup();
    let curated = FstDictionary::curated();
    let cur_txt = cur
        .iter()
        .map(|c| {
            chars.extend(c.iter());
            let ok = curated.get_word_metadata(c).map(|m| m.dialect.is_none_or(|d| d == dialect)).unwrap_or(false);
            format!("{} {}", ok as u8, chars_field(c))
        })
        .collect::<Vec<_>>()
        .join(" ; ");
    let tab = chars.iter().map(|c| tab_row(*c)).collect::<Vec<_>>().join(" ; ");
    let line = format!("dio {} | {} | {} | {}", tab, cur_txt, disk0, op_txt.join(" ; "));
    let imp = format!("ok {}", res_txt.join(" ; ")).trim_end().to_string();
    (line, imp)
}

fn run_history(env: &Env, hist: &Hist, id: usize) -> Outcome {
    let mut out = Outcome::default();
    let input = hist.to_json();
    let r = guarded(|| run_history_inner(env, hist, id, &input));
    match r {
        Ok(o) => out = o,
        Err(m) => out.fails.push(("panic".into(), format!("the history panicked: {}", m), input)),
    }
    let _ = std::fs::remove_dir_all(env.root.join(format!("h{}", id)));
    out
}

fn run_history_inner(env: &Env, hist: &Hist, id: usize, input: &Value) -> Outcome {
    let mut out = Outcome::default();
    let dir = env.root.join(format!("h{}", id));
    let _ = std::fs::remove_dir_all(&dir);
    std::fs::create_dir_all(&dir).unwrap();
    let dialect = if hist.british { Dialect::British } else { Dialect::American };
    let mut real = Real {
        env,
        rt: tokio::runtime::Builder::new_current_thread().enable_all().build().unwrap(),
        user_path: dir.join("dictionary.txt"),
        fdir: dir.join("file_dictionaries"),
        dialect,
        docs: HashMap::new(),
        js: None,
        monitors: vec![],
    };
    let mut chars: BTreeSet<char> = BTreeSet::new();
    let mut keys: BTreeSet<String> = BTreeSet::new();
    let mut note = |chars: &mut BTreeSet<char>, s: &str| chars.extend(s.chars());
    let mut user = Ledger::default();
    let mut files: BTreeMap<usize, Ledger> = BTreeMap::new();
    let mut js = Ledger::default();
    // histories containing a word no document token can be (empty, white space, CR, LF) are compared
    // with the model (K) but not judged (O): no language-server command can add such a word — the
    // code action takes the word from a document token
    let mut junk = false;
    if let Some(init) = &hist.init {
        std::fs::write(&real.user_path, init).unwrap();
        note(&mut chars, init);
        for l in init.lines() {
            user.added.push((l.to_string(), 0));
        }
        if init.lines().any(|l| !well_formed(l)) {
            junk = true;
        }
    }
    let disk0 = disk_tokens(hist.init.as_ref().map(|s| s.as_bytes()));
    let mut op_txt: Vec<String> = vec![];
    let mut res_txt: Vec<String> = vec![];
    let fail = |out: &mut Outcome, class: &str, desc: String| out.fails.push((class.to_string(), desc, input.clone()));

    for (i0, op) in hist.ops.iter().enumerate() {
        let idx = i0 + 1;
        match op {
            HOp::Add(w) | HOp::Crash(w, _) => {
                note(&mut chars, w);
                if !well_formed(w) {
                    junk = true;
                }
                let old = std::fs::read(&real.user_path).ok();
                let up = real.user_path.clone();
                let order = real.add_to(&up, w);
                for o in &order {
                    chars.extend(o.iter());
                }
                let full = std::fs::read(&real.user_path).unwrap();
                if let HOp::Crash(_, at) = op {
                    let at_txt = match at {
                        At::Pre => {
                            match &old {
                                Some(b) => std::fs::write(&real.user_path, b).unwrap(),
                                None => std::fs::remove_file(&real.user_path).unwrap(),
                            }
                            user.optional.push(w.clone());
                            out.counts.push("crash:before-open".into());
                            "pre".to_string()
                        }
                        At::Byte(b) => {
                            let b = (*b).min(full.len());
                            std::fs::write(&real.user_path, &full[..b]).unwrap();
                            if b < full.len() {
                                user.crashes.push(idx);
                                user.optional.push(w.clone());
                                out.counts.push(if b == 0 { "crash:after-open" } else { "crash:inside-write" }.into());
                            } else {
                                user.added.push((w.clone(), idx));
                                out.counts.push("crash:after-last-write".into());
                            }
                            b.to_string()
                        }
                    };
                    real.docs.clear(); // the process died
                    op_txt.push(format!("crash , {} , {} , {}", chars_field(&cs(w)), list_tokens(&order), at_txt));
                } else {
                    user.added.push((w.clone(), idx));
                    op_txt.push(format!("add , {} , {}", chars_field(&cs(w)), list_tokens(&order)));
                    // the handler's `update_document_from_file` for the document the command came from
                    real.update_document(0);
                }
                res_txt.push(fd_tokens(&real.rt, &real.user_path));
                if let Ok(s) = std::str::from_utf8(&std::fs::read(&real.user_path).unwrap_or_default()) {
                    note(&mut chars, s);
                }
                // O: right after an add the word is accepted in the same and in another document
                if matches!(op, HOp::Add(_)) && !junk {
                    for url in [0usize, 1] {
                        out.o_cases += 1;
                        match real.lint_words(url, &[w.clone()])[0] {
                            None => out.counts.push("o:skipped-not-one-word-token".into()),
                            Some(true) => out.counts.push("o:accepted-after-add".into()),
                            Some(false) => {
                                let present = real.load_or_empty(&real.user_path).words_iter().any(|x| x == cs(w).as_slice());
                                let class = if present { class_flagged_present(&user, w, dialect, false) } else { user.class_lost(w, idx) };
                                fail(&mut out, class, format!("`{}` is reported in {} right after HarperAddToUserDict (op {})", w, URLS[url], idx));
                            }
                        }
                    }
                }
            }
            HOp::AddFile(url, w) => {
                note(&mut chars, w);
                if !well_formed(w) {
                    junk = true;
                }
                let nid = env.name_id[*url];
                // answers in every document before the add (for the isolation clause)
                let before: Vec<Option<bool>> = (0..URLS.len()).map(|u| real.lint_words(u, &[w.clone()])[0]).collect();
                let p = real.file_path(*url);
                let order = real.add_to(&p, w);
                for o in &order {
                    chars.extend(o.iter());
                }
                real.update_document(*url);
                files.entry(nid).or_default().added.push((w.clone(), idx));
                op_txt.push(format!("addf , {} , {} , {}", nid, chars_field(&cs(w)), list_tokens(&order)));
                res_txt.push(fd_tokens(&real.rt, &p));
                if !junk {
                    let after: Vec<Option<bool>> = (0..URLS.len()).map(|u| real.lint_words(u, &[w.clone()])[0]).collect();
                    for u in 0..URLS.len() {
                        out.o_cases += 1;
                        if u == *url {
                            match after[u] {
                                None => out.counts.push("o:skipped-not-one-word-token".into()),
                                Some(true) => out.counts.push("o:file-word-accepted-in-its-file".into()),
                                Some(false) => {
                                    let led = files.get(&nid).unwrap();
                                    let present = real.load_or_empty(&p).words_iter().any(|x| x == cs(w).as_slice());
                                    let class = if present { class_flagged_present(led, w, dialect, false) } else { led.class_lost(w, idx) };
                                    fail(&mut out, class, format!("`{}` is reported in {} right after HarperAddToFileDict for that document (op {})", w, URLS[u], idx));
                                }
                            }
                        } else if before[u] != after[u] {
                            let class = if env.names[u] == env.names[*url] { "c07-file-dict-name-collision" } else { "file-word-leaks" };
                            fail(&mut out, class, format!("adding `{}` to the file dictionary of {} changed its verdict in {} ({:?} → {:?})", w, URLS[*url], URLS[u], before[u], after[u]));
                        } else {
                            out.counts.push("o:file-word-isolated".into());
                        }
                    }
                }
            }
            HOp::Restart => {
                real.docs.clear();
                op_txt.push("restart".into());
                res_txt.push("r".into());
                out.counts.push("restart".into());
            }
            HOp::Lint(url, qs) => {
                for q in qs {
                    note(&mut chars, q);
                }
                let ans = real.lint_words(*url, qs);
                let nid = env.name_id[*url];
                let mut kept = vec![];
                let mut bits = vec!["A".to_string()];
                for (q, a) in qs.iter().zip(&ans) {
                    let Some(a) = a else {
                        out.counts.push("k:query-not-one-word-token".into());
                        continue;
                    };
                    kept.push(q.clone());
                    bits.push(if *a { "1" } else { "0" }.into());
                    keys.insert(lownorm_s(q));
                    keys.insert(lownorm(&cs(q).to_lower()));
                    if junk {
                        continue;
                    }
                    // O: every word added so far (user dictionary, this document's file dictionary)
                    let file_led = files.get(&nid);
                    let hit_user = user.added.iter().rev().find(|(x, _)| x == q);
                    let hit_file = file_led.and_then(|l| l.added.iter().rev().find(|(x, _)| x == q));
                    if hit_user.is_none() && hit_file.is_none() {
                        continue;
                    }
                    out.o_cases += 1;
                    if *a {
                        out.counts.push("o:added-word-accepted-later".into());
                        continue;
                    }
                    // reported: find out whether the word is still in a dictionary with this spelling
                    let in_user = real.load_or_empty(&real.user_path).words_iter().any(|x| x == cs(q).as_slice());
                    let in_file = real.load_or_empty(&real.file_path(*url)).words_iter().any(|x| x == cs(q).as_slice());
                    let class = if let Some((_, ai)) = hit_user {
                        if in_user { class_flagged_present(&user, q, dialect, false) } else { user.class_lost(q, *ai) }
                    } else {
                        let (_, ai) = hit_file.unwrap();
                        let led = file_led.unwrap();
                        if in_file { class_flagged_present(led, q, dialect, false) } else { led.class_lost(q, *ai) }
                    };
                    fail(&mut out, class, format!("`{}` was added earlier but is reported in {} at op {}", q, URLS[*url], idx));
                }
                op_txt.push(format!("lint , {} , {}", nid, list_tokens_s(&kept)).trim_end().to_string());
                res_txt.push(bits.join(" "));
            }
            HOp::JsImport(ws) => {
                for w in ws {
                    note(&mut chars, w);
                    js.added.push((w.clone(), idx));
                }
                real.js().import_words(ws.clone());
                let n = real.js().export_words().len();
                op_txt.push(format!("jimp , {}", list_tokens_s(ws)).trim_end().to_string());
                res_txt.push(format!("N {}", n));
                // O: imported words are accepted at once
                let ans = real.js_lint_words(ws);
                let export: Vec<String> = real.js().export_words();
                for (w, a) in ws.iter().zip(&ans) {
                    out.o_cases += 1;
                    match a {
                        None => out.counts.push("o:skipped-not-one-word-token".into()),
                        Some(true) => out.counts.push("o:js-imported-word-accepted".into()),
                        Some(false) => {
                            // a later word of the same import call may have replaced it
                            let class = if export.contains(w) { class_flagged_present(&js, w, dialect, true) } else { js.class_lost(w, idx) };
                            fail(&mut out, class, format!("`{}` is reported by Linter::lint right after import_words (op {}; export_words {} it)", w, idx, if export.contains(w) { "contains" } else { "does not contain" }));
                        }
                    }
                }
            }
            HOp::JsLint(qs) => {
                for q in qs {
                    note(&mut chars, q);
                }
                let ans = real.js_lint_words(qs);
                let export: Vec<String> = real.js().export_words();
                let mut kept = vec![];
                let mut bits = vec!["A".to_string()];
                for (q, a) in qs.iter().zip(&ans) {
                    let Some(a) = a else {
                        out.counts.push("k:query-not-one-word-token".into());
                        continue;
                    };
                    kept.push(q.clone());
                    bits.push(if *a { "1" } else { "0" }.into());
                    keys.insert(lownorm_s(q));
                    keys.insert(lownorm(&cs(q).to_lower()));
                    if let Some((_, ai)) = js.added.iter().rev().find(|(x, _)| x == q) {
                        out.o_cases += 1;
                        if *a {
                            out.counts.push("o:js-imported-word-accepted-later".into());
                        } else {
                            let class = if export.contains(q) { class_flagged_present(&js, q, dialect, true) } else { js.class_lost(q, *ai) };
                            fail(&mut out, class, format!("`{}` was imported earlier but is reported by Linter::lint at op {}", q, idx));
                        }
                    }
                }
                op_txt.push(format!("jlint , {}", list_tokens_s(&kept)).trim_end().to_string());
                res_txt.push(bits.join(" "));
            }
            HOp::JsRestart => {
                let ord: Vec<String> = real.js().export_words();
                for w in &ord {
                    note(&mut chars, w);
                }
                real.js = None;
                real.js().import_words(ord.clone());
                let mut sorted: Vec<Vec<char>> = ord.iter().map(|w| cs(w)).collect();
                sorted.sort();
                op_txt.push(format!("jrst , {}", list_tokens_s(&ord)).trim_end().to_string());
                res_txt.push(format!("E {}", list_tokens(&sorted)).trim_end().to_string());
                // O: the export holds every imported word (exact spelling)
                for (w, ai) in &js.added {
                    out.o_cases += 1;
                    if !ord.contains(w) {
                        let class = js.class_lost(w, *ai);
                        fail(&mut out, class, format!("`{}` was imported but export_words does not return it (op {})", w, idx));
                    }
                }
            }
        }
        // O: never lost — after every op the user dictionary file reloads to exactly the words added so far
        if !junk && matches!(op, HOp::Add(_) | HOp::Crash(..) | HOp::Restart | HOp::AddFile(..)) {
            out.o_cases += 1;
            let actual: Vec<String> = real.load_or_empty(&real.user_path).words_iter().map(st).collect();
            let mut ok = true;
            let mut seen = BTreeSet::new();
            for (w, ai) in &user.added {
                if !seen.insert(w.clone()) {
                    continue;
                }
                if !actual.contains(w) {
                    ok = false;
                    let class = user.class_lost(w, *ai);
                    fail(&mut out, class, format!("after op {} the user dictionary file no longer holds `{}` (added at op {}); it reloads to {:?}", idx, w, ai, actual));
                }
            }
            for w in &actual {
                if !user.added.iter().any(|(x, _)| x == w) && !user.optional.contains(w) {
                    ok = false;
                    let class = if !user.crashes.is_empty() { "c07-crash-during-save" } else { "word-invented" };
                    fail(&mut out, class, format!("after op {} the user dictionary file holds `{}`, which nobody added", idx, w));
                }
            }
            if ok {
                out.counts.push("o:file-reloads-to-added-words".into());
            }
        }
        // (w25) O: the same clause for every FILE dictionary (no crash op touches one): it reloads to exactly the
        // words added to it so far
        if !junk && matches!(op, HOp::AddFile(..) | HOp::Restart) {
            for (nid, led) in &files {
                let Some(u) = (0..URLS.len()).find(|u| env.name_id[*u] == *nid) else { continue };
                out.o_cases += 1;
                let actual: Vec<String> = real.load_or_empty(&real.file_path(u)).words_iter().map(st).collect();
                let mut ok = true;
                let mut seen = BTreeSet::new();
                for (w, ai) in &led.added {
                    if seen.insert(w.clone()) && !actual.contains(w) {
                        ok = false;
                        fail(&mut out, led.class_lost(w, *ai), format!("after op {} the file dictionary `{}` no longer holds `{}` (added at op {}); it reloads to {:?}", idx, env.names[u], w, ai, actual));
                    }
                }
                for w in &actual {
                    if !led.added.iter().any(|(x, _)| x == w) {
                        ok = false;
                        fail(&mut out, "word-invented", format!("after op {} the file dictionary `{}` holds `{}`, which nobody added to it", idx, env.names[u], w));
                    }
                }
                if ok {
                    out.counts.push("o:file-dictionary-reloads-to-added-words".into());
                }
            }
        }
    }
    // ---- the K line ------------------------------------------------------------------------------
    out.k.push(build_dio_line(env, id, &mut chars, &keys, dialect, &disk0, &op_txt, &res_txt));
    // monitors of the model's parameters: lower / normalize act character by character
    for c in &chars {
        let one = [*c];
        let lw: Vec<char> = c.to_lowercase().collect();
        out.monitors.push(("to_lower is per-character to_lowercase (the all-lower-case shortcut changes nothing)", one.to_lower().as_ref() == lw.as_slice()));
    }
    out.monitors.append(&mut real.monitors);
    if junk {
        out.counts.push("history:with-a-word-no-token-can-be (K only)".into());
    }
    if !user.crashes.is_empty() {
        out.counts.push("history:with-crash-inside-save".into());
    }
    out.counts.push(format!("history:len-{}", hist.ops.len().min(15)));
    out
}

// ---------------------------------------------------------------------------------------------
// generators
// ---------------------------------------------------------------------------------------------

// the last three: every character an even number of times (invisible to an XOR fingerprint)
const BASE: [&str; 11] = ["zqxv", "qxzv", "vkqz", "xqzk", "zqxvw", "kvxq", "qzxk", "wqxz", "zqzq", "xkkx", "vvqqvv"];
const FOREIGN_DIALECT: [&str; 4] = ["colour", "realise", "centre", "honour"];
const LISTED: [&str; 3] = ["house", "Paris", "banana"];
const JUNK: [&str; 7] = ["zqxv ", "zqxv\r", "zq\nxv", "", " ", "\tzq", "zq\r\nxv"];

fn gen_word(rng: &mut Rng, junk_ok: bool) -> String {
    let b = rng.pick(&BASE).to_string();
    match rng.below(if junk_ok { 16 } else { 15 }) {
        0..=4 => b,
        5 => {
            let mut c = cs(&b);
            c[0] = c[0].to_ascii_uppercase();
            st(&c)
        }
        6 => b.to_uppercase(),
        7 => cs(&b).iter().map(|c| if rng.chance(1, 2) { c.to_ascii_uppercase() } else { *c }).collect(),
        8 => format!("{}'{}", &b[..2], &b[2..]),
        9 => format!("{}’{}", &b[..2], &b[2..]),
        10 => format!("{}{}", b, rng.pick(&["é", "ž", "ß", "ï", "ö"])),
        11 => format!("{}{}", rng.pick(&["İ", "É", "Ž", "Ø"]), b),
        12 => rng.pick(&FOREIGN_DIALECT).to_string(),
        13 => rng.pick(&LISTED).to_string(),
        14 => format!("{}{}", b, (b'a' + rng.below(26) as u8) as char),
        _ => rng.pick(&JUNK).to_string(),
    }
}

fn gen_history(rng: &mut Rng) -> Hist {
    let junk_ok = rng.chance(1, 8);
    let with_js = rng.chance(1, 4);
    let mut pool: Vec<String> = (0..rng.range(2, 5)).map(|_| gen_word(rng, junk_ok)).collect();
    // case variants of pool words (collisions)
    if rng.chance(1, 3) {
        let w = pool[0].clone();
        let v: String = if w.chars().any(|c| c.is_uppercase()) { w.to_lowercase() } else { let mut c = cs(&w); if !c.is_empty() { c[0] = c[0].to_ascii_uppercase(); } st(&c) };
        pool.push(v);
    }
    let init = match rng.below(10) {
        0 => Some(format!("{}\n{}\n", pool[0], BASE[7])),
        1 => Some(format!("{}\r\n{}", BASE[6], BASE[5])),
        2 if junk_ok => Some((0..rng.range(0, 8)).map(|_| *rng.pick(&['a', 'A', '\n', '\r', ' ', 'é'])).collect()),
        3 => Some(String::new()),
        _ => None,
    };
    let n = rng.range(3, 14);
    let mut ops = vec![];
    for _ in 0..n {
        let w = rng.pick(&pool).clone();
        let qs = |rng: &mut Rng, pool: &Vec<String>| -> Vec<String> {
            let mut q: Vec<String> = pool.clone();
            if rng.chance(1, 2) {
                q.push(rng.pick(&BASE).to_uppercase());
            }
            q
        };
        let r = rng.below(100);
        ops.push(if with_js && r < 45 {
            match rng.below(6) {
                0..=2 => HOp::JsImport((0..rng.range(1, 3)).map(|_| rng.pick(&pool).clone()).collect()),
                3..=4 => HOp::JsLint(qs(rng, &pool)),
                _ => HOp::JsRestart,
            }
        } else if r < 40 {
            HOp::Add(w)
        } else if r < 52 {
            let nurl = if rng.chance(1, 6) { 4 } else { 2 };
            HOp::AddFile(rng.below(nurl), w)
        } else if r < 80 {
            HOp::Lint(rng.below(2), qs(rng, &pool))
        } else if r < 90 {
            HOp::Restart
        } else {
            let at = match rng.below(5) { 0 => At::Pre, 1 => At::Byte(0), 2 => At::Byte(usize::MAX), _ => At::Byte(rng.below(40)) };
            HOp::Crash(w, at)
        });
    }
    Hist { init, british: rng.chance(1, 6), ops }
}

fn corpus_histories() -> Vec<(&'static str, Hist)> {
    let l = |u: usize, q: &[&str]| HOp::Lint(u, q.iter().map(|s| s.to_string()).collect());
    let a = |w: &str| HOp::Add(w.to_string());
    vec![
        // finding 9b: the later case variant replaces the earlier word
        ("case-collision", Hist { init: None, british: false, ops: vec![a("zqxv"), l(0, &["zqxv"]), a("Zqxv"), l(0, &["zqxv", "Zqxv"])] }),
        // finding 9a: a crash right after the open loses every word
        ("crash-after-open", Hist { init: None, british: false, ops: vec![a("zqxv"), a("qxzv"), HOp::Crash("vkqz".into(), At::Byte(0)), l(0, &["zqxv", "qxzv", "vkqz"])] }),
        ("crash-inside-write", Hist { init: None, british: false, ops: vec![a("zqxv"), a("qxzv"), HOp::Crash("vkqzé".into(), At::Byte(7)), l(0, &["zqxv", "qxzv"]), a("kvxq"), l(1, &["zqxv", "qxzv", "kvxq"])] }),
        ("crash-harmless", Hist { init: None, british: false, ops: vec![a("zqxv"), HOp::Crash("qxzv".into(), At::Pre), l(0, &["zqxv", "qxzv"]), HOp::Crash("qxzv".into(), At::Byte(usize::MAX)), l(0, &["zqxv", "qxzv"])] }),
        ("curly-apostrophe", Hist { init: None, british: false, ops: vec![a("zq’xv"), l(0, &["zq’xv", "zq'xv"]), a("zq'xv"), l(0, &["zq’xv", "zq'xv"])] }),
        ("other-dialect", Hist { init: None, british: false, ops: vec![a("colour"), l(0, &["colour", "color"]), HOp::Restart, l(1, &["colour"])] }),
        ("file-dict", Hist { init: None, british: false, ops: vec![HOp::AddFile(0, "zqxv".into()), l(0, &["zqxv"]), l(1, &["zqxv"]), HOp::Restart, l(0, &["zqxv"]), l(1, &["zqxv"])] }),
        ("file-dict-name-collision", Hist { init: None, british: false, ops: vec![HOp::AddFile(2, "zqxv".into()), l(2, &["zqxv"]), l(3, &["zqxv"])] }),
        ("js-stale", Hist { init: None, british: false, ops: vec![HOp::JsImport(vec!["Zqxv".into()]), HOp::JsLint(vec!["Zqxv".into(), "zqxv".into()]), HOp::JsImport(vec!["zqxv".into()]), HOp::JsLint(vec!["Zqxv".into(), "zqxv".into()]), HOp::JsRestart, HOp::JsLint(vec!["Zqxv".into(), "zqxv".into()])] }),
        ("js-plain", Hist { init: None, british: false, ops: vec![HOp::JsImport(vec!["zqxv".into(), "qxzv".into()]), HOp::JsLint(vec!["zqxv".into(), "qxzv".into(), "vkqz".into()]), HOp::JsRestart, HOp::JsLint(vec!["zqxv".into(), "qxzv".into()]), HOp::JsImport(vec!["zqxv ".into(), "".into(), "zq\nxv".into()]), HOp::JsLint(vec!["zqxv".into()])] }),
        ("file-on-disk", Hist { init: Some("zqxv\r\nqxzv\nvkqz".into()), british: false, ops: vec![l(0, &["zqxv", "qxzv", "vkqz"]), a("kvxq"), HOp::Restart, l(1, &["zqxv", "qxzv", "vkqz", "kvxq"])] }),
        ("file-on-disk-blank-lines", Hist { init: Some("zqxv\r\nqxzv\n\n vkqz \n".into()), british: false, ops: vec![l(0, &["zqxv", "qxzv", "vkqz"]), a("kvxq"), HOp::Restart, l(1, &["zqxv", "qxzv", "vkqz", "kvxq"])] }),
        ("ill-formed-words", Hist { init: Some("Zqxv\r\r\n".into()), british: false, ops: vec![a("zqxv"), l(0, &["zqxv", "Zqxv"]), a("zq\nxv"), a("qxzv\r"), a(""), a(" "), HOp::Restart, l(0, &["zqxv", "zq", "xv", "qxzv"])] }),
    ]
}

// ---------------------------------------------------------------------------------------------
// the tokio BufWriter rule, a sink that records every write it receives
// ---------------------------------------------------------------------------------------------

struct Recorder(Vec<usize>);
impl tokio::io::AsyncWrite for Recorder {
    fn poll_write(mut self: std::pin::Pin<&mut Self>, _: &mut std::task::Context<'_>, buf: &[u8]) -> std::task::Poll<std::io::Result<usize>> {
        self.0.push(buf.len());
        std::task::Poll::Ready(Ok(buf.len()))
    }
    fn poll_flush(self: std::pin::Pin<&mut Self>, _: &mut std::task::Context<'_>) -> std::task::Poll<std::io::Result<()>> {
        std::task::Poll::Ready(Ok(()))
    }
    fn poll_shutdown(self: std::pin::Pin<&mut Self>, _: &mut std::task::Context<'_>) -> std::task::Poll<std::io::Result<()>> {
        std::task::Poll::Ready(Ok(()))
    }
}

/// `write_word_list`'s loop shape (`write_all` per piece, `flush` at the end) over a recording sink
fn bufwriter_chunks(rt: &tokio::runtime::Runtime, cap: usize, pieces: &[String]) -> Vec<usize> {
    use tokio::io::AsyncWriteExt;
    rt.block_on(async {
        let mut w = tokio::io::BufWriter::with_capacity(cap, Recorder(vec![]));
        for p in pieces {
            w.write_all(p.as_bytes()).await.unwrap();
        }
        w.flush().await.unwrap();
        w.into_inner().0
    })
}

// ---------------------------------------------------------------------------------------------
// strace of the real save_dict in a child process (this binary with HV_C07_SAVE_PROBE set)
// ---------------------------------------------------------------------------------------------

/// child side: build a dictionary from `<dir>/words.txt` (one word per line), write the `words_iter`
/// order to `<dir>/order.txt`, then call the real `save_dict(<dir>/saved.txt)`
fn save_probe_child(dir: &Path) {
    let words = std::fs::read_to_string(dir.join("words.txt")).unwrap();
    let mut d = MutableDictionary::new();
    for w in words.lines() {
        d.append_word(cs(w), WordMetadata::default());
    }
    let order: Vec<String> = d.words_iter().map(st).collect();
    std::fs::write(dir.join("order.txt"), order.join("\n")).unwrap();
    let rt = tokio::runtime::Builder::new_current_thread().enable_all().build().unwrap();
    eprintln!("C07-PROBE-BEGIN");
    rt.block_on(save_dict(dir.join("saved.txt"), d)).unwrap();
    eprintln!("C07-PROBE-END");
}

struct Straced {
    order: Vec<String>,
    open_flags: String,
    writes: Vec<usize>,
    other_syscalls: Vec<String>,
    saved: Vec<u8>,
}

fn strace_save(dir: &Path, words: &[String]) -> Option<Straced> {
    std::fs::create_dir_all(dir).ok()?;
    std::fs::write(dir.join("words.txt"), words.join("\n")).ok()?;
    let exe = std::env::current_exe().ok()?;
    let tr = dir.join("strace.txt");
    let st = std::process::Command::new("strace")
        .args(["-f", "-e", "trace=openat,open,creat,write,pwrite64,writev,close,fsync,fdatasync,ftruncate,rename,renameat,renameat2,unlink,unlinkat", "-o"])
        .arg(&tr)
        .arg(&exe)
        .arg("C07")
        .env("HV_C07_SAVE_PROBE", dir)
        .stdout(std::process::Stdio::null())
        .stderr(std::process::Stdio::null())
        .status()
        .ok()?;
    if !st.success() {
        return None;
    }
    let log = std::fs::read_to_string(&tr).ok()?;
    let target = dir.join("saved.txt");
    let target = target.to_string_lossy();
    let mut fd: Option<String> = None;
    let mut open_flags = String::new();
    let mut writes = vec![];
    let mut other = vec![];
    let mut closed = false;
    // with -f a syscall of one thread can be split into `<unfinished ...>` / `<... resumed>` lines
    let mut pending: HashMap<String, String> = HashMap::new();
    let mut calls: Vec<String> = vec![];
    for line in log.lines() {
        let mut it = line.splitn(2, ' ');
        let pid = it.next().unwrap_or("").to_string();
        let body = it.next().unwrap_or("").trim_start();
        if let Some(head) = body.strip_suffix("<unfinished ...>") {
            pending.insert(pid, head.to_string());
        } else if body.starts_with("<... ") {
            let rest = body.splitn(2, "resumed>").nth(1).unwrap_or("");
            let head = pending.remove(&pid).unwrap_or_default();
            calls.push(format!("{}{}", head, rest));
        } else {
            calls.push(body.to_string());
        }
    }
    for body in &calls {
        if fd.is_none() {
            if body.starts_with("openat(") && body.contains(target.as_ref()) {
                open_flags = body.split(", ").nth(2).unwrap_or("").to_string();
                fd = body.rsplit("= ").next().map(|s| s.trim().to_string());
            }
            continue;
        }
        if closed {
            continue;
        }
        let f = fd.as_ref().unwrap();
        if body.starts_with(&format!("write({},", f)) {
            if let Some(n) = body.rsplit("= ").next().and_then(|s| s.trim().parse::<usize>().ok()) {
                writes.push(n);
            }
        } else if body.starts_with(&format!("close({})", f)) {
            closed = true;
        } else if ["fsync", "fdatasync", "ftruncate", "rename", "unlink", "pwrite64", "writev"].iter().any(|s| body.starts_with(s)) {
            other.push(body.split('(').next().unwrap_or("").to_string());
        }
    }
    if !closed {
        return None;
    }
    let order = std::fs::read_to_string(dir.join("order.txt")).ok()?;
    let order: Vec<String> = if order.is_empty() && words.is_empty() { vec![] } else { order.split('\n').map(|s| s.to_string()).collect() };
    Some(Straced { order, open_flags, writes, other_syscalls: other, saved: std::fs::read(dir.join("saved.txt")).ok()? })
}

// ---------------------------------------------------------------------------------------------
// "all other lints are unchanged"
// ---------------------------------------------------------------------------------------------

fn lint_sig(l: &Lint) -> String {
    format!("{}:{}:{:?}:{}:{:?}", l.span.start, l.span.end, l.lint_kind, l.message, l.suggestions)
}

fn full_lints(user: &[&str], text: &str, dialect: Dialect) -> Result<(Vec<Lint>, Vec<(usize, usize)>), String> {
    let mut d = MutableDictionary::new();
    for w in user {
        d.append_word(cs(w), WordMetadata::default());
    }
    let mut m = MergedDictionary::new();
    m.add_dictionary(FstDictionary::curated());
    m.add_dictionary(Arc::new(d));
    let m = Arc::new(m);
    guarded(|| {
        let mut lg = LintGroup::new_curated(m.clone(), dialect);
        lg.config.fill_with_curated();
        let doc = Document::new(text, &PlainEnglish, &m);
        let lints = lg.lint(&doc);
        let spell: Vec<(usize, usize)> = lints.iter().filter(|l| l.lint_kind == LintKind::Spelling).map(|l| (l.span.start, l.span.end)).collect();
        let other: Vec<Lint> = lints.into_iter().filter(|l| l.lint_kind != LintKind::Spelling).collect();
        (other, spell)
    })
}

/// Recorded finding `c07-capitalization-consults-dictionary`: the lint is SentenceCapitalization's, on
/// the first letter of an occurrence of the added word, it DISAPPEARS with the add, and the added
/// word has an upper-case letter after its first character (the rule skips a sentence-initial word
/// whose dictionary spelling is mixed-case, like `iPhone`).
fn cap_rule_case(l: &Lint, gone: bool, w: &[char], text: &[char]) -> bool {
    gone && l.lint_kind == LintKind::Capitalization
        && l.message == "This sentence does not start with a capital letter"
        && l.span.len() == 1
        && l.span.start + w.len() <= text.len()
        && lownorm(&text[l.span.start..l.span.start + w.len()]) == lownorm(w)
        && w.iter().skip(1).take_while(|c| !c.is_whitespace() && **c != '-' && **c != '\'').any(|c| c.is_uppercase())
}

/// Recorded finding `c07-oxford-comma-reads-word-metadata`: the lint is OxfordComma's and lies in a
/// sentence that contains an occurrence of the added word (the rule looks at the first two words of
/// the sentence THAT HAVE METADATA; an unknown word has none, an added word has).
fn oxford_rule_case(l: &Lint, w: &[char], text: &str) -> bool {
    if l.message != "An Oxford comma is necessary here." {
        return false;
    }
    let dict = FstDictionary::curated();
    let doc = Document::new(text, &PlainEnglish, &dict);
    let key = lownorm(w);
    use harper_core::TokenStringExt;
    doc.iter_sentences().any(|sent| {
        let (Some(a), Some(b)) = (sent.first(), sent.last()) else { return false };
        a.span.start <= l.span.start && l.span.end <= b.span.end
            && sent.iter().any(|t| matches!(t.kind, TokenKind::Word(_)) && lownorm(doc.get_span_content(&t.span)) == key)
    })
}

fn other_lints_case(sess: &mut Session, w: &str, text: &str) {
    sess.o();
    let input = json!({"stream": "other-lints", "w": w, "text": text});
    let (Ok((l0, s0)), Ok((l1, s1))) = (full_lints(&[], text, Dialect::American), full_lints(&[w], text, Dialect::American)) else {
        sess.count("other-lints:panicked (C01's business)");
        return;
    };
    let o0: Vec<String> = l0.iter().map(lint_sig).collect();
    let o1: Vec<String> = l1.iter().map(lint_sig).collect();
    let held = o0 == o1;
    let tc: Vec<char> = text.chars().collect();
    let wc = cs(w);
    if !held {
        let gone: Vec<&Lint> = l0.iter().filter(|x| !o1.contains(&lint_sig(x))).collect();
        let new: Vec<&Lint> = l1.iter().filter(|x| !o0.contains(&lint_sig(x))).collect();
        let class = if new.is_empty() && gone.iter().all(|l| cap_rule_case(l, true, &wc, &tc)) {
            "c07-capitalization-consults-dictionary"
        } else if gone.iter().chain(new.iter()).all(|l| oxford_rule_case(l, &wc, text)) {
            "c07-oxford-comma-reads-word-metadata"
        } else {
            "other-lints-changed"
        };
        sess.monitor("non-spelling rules do not read the user dictionary (C11 independence): all non-spelling lints equal before/after the add, the two recorded rules (SentenceCapitalization on a mixed-case word, OxfordComma) excepted", class != "other-lints-changed");
        sess.fail(class, format!("adding `{}` changed non-spelling lints of {:?}: gone {:?}, new {:?}", w, trunc(text, 160), gone.iter().map(|l| lint_sig(l)).collect::<Vec<_>>(), new.iter().map(|l| lint_sig(l)).collect::<Vec<_>>()), input, None);
        return;
    }
    sess.monitor("non-spelling rules do not read the user dictionary (C11 independence): all non-spelling lints equal before/after the add, the two recorded rules (SentenceCapitalization on a mixed-case word, OxfordComma) excepted", true);
    // the spelling lints that went away are lints on occurrences of `w` (in some capitalisation)
    let key = lownorm_s(w);
    for sp in &s0 {
        if !s1.contains(sp) && lownorm(&tc[sp.0..sp.1]) != key {
            sess.fail("other-spelling-lint-gone", format!("adding `{}` removed the spelling lint on {:?}", w, st(&tc[sp.0..sp.1])), input.clone(), None);
        }
    }
    for sp in &s1 {
        if !s0.contains(sp) {
            sess.fail("spelling-lint-appeared", format!("adding `{}` created a spelling lint on {:?}", w, st(&tc[sp.0..sp.1])), input.clone(), None);
        }
    }
    sess.count(if s0.len() > s1.len() { "other-lints:equal, spelling lint on the word gone" } else { "other-lints:equal" });
}

// ---------------------------------------------------------------------------------------------
// the rebuild decision: real `MergedDictionary` equality
// ---------------------------------------------------------------------------------------------

/// [curated, user, file] the way `generate_file_dictionary` builds it, plus the `words_iter` order of
/// the two mutable children (what `hash_dictionary` is fed)
fn merged_with_orders(user: &[String], file: &[String]) -> (MergedDictionary, Vec<Vec<char>>, Vec<Vec<char>>) {
    let mk = |ws: &[String]| {
        let mut d = MutableDictionary::new();
        for w in ws {
            d.append_word(cs(w), WordMetadata::default());
        }
        let it: Vec<Vec<char>> = d.words_iter().map(|w| w.to_vec()).collect();
        (Arc::new(d), it)
    };
    let (u, uit) = mk(user);
    let (f, fit) = mk(file);
    let mut m = MergedDictionary::new();
    m.add_dictionary(FstDictionary::curated());
    m.add_dictionary(u);
    m.add_dictionary(f);
    (m, uit, fit)
}

fn word_set(ws: &[String]) -> BTreeSet<Vec<char>> {
    // the dictionary a word list builds: later spellings replace earlier ones with the same key
    let mut d = MutableDictionary::new();
    for w in ws {
        d.append_word(cs(w), WordMetadata::default());
    }
    d.words_iter().map(|w| w.to_vec()).collect()
}

/// one comparison of two merged dictionaries: K (`dfp`, the model is given the real iteration
/// orders, so the answer must agree in BOTH directions) and O (different word sets must compare
/// unequal). Returns true when the real `==` said "equal" although the word sets differ.
fn fingerprint_case(sess: &mut Session, a: (&[String], &[String]), b: (&[String], &[String]), origin: &str) -> bool {
    let (ma, ua, fa) = merged_with_orders(a.0, a.1);
    let (mb, ub, fb) = merged_with_orders(b.0, b.1);
    let real_eq = ma == mb;
    let op = format!("dfp {} , {} | {} , {}", list_tokens(&ua), list_tokens(&fa), list_tokens(&ub), list_tokens(&fb));
    let op = op.split_whitespace().collect::<Vec<_>>().join(" ");
    sess.k(&op, &format!("ok {}", real_eq as u8));
    sess.o();
    sess.count(&format!("fingerprint:{}", origin));
    let same_sets = word_set(a.0) == word_set(b.0) && word_set(a.1) == word_set(b.1);
    if same_sets {
        sess.count(if real_eq { "fingerprint:same-words-equal" } else { "fingerprint:same-words-unequal (order-sensitive hash; harmless: a spurious rebuild)" });
        return false;
    }
    if !real_eq {
        sess.count("fingerprint:different-words-unequal");
        return false;
    }
    let stream = |it: &Vec<Vec<char>>| -> Vec<char> { it.iter().flatten().copied().collect() };
    let input = json!({"stream": "fingerprint", "a": {"user": a.0, "file": a.1}, "b": {"user": b.0, "file": b.1},
        "orders": {"a_user": ua.iter().map(|w| st(w)).collect::<Vec<_>>(), "b_user": ub.iter().map(|w| st(w)).collect::<Vec<_>>(), "a_file": fa.iter().map(|w| st(w)).collect::<Vec<_>>(), "b_file": fb.iter().map(|w| st(w)).collect::<Vec<_>>()}});
    let class = if stream(&ua) == stream(&ub) && stream(&fa) == stream(&fb) { "c07-dict-eq-no-word-boundaries" } else { "dict-eq-misses-change" };
    sess.fail(class, format!("MergedDictionary [curated, {:?}, {:?}] == [curated, {:?}, {:?}] although the word sets differ (words_iter orders {:?}/{:?} vs {:?}/{:?}): update_document would keep the old dictionary and linter", a.0, a.1, b.0, b.1, ua.iter().map(|w| st(w)).collect::<Vec<_>>(), fa.iter().map(|w| st(w)).collect::<Vec<_>>(), ub.iter().map(|w| st(w)).collect::<Vec<_>>(), fb.iter().map(|w| st(w)).collect::<Vec<_>>()), input, None);
    true
}

/// a nonsense word in which every character occurs an even number of times
fn even_word(rng: &mut Rng) -> String {
    let letters = ['z', 'q', 'x', 'k', 'v', 'j', 'w', 'ñ'];
    loop {
        let a = *rng.pick(&letters);
        let b = *rng.pick(&letters);
        let c = *rng.pick(&letters);
        let w: String = match rng.below(5) {
            0 => [a, b, a, b].iter().collect(),
            1 => [a, b, b, a].iter().collect(),
            2 => [a, a, b, b, c, c].iter().collect(),
            3 => [a, b, c, a, b, c].iter().collect(),
            _ => [a, b, c, c, b, a].iter().collect(),
        };
        if a != b && !FstDictionary::curated().contains_word(&cs(&w)) {
            return w;
        }
    }
}

/// words chosen to collide under naive fingerprints, relative to the words already picked
fn hostile_word(rng: &mut Rng, prev: &[String]) -> String {
    let nonsense = |rng: &mut Rng| format!("{}{}", rng.pick(&BASE[..8]), (b'a' + rng.below(26) as u8) as char);
    if prev.is_empty() {
        return if rng.chance(1, 2) { even_word(rng) } else { nonsense(rng) };
    }
    let p = rng.pick(prev).clone();
    let pc = cs(&p);
    match rng.below(10) {
        0..=2 => even_word(rng),
        3 => {
            // anagram of an earlier word
            let mut c = pc.clone();
            c.rotate_left(1);
            if rng.chance(1, 2) { c.reverse(); }
            if c == pc { nonsense(rng) } else { st(&c) }
        }
        4 => format!("{}{}", p, rng.pick(prev)), // concatenation of two earlier words
        5 if pc.len() >= 4 => st(&pc[..pc.len() / 2]), // split of an earlier word …
        6 if pc.len() >= 4 => st(&pc[pc.len() / 2..]), // … other half
        7 if rng.chance(1, 3) => { let mut c = pc.clone(); c[0] = c[0].to_uppercase().next().unwrap(); st(&c) } // case variant
        _ => nonsense(rng),
    }
}

fn fingerprint_streams(sess: &mut Session, rng: &mut Rng, thorough: bool) {
    let s = |v: &[&str]| v.iter().map(|x| x.to_string()).collect::<Vec<String>>();
    // corpus: the word-boundary witness (order-dependent: retried until the orders line up) and the
    // even-multiplicity witness of the seeded XOR change
    let mut hit = false;
    for _ in 0..64 {
        if fingerprint_case(sess, (&s(&["ab", "c"]), &[]), (&s(&["a", "bc"]), &[]), "corpus") {
            hit = true;
            break;
        }
    }
    sess.add("fingerprint:word-boundary witness exhibited", hit as u64);
    fingerprint_case(sess, (&s(&["zqxv"]), &[]), (&s(&["zqxv", "xoxo"]), &[]), "corpus");
    fingerprint_case(sess, (&[], &s(&["zqxv"])), (&[], &s(&["zqxv", "ñoño"])), "corpus");
    fingerprint_case(sess, (&s(&["zqxv", "qxzv"]), &[]), (&s(&["zqxv", "qxzv", "kuku"]), &s(&["mama"])), "corpus");
    // exhaustive: all pairs of word lists of ≤3 words over the pool, in the user child; ≤2 in the file child
    let pool = ["a", "b", "ab", "ba", "aa", "abab", "xoxo"];
    let mut sets: Vec<Vec<String>> = vec![];
    for mask in 0u32..128 {
        if mask.count_ones() <= 3 {
            sets.push((0..7).filter(|i| mask >> i & 1 == 1).map(|i| pool[i].to_string()).collect());
        }
    }
    for a in &sets {
        for b in &sets {
            fingerprint_case(sess, (a, &[]), (b, &[]), "exhaustive-user-child");
        }
    }
    let small: Vec<&Vec<String>> = sets.iter().filter(|x| x.len() <= 2).collect();
    for a in &small {
        for b in &small {
            fingerprint_case(sess, (&s(&["ab"]), a), (&s(&["ab"]), b), "exhaustive-file-child");
        }
    }
    // random: an add (B = A + one hostile word), a replacement, or two unrelated hostile lists
    let n = if thorough { 12000 } else { 2500 };
    for _ in 0..n {
        let mut a: Vec<String> = vec![];
        for _ in 0..rng.below(5) {
            let w = hostile_word(rng, &a);
            a.push(w);
        }
        let mut b = a.clone();
        match rng.below(4) {
            0 | 1 => { let w = hostile_word(rng, &b); b.push(w); }
            2 => { b.clear(); for _ in 0..rng.range(1, 4) { let w = hostile_word(rng, &a); b.push(w); } }
            _ => { if !b.is_empty() { let i = rng.below(b.len()); b[i] = hostile_word(rng, &a); } else { b.push(even_word(rng)); } }
        }
        if rng.chance(1, 4) {
            fingerprint_case(sess, (&s(&["zqxv"]), &a), (&s(&["zqxv"]), &b), "random-file-child");
        } else {
            fingerprint_case(sess, (&a, &[]), (&b, &[]), "random-user-child");
        }
    }
}

// ---------------------------------------------------------------------------------------------
// server path: the real `execute_command` through the in-process language server (lsclient.rs)
// ---------------------------------------------------------------------------------------------

#[derive(Clone, Debug)]
struct SrvAdd {
    file: bool,
    doc: usize,
    w: String,
}
/// one server scenario: 1–2 plain-text documents `We saw <probe> today.` (one line per probe word),
/// 1–4 add commands, then a restart
#[derive(Clone, Debug)]
struct SrvScenario {
    docs: usize,
    adds: Vec<SrvAdd>,
    /// probe words that are never added (must stay reported)
    extra: Vec<String>,
}
impl SrvScenario {
    fn probes(&self) -> Vec<String> {
        let mut p: Vec<String> = vec![];
        for w in self.adds.iter().map(|a| &a.w).chain(self.extra.iter()) {
            if !p.contains(w) {
                p.push(w.clone());
            }
        }
        p
    }
    fn text(&self) -> String {
        self.probes().iter().map(|w| format!("{}\n", template(w))).collect()
    }
    fn to_json(&self) -> Value {
        json!({"stream": "server", "docs": self.docs, "never_added": self.extra,
            "document_text": self.text(),
            "commands": self.adds.iter().map(|a| json!({"command": if a.file { "HarperAddToFileDict" } else { "HarperAddToUserDict" }, "doc": a.doc, "word": a.w})).collect::<Vec<_>>()})
    }
    fn from_json(v: &Value) -> Option<SrvScenario> {
        let adds = v["commands"].as_array()?.iter().map(|c| SrvAdd { file: c["command"] == "HarperAddToFileDict", doc: c["doc"].as_u64().unwrap_or(0) as usize, w: c["word"].as_str().unwrap_or("").to_string() }).collect();
        Some(SrvScenario { docs: v["docs"].as_u64().unwrap_or(1).clamp(1, 2) as usize, adds, extra: v["never_added"].as_array().map(|a| a.iter().filter_map(|x| x.as_str().map(|s| s.to_string())).collect()).unwrap_or_default() })
    }
}

fn srv_cfg(sdir: &Path) -> Value {
    json!({"harper-ls": {
        "userDictPath": sdir.join("dictionary.txt").to_string_lossy(),
        "fileDictPath": sdir.join("file_dictionaries").to_string_lossy(),
    }})
}

fn diag_strings(v: &Value) -> Vec<String> {
    let mut d: Vec<String> = v.as_array().map(|a| a.iter().map(|x| x.to_string()).collect()).unwrap_or_default();
    d.sort();
    d
}

/// is the probe on line `line` covered by a published diagnostic?
fn line_flagged(diags: &Value, line: usize) -> bool {
    diags.as_array().is_some_and(|a| {
        a.iter().any(|d| {
            d["range"]["start"]["line"].as_u64() == Some(line as u64) && d["range"]["start"]["character"].as_u64().unwrap_or(0) <= TEMPLATE_AT as u64 && d["range"]["end"]["character"].as_u64().unwrap_or(0) > TEMPLATE_AT as u64
        })
    })
}

struct SrvCtx<'a> {
    env: &'a Env,
    rt: &'a tokio::runtime::Runtime,
}

impl<'a> SrvCtx<'a> {
    fn load_or_empty(&self, p: &Path) -> MutableDictionary {
        self.rt.block_on(load_dict(p)).unwrap_or(MutableDictionary::new())
    }
    fn file_dict_path(&self, sdir: &Path, uri: &str) -> PathBuf {
        sdir.join("file_dictionaries").join(file_dict_name(&Url::parse(uri).unwrap()).unwrap())
    }
    /// what a brand-new document state gives for `text` under the dictionaries NOW on disk: the
    /// server's own `DocumentState::generate_diagnostics`, with a dictionary and linter built from scratch
    fn fresh(&self, sdir: &Path, uri: &str, text: &str) -> Value {
        let mut m = MergedDictionary::new();
        m.add_dictionary(FstDictionary::curated());
        m.add_dictionary(Arc::new(self.load_or_empty(&sdir.join("dictionary.txt"))));
        m.add_dictionary(Arc::new(self.load_or_empty(&self.file_dict_path(sdir, uri))));
        let dict = Arc::new(m);
        let cfg = crate::config::Config::default();
        let mut ds = crate::document_state::DocumentState {
            document: Document::new(text, &PlainEnglish, &dict),
            dict: dict.clone(),
            linter: LintGroup::new_curated(dict.clone(), cfg.dialect).with_lint_config(cfg.lint_config.clone()),
            ..Default::default()
        };
        serde_json::to_value(ds.generate_diagnostics(cfg.diagnostic_severity)).unwrap()
    }
}

#[derive(Default)]
struct SrvOut {
    fails: Vec<(String, String)>,
    counts: Vec<String>,
    o_cases: usize,
    k: Option<(String, String)>,
}

/// compare the last publication for `uri` with a fresh lint and judge every added word
#[allow(clippy::too_many_arguments)]
fn srv_judge(cx: &SrvCtx, ls: &LsSession, out: &mut SrvOut, sdir: &Path, sc: &SrvScenario, uri: &str, doc: usize, upto: usize, user: &Ledger, files: &BTreeMap<usize, Ledger>, when: &str) -> Option<Value> {
    let text = sc.text();
    let probes = sc.probes();
    let Some(published) = ls.last_publication(uri).cloned() else {
        out.fails.push(("server-no-publication".into(), format!("{}: no diagnostics were ever published for document {}", when, doc)));
        return None;
    };
    let fresh = cx.fresh(sdir, uri, &text);
    out.o_cases += 1;
    let same = diag_strings(&published) == diag_strings(&fresh);
    for (ai, a) in sc.adds.iter().enumerate().take(upto) {
        let line = probes.iter().position(|p| *p == a.w).unwrap();
        let applies = !a.file || a.doc == doc;
        if !applies {
            // a file-dictionary word of the OTHER document must stay reported here (unless it is also
            // in the user dictionary or this document's own file dictionary)
            // (any case variant: a capitalised form of a lower-case entry of THIS document's own
            // dictionaries is accepted by design, C06)
            let also = sc.adds.iter().take(upto).any(|b| b.w.to_lowercase() == a.w.to_lowercase() && (!b.file || b.doc == doc));
            if !also && !FstDictionary::curated().contains_word(&cs(&a.w)) {
                out.o_cases += 1;
                if !line_flagged(&published, line) {
                    out.fails.push(("file-word-leaks".into(), format!("{}: `{}` was added to the file dictionary of document {} only, but document {} no longer reports it", when, a.w, a.doc, doc)));
                } else {
                    out.counts.push("srv:file-word-still-reported-in-other-document".into());
                }
            }
            continue;
        }
        out.o_cases += 1;
        if !line_flagged(&published, line) {
            out.counts.push(format!("srv:added-word-accepted ({})", when.split(' ').next().unwrap_or("")));
            continue;
        }
        let class = if !line_flagged(&fresh, line) {
            // the dictionary on disk accepts the word, the open document still reports it
            "server-stale-linter"
        } else {
            let (led, path) = if a.file { (files.get(&a.doc).unwrap(), cx.file_dict_path(sdir, uri)) } else { (user, sdir.join("dictionary.txt")) };
            let present = cx.load_or_empty(&path).words_iter().any(|x| x == cs(&a.w).as_slice());
            if present { class_flagged_present(led, &a.w, Dialect::American, false) } else { led.class_lost(&a.w, ai + 1) }
        };
        out.fails.push((class.into(), format!("{}: `{}` ({} #{}) is still reported in the last publication for document {}; a fresh lint under the dictionaries on disk {} it", when, a.w, if a.file { "HarperAddToFileDict" } else { "HarperAddToUserDict" }, ai + 1, doc, if line_flagged(&fresh, line) { "also reports" } else { "accepts" })));
    }
    if !same && !out.fails.iter().any(|f| f.0 == "server-stale-linter") {
        out.fails.push(("server-diagnostics-differ".into(), format!("{}: the last publication for document {} differs from a fresh lint under the dictionaries on disk: published {} vs fresh {}", when, doc, trunc(&published.to_string(), 300), trunc(&fresh.to_string(), 300))));
    } else if same {
        out.counts.push("srv:publication-equals-fresh-lint".into());
    }
    Some(published)
}

fn srv_uris(sdir: &Path, docs: usize) -> Vec<String> {
    (0..docs).map(|d| crate::lsclient::file_url(&sdir.join(format!("doc{}.txt", d)))).collect()
}

/// phase 1: open the documents, run the commands (each followed by an update of the other
/// document), judging after every step
fn srv_commands(cx: &SrvCtx, ls: &mut LsSession, sdir: &Path, sc: &SrvScenario, salt: usize) -> Result<SrvOut, crate::lsclient::LsError> {
    use crate::lsclient::{did_change, did_open};
    let mut out = SrvOut::default();
    let cfg = srv_cfg(sdir);
    let text = sc.text();
    let probes = sc.probes();
    std::fs::create_dir_all(sdir).unwrap();
    let uris = srv_uris(sdir, sc.docs);
    for d in 0..sc.docs {
        // `update_document_from_file` re-reads the document from disk
        std::fs::write(sdir.join(format!("doc{}.txt", d)), &text).unwrap();
        ls.notify("textDocument/didOpen", did_open(&uris[d], "plaintext", &text))?;
        ls.quiesce(&cfg)?;
    }
    let mut user = Ledger::default();
    let mut files: BTreeMap<usize, Ledger> = BTreeMap::new();
    let mut version = 1i64;
    let mut chars: BTreeSet<char> = BTreeSet::new();
    let mut keys: BTreeSet<String> = BTreeSet::new();
    let mut op_txt: Vec<String> = vec![];
    let mut res_txt: Vec<String> = vec![];
    for p in &probes {
        chars.extend(p.chars());
        keys.insert(lownorm_s(p));
        keys.insert(lownorm(&cs(p).to_lower()));
    }
    let one_tok: Vec<bool> = probes.iter().map(|p| one_token(&Document::new(&template(p), &PlainEnglish, &FstDictionary::curated()), p.chars().count())).collect();
    let bits = |published: &Value| -> String {
        let mut b = vec!["A".to_string()];
        for (i, _) in probes.iter().enumerate() {
            if one_tok[i] {
                b.push(if line_flagged(published, i) { "0" } else { "1" }.into());
            }
        }
        b.join(" ")
    };
    let kept: Vec<String> = probes.iter().enumerate().filter(|(i, _)| one_tok[*i]).map(|(_, p)| p.clone()).collect();
    for (i, a) in sc.adds.iter().enumerate() {
        let uri = uris[a.doc].clone();
        let n_before = ls.publications(&uri).len();
        let cmd = if a.file { "HarperAddToFileDict" } else { "HarperAddToUserDict" };
        ls.request_sync("workspace/executeCommand", json!({"command": cmd, "arguments": [a.w, uri]}), &cfg)?;
        ls.quiesce(&cfg)?;
        if a.file { files.entry(a.doc).or_default().added.push((a.w.clone(), i + 1)); } else { user.added.push((a.w.clone(), i + 1)); }
        if ls.publications(&uri).len() == n_before {
            out.fails.push(("server-no-publication".into(), format!("command #{} ({} `{}`) published nothing for its document", i + 1, cmd, a.w)));
        }
        let published = srv_judge(cx, ls, &mut out, sdir, sc, &uri, a.doc, i + 1, &user, &files, &format!("after command #{}", i + 1));
        // K: the file the handler wrote (its lines are the words_iter order it saved) and the verdicts
        let dpath = if a.file { cx.file_dict_path(sdir, &uri) } else { sdir.join("dictionary.txt") };
        let order: Vec<Vec<char>> = std::fs::read_to_string(&dpath).unwrap_or_default().lines().map(cs).collect();
        for o in &order {
            chars.extend(o.iter());
        }
        chars.insert('\n');
        if a.file {
            op_txt.push(format!("addf , {} , {} , {}", a.doc, chars_field(&cs(&a.w)), list_tokens(&order)));
        } else {
            op_txt.push(format!("add , {} , {}", chars_field(&cs(&a.w)), list_tokens(&order)));
        }
        res_txt.push(fd_tokens(cx.rt, &dpath));
        if let Some(p) = &published {
            op_txt.push(format!("lint , {} , {}", a.doc, list_tokens_s(&kept)).trim_end().to_string());
            res_txt.push(bits(p));
        }
        // the other document is checked again (didChange with the same text): a user-dictionary word
        // is accepted there too, a file-dictionary word is not
        if sc.docs == 2 {
            let o = 1 - a.doc;
            version += 1;
            ls.notify("textDocument/didChange", did_change(&uris[o], version, &text))?;
            ls.quiesce(&cfg)?;
            if let Some(p) = srv_judge(cx, ls, &mut out, sdir, sc, &uris[o], o, i + 1, &user, &files, &format!("after command #{} + didChange of the other document", i + 1)) {
                op_txt.push(format!("lint , {} , {}", o, list_tokens_s(&kept)).trim_end().to_string());
                res_txt.push(bits(&p));
            }
        }
    }
    out.k = Some(build_dio_line(cx.env, salt, &mut chars, &keys, Dialect::American, "absent", &op_txt, &res_txt));
    Ok(out)
}

/// phase 2: a new server (same configuration, same files): the words are still accepted
fn srv_after_restart(cx: &SrvCtx, ls: &mut LsSession, sdir: &Path, sc: &SrvScenario) -> Result<SrvOut, crate::lsclient::LsError> {
    use crate::lsclient::did_open;
    let mut out = SrvOut::default();
    let cfg = srv_cfg(sdir);
    let text = sc.text();
    let uris = srv_uris(sdir, sc.docs);
    let mut user = Ledger::default();
    let mut files: BTreeMap<usize, Ledger> = BTreeMap::new();
    for (i, a) in sc.adds.iter().enumerate() {
        if a.file { files.entry(a.doc).or_default().added.push((a.w.clone(), i + 1)); } else { user.added.push((a.w.clone(), i + 1)); }
    }
    for d in 0..sc.docs {
        ls.notify("textDocument/didOpen", did_open(&uris[d], "plaintext", &text))?;
        ls.quiesce(&cfg)?;
        srv_judge(cx, ls, &mut out, sdir, sc, &uris[d], d, sc.adds.len(), &user, &files, "after-restart (new server, didOpen)");
    }
    Ok(out)
}

/// The dictionary file is rewritten by hand (`zqxvkj` → `zqx`, `vkj`) while a document is open: the
/// document's next update loads {zqx, vkj}; whether `MergedDictionary ==` notices depends on the hash
/// table order of the freshly loaded dictionary (stream `zqxvkj` vs `zqxvkj` / `vkjzqx`). Up to 12
/// independent trials; returns the number of trials in which the change went unnoticed.
fn srv_hand_edit(cx: &SrvCtx, ls: &mut LsSession, root: &Path, out: &mut SrvOut) -> Result<usize, crate::lsclient::LsError> {
    use crate::lsclient::{did_change, did_open};
    let mut missed = 0;
    let text = format!("{}\n{}\n{}\n", template("zqx"), template("vkj"), template("zqxvkj"));
    for t in 0..12 {
        let sdir = root.join(format!("edit{}", t));
        std::fs::create_dir_all(&sdir).unwrap();
        let cfg = srv_cfg(&sdir);
        std::fs::write(sdir.join("dictionary.txt"), "zqxvkj\n").unwrap();
        let uri = crate::lsclient::file_url(&sdir.join("doc0.txt"));
        std::fs::write(sdir.join("doc0.txt"), &text).unwrap();
        ls.notify("textDocument/didOpen", did_open(&uri, "plaintext", &text))?;
        ls.quiesce(&cfg)?;
        let fresh_old = cx.fresh(&sdir, &uri, &text);
        std::fs::write(sdir.join("dictionary.txt"), "zqx\nvkj\n").unwrap();
        ls.notify("textDocument/didChange", did_change(&uri, 2, &text))?;
        ls.quiesce(&cfg)?;
        let published = ls.last_publication(&uri).cloned().unwrap_or(json!([]));
        let fresh = cx.fresh(&sdir, &uri, &text);
        out.o_cases += 1;
        if diag_strings(&published) != diag_strings(&fresh) {
            missed += 1;
            // the recorded finding is exactly "the document kept the OLD dictionary"; anything else is new
            let class = if diag_strings(&published) == diag_strings(&fresh_old) { "c07-dict-eq-no-word-boundaries" } else { "server-diagnostics-differ" };
            out.fails.push((class.into(), format!("user dictionary file `zqxvkj` rewritten by hand to `zqx`, `vkj` while the document is open; after the next didChange the document still reports zqx={} vkj={} and accepts zqxvkj={} (a fresh lint reports neither zqx nor vkj, and reports zqxvkj)", line_flagged(&published, 0), line_flagged(&published, 1), !line_flagged(&published, 2))));
            if missed >= 2 {
                break;
            }
        } else {
            out.counts.push("srv:hand-edited-file-noticed".into());
        }
    }
    Ok(missed)
}

fn gen_srv_scenario(rng: &mut Rng) -> SrvScenario {
    let docs = rng.range(1, 2);
    let n = rng.range(1, 4);
    let mut words: Vec<String> = vec![];
    let mut adds = vec![];
    for _ in 0..n {
        let w = hostile_word(rng, &words);
        words.push(w.clone());
        adds.push(SrvAdd { file: rng.chance(1, 3), doc: rng.below(docs), w });
    }
    // "random order": the relation (anagram / concatenation / split) may point either way
    if rng.chance(1, 2) {
        adds.reverse();
    }
    SrvScenario { docs, adds, extra: vec![format!("jqvz{}", (b'a' + rng.below(26) as u8) as char)] }
}

fn corpus_srv() -> Vec<SrvScenario> {
    let a = |file: bool, doc: usize, w: &str| SrvAdd { file, doc, w: w.to_string() };
    vec![
        SrvScenario { docs: 1, adds: vec![a(false, 0, "xoxo")], extra: vec!["jqvz".into()] },
        SrvScenario { docs: 2, adds: vec![a(false, 0, "zqxv"), a(false, 1, "ñoño"), a(true, 0, "kuku"), a(true, 1, "zqzq")], extra: vec!["jqvz".into()] },
        SrvScenario { docs: 2, adds: vec![a(false, 0, "zqab"), a(false, 0, "xvcd"), a(false, 1, "zqabxvcd"), a(false, 0, "abzq")], extra: vec![] },
        SrvScenario { docs: 2, adds: vec![a(true, 0, "zqabxv"), a(true, 0, "zqa"), a(true, 0, "bxv"), a(true, 1, "zqa")], extra: vec![] },
        // existing class c07-case-collision through the real command
        SrvScenario { docs: 1, adds: vec![a(false, 0, "zqxv"), a(false, 0, "Zqxv")], extra: vec![] },
        SrvScenario { docs: 1, adds: vec![a(false, 0, "couscous"), a(false, 0, "mama"), a(false, 0, "xkkx")], extra: vec![] },
    ]
}

/// Server path: every scenario goes through the real `Backend::execute_command` (in-process
/// `tower_lsp` server, see lsclient.rs). One server runs all command phases (each scenario has its
/// own dictionary paths — the configuration is pulled by every handler — and its own documents), a
/// second server all restart phases.
pub fn server_scenarios(sess: &mut Session, env: &Env, rt: &tokio::runtime::Runtime, root: &Path, scenarios: &[SrvScenario], hand_edit: bool) {
    use crate::lsclient::LsSession;
    let cx = SrvCtx { env, rt };
    let boot_cfg = srv_cfg(&root.join("boot"));
    let start = |sess: &mut Session| -> Option<LsSession> {
        match LsSession::start() {
            Ok(mut ls) => {
                ls.max_wait = std::time::Duration::from_secs(20);
                match ls.initialize(&boot_cfg) {
                    Ok(_) => Some(ls),
                    Err(e) => { sess.monitor("the in-process language server answered before its deadline", false); sess.count(&format!("srv:initialize failed: {}", e)); None }
                }
            }
            Err(e) => { sess.monitor("the in-process language server answered before its deadline", false); sess.count(&format!("srv:start failed: {}", e)); None }
        }
    };
    let record = |sess: &mut Session, sc: &SrvScenario, o: SrvOut| {
        for _ in 0..o.o_cases {
            sess.o();
        }
        for c in o.counts {
            sess.count(&c);
        }
        if let Some((op, imp)) = o.k {
            sess.k(&op, &imp);
            sess.nontrivial(&op);
        }
        for (c, d) in o.fails {
            sess.fail(&c, d, sc.to_json(), None);
        }
    };
    // phase 1
    let Some(mut ls) = start(sess) else { return };
    let mut done: Vec<usize> = vec![];
    for (i, sc) in scenarios.iter().enumerate() {
        let sdir = root.join(format!("s{}", i));
        match srv_commands(&cx, &mut ls, &sdir, sc, i) {
            Ok(o) => {
                sess.monitor("the in-process language server answered before its deadline", true);
                sess.count("srv:scenario (commands)");
                record(sess, sc, o);
                done.push(i);
            }
            Err(e) => {
                sess.monitor("the in-process language server answered before its deadline", false);
                sess.count(&format!("srv:error {}", trunc(&e.to_string(), 80)));
                match start(sess) { Some(n) => ls = n, None => return }
            }
        }
    }
    if hand_edit {
        let mut o = SrvOut::default();
        match srv_hand_edit(&cx, &mut ls, root, &mut o) {
            Ok(missed) => sess.add("srv:hand-edited dictionary file went unnoticed (trials)", missed as u64),
            Err(_) => sess.monitor("the in-process language server answered before its deadline", false),
        }
        let sc = SrvScenario { docs: 1, adds: vec![], extra: vec!["zqx".into(), "vkj".into(), "zqxvkj".into()] };
        let mut j = sc.to_json();
        j["hand_edit"] = json!({"user_dictionary_before": "zqxvkj\n", "user_dictionary_after": "zqx\nvkj\n", "then": "didChange"});
        for _ in 0..o.o_cases { sess.o(); }
        for c in o.counts { sess.count(&c); }
        for (c, d) in o.fails { sess.fail(&c, d, j.clone(), None); }
    }
    let _ = ls.shutdown(&boot_cfg);
    drop(ls);
    // phase 2: restart
    let Some(mut ls) = start(sess) else { return };
    for i in done {
        let sc = &scenarios[i];
        let sdir = root.join(format!("s{}", i));
        match srv_after_restart(&cx, &mut ls, &sdir, sc) {
            Ok(o) => { sess.count("srv:scenario (restart)"); record(sess, sc, o); }
            Err(e) => {
                sess.monitor("the in-process language server answered before its deadline", false);
                sess.count(&format!("srv:error {}", trunc(&e.to_string(), 80)));
                match start(sess) { Some(n) => ls = n, None => return }
            }
        }
    }
    let _ = ls.shutdown(&boot_cfg);
}

// ---------------------------------------------------------------------------------------------
// server path, URL kinds (w24 s6): documents whose URL is not an ordinary `file:` URL
// ---------------------------------------------------------------------------------------------
//
// `backend.rs` tests a document URL twice: `scheme() == "untitled"` (`load_file_dictionary` answers the
// empty dictionary at once) and `to_file_path()` (`file_dict_name`, `update_document_from_file`). The four
// combinations are the four `UKind`s; the two bits that go on the op line are computed HERE from the real
// `Url` (not from the label), the labels are only what the generator aims at (monitored).

#[derive(Clone, Copy, Debug, PartialEq)]
enum UKind {
    /// `file:///…/p<slot>.txt`
    File,
    /// `untitled:Untitled-<n>` — an unsaved VS Code buffer: no path
    Untitled,
    /// `untitled:/…/p<slot>.txt` — an unsaved buffer with an associated file name: `to_file_path` succeeds
    UntitledPath,
    /// `zqverif:opaque-<n>` / `zqverif://host/…` / `file://host/…`: neither
    Opaque,
    /// `zqverif:/…/p<slot>.txt` — not `file:`, not `untitled:`, but host-less with a path: the two tests
    /// answer as for a `file:` URL (`to_file_path` does not look at the scheme)
    SchemePath,
}
impl UKind {
    fn label(self) -> &'static str {
        match self { UKind::File => "file", UKind::Untitled => "untitled", UKind::UntitledPath => "untitled-with-path", UKind::Opaque => "opaque", UKind::SchemePath => "other-scheme-with-path" }
    }
    fn from_label(l: &str) -> Option<UKind> {
        [UKind::File, UKind::Untitled, UKind::UntitledPath, UKind::Opaque, UKind::SchemePath].into_iter().find(|k| k.label() == l)
    }
    fn expect_bits(self) -> (bool, bool) {
        match self { UKind::File | UKind::SchemePath => (false, true), UKind::Untitled => (true, false), UKind::UntitledPath => (true, true), UKind::Opaque => (false, false) }
    }
}
#[derive(Clone, Debug)]
struct UDoc {
    kind: UKind,
    /// documents of kind File / UntitledPath with the same slot have the same path (hence the same `file_dict_name`)
    slot: usize,
}
/// 1–3 documents of any URL kind (same text: one line per probe word), 1–5 add commands; after every
/// command every document is checked again (didChange with the same text)
#[derive(Clone, Debug)]
struct UrlScenario {
    docs: Vec<UDoc>,
    adds: Vec<SrvAdd>,
    extra: Vec<String>,
    /// the path of an `untitled:/…` document exists on disk (so `update_document_from_file` can read it)
    on_disk: bool,
}
impl UrlScenario {
    fn as_srv(&self) -> SrvScenario {
        SrvScenario { docs: self.docs.len(), adds: self.adds.clone(), extra: self.extra.clone() }
    }
    fn to_json(&self) -> Value {
        json!({"stream": "server-url", "never_added": self.extra, "untitled_path_exists_on_disk": self.on_disk,
            "document_text": self.as_srv().text(),
            "documents": self.docs.iter().map(|d| json!({"url_kind": d.kind.label(), "path_slot": d.slot})).collect::<Vec<_>>(),
            "commands": self.adds.iter().map(|a| json!({"command": if a.file { "HarperAddToFileDict" } else { "HarperAddToUserDict" }, "doc": a.doc, "word": a.w})).collect::<Vec<_>>()})
    }
    fn from_json(v: &Value) -> Option<UrlScenario> {
        let docs: Vec<UDoc> = v["documents"].as_array()?.iter().filter_map(|d| Some(UDoc { kind: UKind::from_label(d["url_kind"].as_str()?)?, slot: d["path_slot"].as_u64().unwrap_or(0) as usize })).collect();
        if docs.is_empty() {
            return None;
        }
        let n = docs.len();
        let adds = v["commands"].as_array()?.iter().map(|c| SrvAdd { file: c["command"] == "HarperAddToFileDict", doc: (c["doc"].as_u64().unwrap_or(0) as usize).min(n - 1), w: c["word"].as_str().unwrap_or("").to_string() }).collect();
        Some(UrlScenario { docs, adds, extra: v["never_added"].as_array().map(|a| a.iter().filter_map(|x| x.as_str().map(|s| s.to_string())).collect()).unwrap_or_default(), on_disk: v["untitled_path_exists_on_disk"].as_bool().unwrap_or(false) })
    }
    fn uri(&self, sdir: &Path, tag: usize, d: usize) -> String {
        let doc = &self.docs[d];
        let path = sdir.join(format!("p{}.txt", doc.slot));
        match doc.kind {
            UKind::File => crate::lsclient::file_url(&path),
            UKind::UntitledPath => format!("untitled:{}", path.to_string_lossy()),
            UKind::Untitled => format!("untitled:Untitled-{}-{}", tag, d),
            UKind::SchemePath => format!("zqverif:{}", path.to_string_lossy()),
            UKind::Opaque => match (tag + d) % 3 {
                0 => format!("zqverif:opaque-{}-{}", tag, d),
                1 => format!("zqverif://host{}x{}/p{}.txt", tag, d, doc.slot),
                _ => format!("file://zqhost{}x{}{}", tag, d, path.to_string_lossy()),
            },
        }
    }
}

const URL_FINDING_IGNORED: &str = "c07-untitled-url-file-dict-add-ignored";

fn url_commands(cx: &SrvCtx, ls: &mut LsSession, sdir: &Path, sc: &UrlScenario, tag: usize) -> Result<(SrvOut, Vec<(&'static str, bool)>), crate::lsclient::LsError> {
    use crate::lsclient::{did_change, did_open};
    let mut out = SrvOut::default();
    let mut monitors: Vec<(&'static str, bool)> = vec![];
    let cfg = srv_cfg(sdir);
    let srv = sc.as_srv();
    let text = srv.text();
    let probes = srv.probes();
    std::fs::create_dir_all(sdir).unwrap();
    let fdir = sdir.join("file_dictionaries");
    let nd = sc.docs.len();
    let uris: Vec<String> = (0..nd).map(|d| sc.uri(sdir, tag, d)).collect();
    // the two tests of backend.rs, made with the real `Url`
    let kinds: Vec<(bool, bool)> = uris.iter().map(|u| { let p = Url::parse(u).unwrap(); (p.scheme() == "untitled", p.to_file_path().is_ok()) }).collect();
    for d in 0..nd {
        monitors.push(("URL kinds: scheme()==\"untitled\" / to_file_path() answer as the generator expects (file:///p, zq:/p, untitled:Untitled-1, untitled:/p, zq:opaque, zq://host/p, file://host/p)", kinds[d] == sc.docs[d].kind.expect_bits()));
    }
    let is_opaque = |d: usize| !kinds[d].0 && !kinds[d].1;
    // the model's abstract dictionary name: the path slot when the URL has a path, else a number nothing else uses
    let name_of = |d: usize| if kinds[d].1 { sc.docs[d].slot } else { 100 + d };
    let dict_path = |d: usize| -> Option<PathBuf> { if kinds[d].1 { file_dict_name(&Url::parse(&uris[d]).unwrap()).ok().map(|n| fdir.join(n)) } else { None } };
    {
        // documents with the same slot share the dictionary file, different slots do not
        let mut ok = true;
        for a in 0..nd { for b in 0..nd { if let (Some(pa), Some(pb)) = (dict_path(a), dict_path(b)) { ok &= (pa == pb) == (sc.docs[a].slot == sc.docs[b].slot); } } }
        monitors.push(("URL kinds: file_dict_name is the same for file:///p and untitled:/p, different for different paths", ok));
    }
    for d in 0..nd {
        if kinds[d].1 && (sc.docs[d].kind != UKind::UntitledPath || sc.on_disk) {
            std::fs::write(sdir.join(format!("p{}.txt", sc.docs[d].slot)), &text).unwrap();
        }
    }
    let mut chars: BTreeSet<char> = BTreeSet::new();
    let mut keys: BTreeSet<String> = BTreeSet::new();
    for p in &probes {
        chars.extend(p.chars());
        keys.insert(lownorm_s(p));
        keys.insert(lownorm(&cs(p).to_lower()));
    }
    chars.insert('\n');
    let one_tok: Vec<bool> = probes.iter().map(|p| one_token(&Document::new(&template(p), &PlainEnglish, &FstDictionary::curated()), p.chars().count())).collect();
    let bits = |published: &Value| -> String {
        let mut b = vec!["A".to_string()];
        for (i, _) in probes.iter().enumerate() {
            if one_tok[i] {
                b.push(if line_flagged(published, i) { "0" } else { "1" }.into());
            }
        }
        b.join(" ")
    };
    let kept: Vec<String> = probes.iter().enumerate().filter(|(i, _)| one_tok[*i]).map(|(_, p)| p.clone()).collect();
    let kbits = |d: usize| format!("{}{}", kinds[d].0 as u8, kinds[d].1 as u8);
    let mut op_txt: Vec<String> = vec![];
    let mut res_txt: Vec<String> = vec![];
    let count_files = || std::fs::read_dir(&fdir).map(|r| r.count()).unwrap_or(0);
    let mut version = 1i64;

    for d in 0..nd {
        ls.notify("textDocument/didOpen", did_open(&uris[d], "plaintext", &text))?;
        ls.quiesce(&cfg)?;
        match ls.last_publication(&uris[d]).cloned() {
            Some(p) => {
                op_txt.push(format!("lintk , {} , {} , {}", kbits(d), name_of(d), list_tokens_s(&kept)).trim_end().to_string());
                res_txt.push(bits(&p));
                out.counts.push(format!("url:didOpen {} document ({} diagnostics)", sc.docs[d].kind.label(), if p.as_array().is_some_and(|a| a.is_empty()) { "no" } else { "some" }));
            }
            None => out.fails.push(("server-no-publication".into(), format!("didOpen of document {} ({}) published nothing", d, uris[d]))),
        }
    }
    // what was asked of each dictionary FILE: (word, command index) — commands from `untitled:` URLs ask
    // nothing of any file (`save_file_dictionary` returns before writing, repo commit 861d597)
    let mut user = Ledger::default();
    let mut slot_adds: BTreeMap<usize, Vec<(String, usize)>> = BTreeMap::new();
    // the whole file-dictionary directory, name → bytes
    let snapshot = || -> BTreeMap<String, Vec<u8>> {
        std::fs::read_dir(&fdir).map(|r| r.filter_map(|e| e.ok()).map(|e| (e.file_name().to_string_lossy().into_owned(), std::fs::read(e.path()).unwrap_or_default())).collect()).unwrap_or_default()
    };
    for (i, a) in sc.adds.iter().enumerate() {
        let idx = i + 1;
        let uri = uris[a.doc].clone();
        let cmd = if a.file { "HarperAddToFileDict" } else { "HarperAddToUserDict" };
        let n_before = ls.publications(&uri).len();
        let last_before = ls.last_publication(&uri).cloned();
        let files_before = count_files();
        let snap_before = snapshot();
        let klabel = sc.docs[a.doc].kind.label();
        // the command as the client gets it: the code action the server offers on the reported word
        // (offered for every document it could open, whatever the URL); built by hand when there is none
        // (the word is not reported any more, or the document could never be opened)
        let line = probes.iter().position(|q| *q == a.w).unwrap();
        let ca = ls.request_sync("textDocument/codeAction", json!({"textDocument": {"uri": uri}, "range": {"start": {"line": line, "character": TEMPLATE_AT}, "end": {"line": line, "character": TEMPLATE_AT + 1}}, "context": {"diagnostics": []}}), &cfg)?;
        let offered = ca["result"].as_array().and_then(|acts| acts.iter().find(|x| x["command"] == cmd && x["arguments"].is_array()).cloned());
        let args = match &offered {
            Some(x) => { out.counts.push(format!("url:{} taken from the code action offered for a {} document", cmd, klabel)); x["arguments"].clone() }
            None => { out.counts.push(format!("url:{} built by hand (no code action: {} document)", cmd, klabel)); json!([a.w, uri]) }
        };
        if offered.is_some() && args != json!([a.w, uri]) {
            out.fails.push(("code-action-arguments".into(), format!("the code action for `{}` in {} carries the arguments {} (expected the word and the document URL)", a.w, uri, args)));
        }
        let resp = ls.request_sync("workspace/executeCommand", json!({"command": cmd, "arguments": args}), &cfg)?;
        ls.quiesce(&cfg)?;
        let published = ls.publications(&uri).len() > n_before;
        out.counts.push(format!("url:{} on a {} document: {}", cmd, klabel, if !published { "nothing published" } else if ls.last_publication(&uri).cloned() == last_before { "the same diagnostics published again" } else { "new diagnostics published" }));
        // the client is never told: the response is `null` whatever happened
        out.o_cases += 1;
        if resp.get("error").is_some() || !resp["result"].is_null() {
            out.counts.push(format!("url:{} on a {} document answered {}", cmd, klabel, trunc(&resp.to_string(), 120)));
        } else {
            out.counts.push(format!("url:{} on a {} document answered null", cmd, klabel));
        }
        if a.file {
            let dp = dict_path(a.doc);
            // the `words_iter` order of what was saved — nothing is saved for the `untitled` scheme (the file of the
            // same path, if any, is somebody else's and must be unchanged: O below, and the model's `F … L …`)
            let order: Vec<Vec<char>> = if kinds[a.doc].0 { vec![] } else { dp.as_ref().map(|p| std::fs::read_to_string(p).unwrap_or_default().lines().map(cs).collect()).unwrap_or_default() };
            for o in &order {
                chars.extend(o.iter());
            }
            let n_files = count_files();
            op_txt.push(format!("addfk , {} , {} , {} , {}", kbits(a.doc), name_of(a.doc), chars_field(&cs(&a.w)), list_tokens(&order)).trim_end().to_string());
            let fd = match &dp { Some(p) => fd_tokens(cx.rt, p), None => "F absent L err".to_string() };
            res_txt.push(format!("{} N {}", fd, n_files));
            if kinds[a.doc].0 {
                // O: the `untitled` scheme, with or without a path: every dictionary file is as it was, byte for byte
                out.o_cases += 1;
                if snapshot() != snap_before {
                    out.fails.push(("file-written-for-untitled-url".into(), format!("command #{} (HarperAddToFileDict `{}` on {}) changed the file-dictionary directory ({} → {} files)", idx, a.w, uri, files_before, n_files)));
                } else {
                    out.counts.push(format!("url:HarperAddToFileDict on a {} document left every dictionary file untouched", klabel));
                }
            }
            if kinds[a.doc].1 && !kinds[a.doc].0 {
                slot_adds.entry(sc.docs[a.doc].slot).or_default().push((a.w.clone(), idx));
            } else if !kinds[a.doc].1 {
                // O: a URL without a path: no file may appear anywhere
                out.o_cases += 1;
                if n_files != files_before {
                    out.fails.push(("file-written-for-pathless-url".into(), format!("command #{} (HarperAddToFileDict `{}` on {}) changed the number of file dictionaries {} → {}", idx, a.w, uri, files_before, n_files)));
                } else {
                    out.counts.push(format!("url:HarperAddToFileDict on a {} document wrote no file", klabel));
                }
            }
        } else {
            let dpath = sdir.join("dictionary.txt");
            let order: Vec<Vec<char>> = std::fs::read_to_string(&dpath).unwrap_or_default().lines().map(cs).collect();
            for o in &order {
                chars.extend(o.iter());
            }
            op_txt.push(format!("add , {} , {}", chars_field(&cs(&a.w)), list_tokens(&order)));
            res_txt.push(fd_tokens(cx.rt, &dpath));
            user.added.push((a.w.clone(), idx));
        }
        // every document is checked again
        for d in 0..nd {
            version += 1;
            ls.notify("textDocument/didChange", did_change(&uris[d], version, &text))?;
            ls.quiesce(&cfg)?;
        }
        for d in 0..nd {
            let Some(p) = ls.last_publication(&uris[d]).cloned() else { continue };
            op_txt.push(format!("lintk , {} , {} , {}", kbits(d), name_of(d), list_tokens_s(&kept)).trim_end().to_string());
            res_txt.push(bits(&p));
            // ---- O: the property on the real server, document `d`, every command so far ----
            for (bi, b) in sc.adds.iter().enumerate().take(idx) {
                let line = probes.iter().position(|q| *q == b.w).unwrap();
                let flagged = line_flagged(&p, line);
                out.o_cases += 1;
                if is_opaque(d) {
                    // `generate_file_dictionary` fails, the document is never parsed: nothing is ever reported
                    if flagged { out.fails.push(("opaque-document-checked".into(), format!("document {} ({}) reports `{}` although its dictionary cannot be generated", d, uris[d], b.w))); } else { out.counts.push("url:opaque document: nothing is checked, nothing reported".into()); }
                    continue;
                }
                // is the word in a dictionary this document reads? (a case variant counts, C06)
                let same = |x: &str| x.to_lowercase() == b.w.to_lowercase();
                let in_user = sc.adds.iter().take(idx).any(|c| !c.file && same(&c.w));
                if !b.file {
                    if !flagged { out.counts.push("url:user-dictionary word accepted".into()); continue; }
                    let present = cx.load_or_empty(&sdir.join("dictionary.txt")).words_iter().any(|x| x == cs(&b.w).as_slice());
                    let class = if present { class_flagged_present(&user, &b.w, Dialect::American, false) } else { user.class_lost(&b.w, bi + 1) };
                    out.fails.push((class.into(), format!("after command #{}: `{}` (HarperAddToUserDict #{}) is reported in document {} ({})", idx, b.w, bi + 1, d, uris[d])));
                    continue;
                }
                let src = kinds[b.doc];
                // the command wrote the dictionary file this document reads (never for a command from an `untitled:` URL)
                let same_file = src.1 && !src.0 && kinds[d].1 && sc.docs[b.doc].slot == sc.docs[d].slot;
                let own = b.doc == d || (same_file && !kinds[d].0);
                if own {
                    // the word was added for THIS document (or for another URL of the same path, whose dictionary this `file:` document reads)
                    if !flagged { out.counts.push(format!("url:file-dictionary word accepted in its {} document", sc.docs[d].kind.label())); continue; }
                    let class = if kinds[d].0 && b.doc == d {
                        URL_FINDING_IGNORED
                    } else if in_user || FstDictionary::curated().contains_word(&cs(&b.w)) {
                        "added-word-flagged"
                    } else {
                        let present = dict_path(d).is_some_and(|p| cx.load_or_empty(&p).words_iter().any(|x| x == cs(&b.w).as_slice()));
                        if present { "added-word-flagged" } else { "word-lost" }
                    };
                    out.fails.push((class.into(), format!("after command #{}: `{}` (HarperAddToFileDict #{} on {}) is reported in document {} ({}) at its next check", idx, b.w, bi + 1, uris[b.doc], d, uris[d])));
                } else {
                    // another document: the word must stay reported, unless one of ITS dictionaries has it
                    let also = in_user || sc.adds.iter().take(idx).any(|c| c.file && same(&c.w) && kinds[c.doc].1 && !kinds[c.doc].0 && kinds[d].1 && !kinds[d].0 && sc.docs[c.doc].slot == sc.docs[d].slot);
                    if also || FstDictionary::curated().contains_word(&cs(&b.w)) { continue; }
                    if flagged { out.counts.push("url:file-dictionary word still reported in another document".into()); } else {
                        out.fails.push(("file-word-leaks".into(), format!("after command #{}: `{}` was added to the file dictionary of document {} ({}) only, but document {} ({}) no longer reports it", idx, b.w, b.doc, uris[b.doc], d, uris[d])));
                    }
                }
            }
        }
        // ---- O: never lost — every dictionary file reloads to the words added to it so far ----
        for (slot, adds) in &slot_adds {
            let Some(dp) = (0..nd).find(|d| kinds[*d].1 && sc.docs[*d].slot == *slot).and_then(|d| dict_path(d)) else { continue };
            let actual: Vec<String> = cx.load_or_empty(&dp).words_iter().map(st).collect();
            out.o_cases += 1;
            let mut ok = true;
            for (w, ci) in adds {
                if !actual.contains(w) {
                    ok = false;
                    out.fails.push(("word-lost".into(), format!("after command #{} the file dictionary of path slot {} no longer holds `{}` (HarperAddToFileDict #{}); it reloads to {:?}", idx, slot, w, ci, actual)));
                }
            }
            for w in &actual {
                if !adds.iter().any(|(x, _)| x == w) {
                    ok = false;
                    out.fails.push(("word-invented".into(), format!("after command #{} the file dictionary of path slot {} holds `{}`, which nobody added", idx, slot, w)));
                }
            }
            if ok { out.counts.push("url:file dictionary reloads to the words added to it".into()); }
        }
    }
    out.k = Some(build_dio_line(cx.env, 7000 + tag, &mut chars, &keys, Dialect::American, "absent", &op_txt, &res_txt));
    Ok((out, monitors))
}

fn corpus_url() -> Vec<UrlScenario> {
    let a = |file: bool, doc: usize, w: &str| SrvAdd { file, doc, w: w.to_string() };
    let d = |kind: UKind, slot: usize| UDoc { kind, slot };
    vec![
        // the audit's case: HarperAddToFileDict on an unsaved VS Code buffer, next to an ordinary file
        UrlScenario { docs: vec![d(UKind::Untitled, 0)], adds: vec![a(true, 0, "zqxv")], extra: vec!["jqvz".into()], on_disk: false },
        UrlScenario { docs: vec![d(UKind::File, 0), d(UKind::Untitled, 1)], adds: vec![a(true, 1, "zqxv"), a(true, 0, "qxzv"), a(true, 1, "vkqz"), a(false, 1, "xqzk")], extra: vec!["jqvz".into()], on_disk: false },
        // untitled:/path next to file:///path (same file_dict_name): the untitled add must leave that dictionary alone
        // (until repo commit 861d597 it REPLACED it by the one new word)
        UrlScenario { docs: vec![d(UKind::File, 0), d(UKind::UntitledPath, 0)], adds: vec![a(true, 0, "zqxv"), a(true, 0, "qxzv"), a(true, 1, "vkqz")], extra: vec![], on_disk: true },
        UrlScenario { docs: vec![d(UKind::UntitledPath, 2)], adds: vec![a(true, 0, "zqxv"), a(true, 0, "qxzv")], extra: vec!["jqvz".into()], on_disk: false },
        UrlScenario { docs: vec![d(UKind::UntitledPath, 0), d(UKind::File, 1)], adds: vec![a(true, 0, "zqxv"), a(true, 1, "qxzv"), a(false, 0, "vkqz")], extra: vec![], on_disk: true },
        // a URL the server cannot turn into a path at all: the command returns before anything happens
        UrlScenario { docs: vec![d(UKind::Opaque, 0), d(UKind::Opaque, 1), d(UKind::File, 0)], adds: vec![a(true, 0, "zqxv"), a(true, 1, "qxzv"), a(false, 0, "vkqz"), a(true, 2, "xqzk")], extra: vec!["jqvz".into()], on_disk: false },
        UrlScenario { docs: vec![d(UKind::Untitled, 0), d(UKind::UntitledPath, 1), d(UKind::File, 1)], adds: vec![a(false, 0, "zqxv"), a(true, 2, "qxzv"), a(true, 1, "vkqz"), a(true, 0, "xqzk"), a(true, 2, "kvxq")], extra: vec![], on_disk: false },
        // the three opaque forms (tag 7: zqverif://host/p, file://host/p, zqverif:opaque)
        UrlScenario { docs: vec![d(UKind::Opaque, 0), d(UKind::Opaque, 1), d(UKind::Opaque, 0)], adds: vec![a(true, 0, "zqxv"), a(true, 1, "qxzv"), a(true, 2, "vkqz"), a(false, 1, "xqzk")], extra: vec![], on_disk: false },
        // a scheme that is neither file nor untitled, host-less, with a path: behaves as a file: URL of that path
        UrlScenario { docs: vec![d(UKind::SchemePath, 0), d(UKind::File, 0), d(UKind::Untitled, 0)], adds: vec![a(true, 0, "zqxv"), a(true, 1, "qxzv"), a(true, 2, "vkqz")], extra: vec!["jqvz".into()], on_disk: false },
    ]
}

fn gen_url_scenario(rng: &mut Rng) -> UrlScenario {
    let nd = rng.range(1, 3);
    let kinds = [UKind::File, UKind::Untitled, UKind::UntitledPath, UKind::Untitled, UKind::File, UKind::Opaque, UKind::UntitledPath, UKind::SchemePath];
    let docs: Vec<UDoc> = (0..nd).map(|_| UDoc { kind: *rng.pick(&kinds), slot: rng.below(2) }).collect();
    let n = rng.range(1, 5);
    let mut adds: Vec<SrvAdd> = vec![];
    for _ in 0..n {
        // plain nonsense words, pairwise different (the case / fingerprint collisions have their own scenarios)
        let w = loop {
            let w = format!("{}{}", rng.pick(&BASE[..8]), (b'a' + rng.below(26) as u8) as char);
            if !adds.iter().any(|a: &SrvAdd| a.w == w) { break w; }
        };
        adds.push(SrvAdd { file: rng.chance(3, 4), doc: rng.below(nd), w });
    }
    UrlScenario { docs, adds, extra: vec![format!("jqvz{}", (b'a' + rng.below(26) as u8) as char)], on_disk: rng.chance(1, 2) }
}

/// URL-kind scenarios through the real `Backend` (one in-process server for all of them; every
/// scenario has its own directory, dictionary paths and document URLs)
fn server_url_scenarios(sess: &mut Session, env: &Env, rt: &tokio::runtime::Runtime, root: &Path, scenarios: &[UrlScenario]) {
    use crate::lsclient::LsSession;
    let cx = SrvCtx { env, rt };
    let boot_cfg = srv_cfg(&root.join("boot"));
    let start = |sess: &mut Session| -> Option<LsSession> {
        let r = LsSession::start().and_then(|mut ls| { ls.max_wait = std::time::Duration::from_secs(20); ls.initialize(&boot_cfg).map(|_| ls) });
        match r {
            Ok(ls) => Some(ls),
            Err(e) => { sess.monitor("the in-process language server answered before its deadline", false); sess.count(&format!("url:start failed: {}", e)); None }
        }
    };
    let Some(mut ls) = start(sess) else { return };
    for (i, sc) in scenarios.iter().enumerate() {
        let sdir = root.join(format!("u{}", i));
        match url_commands(&cx, &mut ls, &sdir, sc, i) {
            Ok((o, mons)) => {
                sess.monitor("the in-process language server answered before its deadline", true);
                sess.count("url:scenario");
                for (m, h) in mons { sess.monitor(m, h); }
                for _ in 0..o.o_cases { sess.o(); }
                for c in o.counts { sess.count(&c); }
                if let Some((op, imp)) = o.k { sess.k(&op, &imp); sess.nontrivial(&op); }
                for (c, d) in o.fails { sess.fail(&c, d, sc.to_json(), None); }
            }
            Err(e) => {
                sess.monitor("the in-process language server answered before its deadline", false);
                sess.count(&format!("url:error {}", trunc(&e.to_string(), 80)));
                match start(sess) { Some(n) => ls = n, None => return }
            }
        }
    }
    let _ = ls.shutdown(&boot_cfg);
}

// =============================================================================================
// w25 — audit of the oracles and generators against the property text (additions only)
// =============================================================================================
//
// (A) `server_lang_scenarios` (stream `server-lang`): the add commands on the real server for documents of
//     EVERY front-end `update_document` chooses from the language id (plain, Markdown, HTML, Typst, git commit,
//     literate Haskell, tree-sitter comment languages incl. the `use_ident_dict` branch), LF / CRLF, every probe
//     twice in the document, under explicit / null / unknown configuration keys and the British dialect, followed
//     by the handlers no other stream sends after an add: didSave, didClose + didOpen, didChangeConfiguration,
//     then a restart. Judged on the publications: the word is accepted at every occurrence, a file-dictionary
//     word stays reported in the other document, and ALL OTHER diagnostics are what they were before the first add.
// (B) `js_wide_stream` (stream `js-wide`): `harper_wasm::Linter` with every dialect, Plain and Markdown, an explicit
//     lint configuration set before the import, several `import_words` calls on one instance: imported words are
//     accepted at every occurrence, all other lints are unchanged (the configuration survives the rebuild),
//     `export_words` is exactly the set imported, a new Linter importing the export gives the same lints.
// (C) `cli_dict_stream` (stream `cli-dict`): "a dictionary file on disk" read by the real `harper-cli lint
//     --user-dict-path --file-dict-path` (its own copies of `load_dict` / `file_dict_name`): dictionaries written
//     by the real `save_dict` under the real `file_dict_name(Url)` (and by hand with CRLF / no final newline).
// (D) `wide_histories`: the direct path (K + O, `run_history`) over word families no generator wrote: fullwidth,
//     astral (with and without case mapping), combining marks, Greek / Cyrillic / Hebrew / CJK / Hangul,
//     ligatures and title-case digraphs, 300-character words, digits / hyphen / underscore inside.

struct LangSpec {
    label: &'static str,
    id: &'static str,
    ext: &'static str,
    prefix: &'static str,
    suffix: &'static str,
    /// written after every prose line (1 or 2 line breaks)
    sep: &'static str,
    /// code after the prose (an identifier that no comment mentions: `use_ident_dict` without `c09-ident-dict-dropped`)
    tail: &'static str,
}
const fn lang(label: &'static str, id: &'static str, ext: &'static str, prefix: &'static str, suffix: &'static str, sep: &'static str, tail: &'static str) -> LangSpec {
    LangSpec { label, id, ext, prefix, suffix, sep, tail }
}
const LANGS: [LangSpec; 24] = [
    lang("plaintext", "plaintext", "txt", "", "", "\n", ""),
    lang("text", "text", "txt", "", "", "\n", ""),
    lang("mail", "mail", "eml", "", "", "\n", ""),
    lang("markdown", "markdown", "md", "", "", "\n\n", ""),
    lang("markdown-list", "markdown", "md", "- ", "", "\n", ""),
    lang("markdown-quote", "markdown", "md", "> ", "", "\n\n", ""),
    lang("html", "html", "html", "<p>", "</p>", "\n", ""),
    lang("typst", "typst", "typ", "", "", "\n\n", ""),
    lang("git-commit", "git-commit", "txt", "", "", "\n\n", ""),
    lang("gitcommit", "gitcommit", "txt", "", "", "\n\n", ""),
    lang("rust", "rust", "rs", "// ", "", "\n", "fn zq_wident() {}\n"),
    lang("rust-doc", "rust", "rs", "/// ", "", "\n", "pub fn zq_wident() {}\n"),
    lang("python", "python", "py", "# ", "", "\n", "zq_wident = 1\n"),
    lang("javascript", "javascript", "js", "// ", "", "\n", "let zqWident = 1;\n"),
    lang("typescript", "typescript", "ts", "// ", "", "\n", "let zqWident: number = 1;\n"),
    lang("go", "go", "go", "// ", "", "\n", "package zqwmain\n"),
    lang("java", "java", "java", "// ", "", "\n", "class ZqWident {}\n"),
    lang("lua", "lua", "lua", "-- ", "", "\n", "local zq_wident = 1\n"),
    lang("toml", "toml", "toml", "# ", "", "\n", "zq_wident = 1\n"),
    lang("shellscript", "shellscript", "sh", "# ", "", "\n", "zq_wident=1\n"),
    lang("c", "c", "c", "// ", "", "\n", "int zq_wident;\n"),
    lang("haskell", "haskell", "hs", "-- ", "", "\n", "zqwmain = 1\n"),
    lang("lhaskell", "lhaskell", "lhs", "", "", "\n\n", "> zqwmain = 1\n"),
    lang("literate haskell", "literate haskell", "lhs", "", "", "\n\n", "> zqwmain = 1\n"),
];
const LANG_CFGS: usize = 6;
const LANG_FIXED: [&str; 2] = ["This is is a test.", "We ate a apple there."];

/// the configuration the client answers with, variant `v` (constant for a whole scenario)
fn lang_cfg(sdir: &Path, v: usize) -> Value {
    let mut c = srv_cfg(sdir);
    let h = c["harper-ls"].as_object_mut().unwrap();
    match v % LANG_CFGS {
        1 => { h.insert("dialect".into(), json!("British")); }
        2 => { h.insert("linters".into(), json!({"SpellCheck": true, "RepeatedWords": false, "AnA": true})); }
        3 => { h.insert("linters".into(), json!({"SpellCheck": null, "ZqNoSuchRule": true, "LongSentences": null, "RepeatedWords": null})); }
        4 => { h.insert("linters".into(), json!({})); h.insert("dialect".into(), json!("Australian")); }
        5 => { h.insert("markdown".into(), json!({"IgnoreLinkTitle": true})); h.insert("diagnosticSeverity".into(), json!("warning")); h.insert("codeActions".into(), json!({"ForceStable": true})); h.insert("dialect".into(), json!("Canadian")); }
        _ => {}
    }
    c
}

#[derive(Clone, Debug)]
struct LangScenario {
    lang: usize,
    crlf: bool,
    twice: bool,
    cfg: usize,
    docs: usize,
    adds: Vec<SrvAdd>,
    extra: Vec<String>,
    /// handlers sent after the commands: didSave / reopen / didChangeConfiguration / didChange
    after: Vec<String>,
    /// words of a user dictionary file written by hand before the server sees the documents (CRLF and no final
    /// line break in a CRLF scenario): "a dictionary file on disk"
    disk: Vec<String>,
}
/// where the probes are in the document text
struct LangLayout {
    text: String,
    probes: Vec<String>,
    /// 0-based lines of each probe's occurrences
    lines: Vec<Vec<usize>>,
    /// UTF-16 column of the probe word on its lines
    col: usize,
}
impl LangScenario {
    fn probes(&self) -> Vec<String> {
        let mut p: Vec<String> = vec![];
        for w in self.adds.iter().map(|a| &a.w).chain(self.extra.iter()).chain(self.disk.iter()) {
            if !p.contains(w) {
                p.push(w.clone());
            }
        }
        p
    }
    fn layout(&self) -> LangLayout {
        let spec = &LANGS[self.lang % LANGS.len()];
        let probes = self.probes();
        let mut entries: Vec<(Option<usize>, String)> = probes.iter().enumerate().map(|(i, p)| (Some(i), template(p))).collect();
        for f in LANG_FIXED {
            entries.push((None, f.to_string()));
        }
        if self.twice {
            for (i, p) in probes.iter().enumerate() {
                entries.push((Some(i), template(p)));
            }
        }
        let per = spec.sep.matches('\n').count();
        let mut lines: Vec<Vec<usize>> = vec![vec![]; probes.len()];
        let mut text = String::new();
        for (n, (pi, l)) in entries.iter().enumerate() {
            if let Some(pi) = pi {
                lines[*pi].push(n * per);
            }
            text.push_str(spec.prefix);
            text.push_str(l);
            text.push_str(spec.suffix);
            text.push_str(spec.sep);
        }
        text.push_str(spec.tail);
        if self.crlf {
            text = text.replace('\n', "\r\n");
        }
        LangLayout { text, probes, lines, col: spec.prefix.chars().count() + TEMPLATE_AT }
    }
    fn to_json(&self) -> Value {
        let spec = &LANGS[self.lang % LANGS.len()];
        json!({"stream": "server-lang", "language": spec.label, "language_id": spec.id, "crlf": self.crlf, "every_probe_twice": self.twice, "config_variant": self.cfg % LANG_CFGS,
            "docs": self.docs, "never_added": self.extra, "after": self.after, "user_dictionary_file_before_start": self.disk, "document_text": self.layout().text,
            "commands": self.adds.iter().map(|a| json!({"command": if a.file { "HarperAddToFileDict" } else { "HarperAddToUserDict" }, "doc": a.doc, "word": a.w})).collect::<Vec<_>>()})
    }
    fn from_json(v: &Value) -> Option<LangScenario> {
        let lang = LANGS.iter().position(|l| Some(l.label) == v["language"].as_str())?;
        let docs = v["docs"].as_u64().unwrap_or(1).clamp(1, 2) as usize;
        let strs = |x: &Value| x.as_array().map(|a| a.iter().filter_map(|s| s.as_str().map(|s| s.to_string())).collect::<Vec<_>>()).unwrap_or_default();
        let adds = v["commands"].as_array()?.iter().map(|c| SrvAdd { file: c["command"] == "HarperAddToFileDict", doc: (c["doc"].as_u64().unwrap_or(0) as usize).min(docs - 1), w: c["word"].as_str().unwrap_or("").to_string() }).collect();
        Some(LangScenario { lang, crlf: v["crlf"].as_bool().unwrap_or(false), twice: v["every_probe_twice"].as_bool().unwrap_or(false), cfg: v["config_variant"].as_u64().unwrap_or(0) as usize, docs, adds, extra: strs(&v["never_added"]), after: strs(&v["after"]), disk: strs(&v["user_dictionary_file_before_start"]) })
    }
}

fn diag_covers(d: &Value, line: usize, col: usize) -> bool {
    d["range"]["start"]["line"].as_u64() == Some(line as u64) && d["range"]["start"]["character"].as_u64().unwrap_or(0) <= col as u64 && d["range"]["end"]["character"].as_u64().unwrap_or(0) > col as u64
}
fn lang_flagged(diags: &Value, line: usize, col: usize) -> bool {
    diags.as_array().is_some_and(|a| a.iter().any(|d| diag_covers(d, line, col)))
}
/// the diagnostics that are NOT on an occurrence of one of the `skip` probes, as comparable strings: a
/// diagnostic on another probe (a spelling lint: its message / suggestions may name the added word) by
/// its range only, everything else whole
fn lang_others(diags: &Value, lay: &LangLayout, skip: &[usize]) -> Vec<String> {
    let mut v: Vec<String> = vec![];
    for d in diags.as_array().map(|a| a.as_slice()).unwrap_or(&[]) {
        if skip.iter().any(|pi| lay.lines[*pi].iter().any(|l| diag_covers(d, *l, lay.col))) {
            continue;
        }
        let on_probe = (0..lay.probes.len()).any(|pi| lay.lines[pi].iter().any(|l| diag_covers(d, *l, lay.col)));
        v.push(if on_probe { format!("probe {}", d["range"]) } else { d.to_string() });
    }
    v.sort();
    v
}

/// the property on document `d`'s latest publication `now`, after the first `upto` commands; `initial` = the
/// publication before the first command (same text, same configuration)
#[allow(clippy::too_many_arguments)]
fn lang_judge(out: &mut SrvOut, sc: &LangScenario, lay: &LangLayout, d: usize, upto: usize, initial: &Value, now: &Value, when: &str) {
    let label = LANGS[sc.lang % LANGS.len()].label;
    let mut own: Vec<usize> = vec![];
    for (bi, b) in sc.adds.iter().enumerate().take(upto) {
        let pi = lay.probes.iter().position(|p| *p == b.w).unwrap();
        let applies = !b.file || b.doc == d;
        if applies {
            if !own.contains(&pi) {
                own.push(pi);
            }
            for l in &lay.lines[pi] {
                out.o_cases += 1;
                if !lang_flagged(initial, *l, lay.col) {
                    out.counts.push(format!("lang:{}: probe never reported — not judged (crlf={} config variant {} line {})", label, sc.crlf, sc.cfg % LANG_CFGS, l));
                } else if lang_flagged(now, *l, lay.col) {
                    out.fails.push(("lang-added-word-flagged".into(), format!("{}: `{}` ({} #{}) is still reported on line {} of document {} ({} document)", when, b.w, if b.file { "HarperAddToFileDict" } else { "HarperAddToUserDict" }, bi + 1, l, d, label)));
                } else {
                    out.counts.push(format!("lang:{}: added word accepted ({})", label, when.split(':').next().unwrap_or("")));
                }
            }
        } else {
            let also = sc.adds.iter().take(upto).any(|c| c.w.to_lowercase() == b.w.to_lowercase() && (!c.file || c.doc == d));
            if also {
                continue;
            }
            for l in &lay.lines[pi] {
                out.o_cases += 1;
                if lang_flagged(initial, *l, lay.col) && !lang_flagged(now, *l, lay.col) {
                    out.fails.push(("lang-file-word-leaks".into(), format!("{}: `{}` was added to the file dictionary of document {} only, but document {} ({}) no longer reports it on line {}", when, b.w, b.doc, d, label, l)));
                } else {
                    out.counts.push("lang:file-dictionary word still reported in the other document".into());
                }
            }
        }
    }
    // the words of the dictionary file on disk are accepted, from the first check on and after every rewrite of
    // that file by an add command (judged when the front-end reports the never-added word, a word of the same make)
    let reference = sc.extra.first().and_then(|x| lay.probes.iter().position(|p| p == x)).is_some_and(|pi| lay.lines[pi].first().is_some_and(|l| lang_flagged(now, *l, lay.col)));
    for w in &sc.disk {
        let pi = lay.probes.iter().position(|p| p == w).unwrap();
        for l in &lay.lines[pi] {
            out.o_cases += 1;
            if !reference {
                out.counts.push(format!("lang:{}: word of the dictionary file on disk not judged (the never-added word is not reported either)", label));
            } else if lang_flagged(now, *l, lay.col) {
                out.fails.push(("lang-disk-word-flagged".into(), format!("{}: `{}` is in the user dictionary file written before the server started ({:?}) but is reported on line {} of document {} ({})", when, w, sc.disk, l, d, label)));
            } else {
                out.counts.push(format!("lang:word of the dictionary file on disk accepted ({})", when.split(':').next().unwrap_or("")));
            }
        }
    }
    // all other lints are unchanged
    out.o_cases += 1;
    let (a, b) = (lang_others(initial, lay, &own), lang_others(now, lay, &own));
    if a != b {
        let gone: Vec<&String> = a.iter().filter(|x| !b.contains(x)).collect();
        let new: Vec<&String> = b.iter().filter(|x| !a.contains(x)).collect();
        out.fails.push(("lang-other-lints-changed".into(), format!("{}: document {} ({}): diagnostics other than those on the added words differ from the ones before the first add: gone {} new {}", when, d, label, trunc(&format!("{:?}", gone), 400), trunc(&format!("{:?}", new), 400))));
    } else {
        out.counts.push(format!("lang:other diagnostics unchanged ({} of them)", if a.is_empty() { "none" } else { "some" }));
    }
}

fn lang_uris(sdir: &Path, sc: &LangScenario) -> Vec<String> {
    let spec = &LANGS[sc.lang % LANGS.len()];
    (0..sc.docs).map(|d| crate::lsclient::file_url(&sdir.join(format!("doc{}.{}", d, spec.ext)))).collect()
}

/// phase 1 of a server-lang scenario; returns the publications before the first command (one per document)
fn lang_commands(ls: &mut LsSession, sdir: &Path, sc: &LangScenario) -> Result<(SrvOut, Vec<Value>), crate::lsclient::LsError> {
    use crate::lsclient::{did_change, did_close, did_open, did_save};
    let mut out = SrvOut::default();
    let spec = &LANGS[sc.lang % LANGS.len()];
    let cfg = lang_cfg(sdir, sc.cfg);
    let lay = sc.layout();
    std::fs::create_dir_all(sdir).unwrap();
    let uris = lang_uris(sdir, sc);
    if !sc.disk.is_empty() {
        let body = if sc.crlf { sc.disk.join("\r\n") } else { sc.disk.iter().map(|w| format!("{}\n", w)).collect() };
        std::fs::write(sdir.join("dictionary.txt"), body).unwrap();
    }
    let mut initial: Vec<Value> = vec![];
    for d in 0..sc.docs {
        std::fs::write(sdir.join(format!("doc{}.{}", d, spec.ext)), &lay.text).unwrap();
        ls.notify("textDocument/didOpen", did_open(&uris[d], spec.id, &lay.text))?;
        ls.quiesce(&cfg)?;
        match ls.last_publication(&uris[d]).cloned() {
            Some(p) => initial.push(p),
            None => {
                out.fails.push(("lang-no-publication".into(), format!("didOpen of document {} ({}) published nothing", d, spec.label)));
                initial.push(json!([]));
            }
        }
    }
    if !sc.disk.is_empty() {
        for d in 0..sc.docs {
            let p = initial[d].clone();
            lang_judge(&mut out, sc, &lay, d, 0, &p, &p, "at-didOpen: before any command");
        }
    }
    let mut version = 1i64;
    for (i, a) in sc.adds.iter().enumerate() {
        let uri = uris[a.doc].clone();
        let n_before = ls.publications(&uri).len();
        let cmd = if a.file { "HarperAddToFileDict" } else { "HarperAddToUserDict" };
        ls.request_sync("workspace/executeCommand", json!({"command": cmd, "arguments": [a.w, uri]}), &cfg)?;
        ls.quiesce(&cfg)?;
        if ls.publications(&uri).len() == n_before {
            out.fails.push(("lang-no-publication".into(), format!("command #{} ({} `{}`) published nothing for its {} document", i + 1, cmd, a.w, spec.label)));
        }
        // the other document is checked again
        if sc.docs == 2 {
            version += 1;
            ls.notify("textDocument/didChange", did_change(&uris[1 - a.doc], version, &lay.text))?;
            ls.quiesce(&cfg)?;
        }
        for d in 0..sc.docs {
            if let Some(p) = ls.last_publication(&uris[d]).cloned() {
                lang_judge(&mut out, sc, &lay, d, i + 1, &initial[d], &p, &format!("after-command: #{}", i + 1));
            }
        }
    }
    for h in &sc.after {
        for d in 0..sc.docs {
            let n_before = ls.publications(&uris[d]).len();
            match h.as_str() {
                "didSave" => ls.notify("textDocument/didSave", did_save(&uris[d]))?,
                "reopen" => {
                    ls.notify("textDocument/didClose", did_close(&uris[d]))?;
                    ls.quiesce(&cfg)?;
                    ls.notify("textDocument/didOpen", did_open(&uris[d], spec.id, &lay.text))?;
                }
                "didChangeConfiguration" => {
                    if d > 0 {
                        continue; // one notification re-checks every document
                    }
                    ls.notify("workspace/didChangeConfiguration", json!({"settings": cfg}))?;
                }
                _ => {
                    version += 1;
                    ls.notify("textDocument/didChange", did_change(&uris[d], version, &lay.text))?;
                }
            }
            ls.quiesce(&cfg)?;
            if ls.publications(&uris[d]).len() == n_before {
                out.fails.push(("lang-no-publication".into(), format!("{} published nothing for document {} ({})", h, d, spec.label)));
            }
        }
        for d in 0..sc.docs {
            if let Some(p) = ls.last_publication(&uris[d]).cloned() {
                lang_judge(&mut out, sc, &lay, d, sc.adds.len(), &initial[d], &p, &format!("after-{}: all commands, then {}", h, h));
            }
        }
    }
    Ok((out, initial))
}

/// phase 2: a new server, the same configuration and files
fn lang_after_restart(ls: &mut LsSession, sdir: &Path, sc: &LangScenario, initial: &[Value]) -> Result<SrvOut, crate::lsclient::LsError> {
    use crate::lsclient::did_open;
    let mut out = SrvOut::default();
    let spec = &LANGS[sc.lang % LANGS.len()];
    let cfg = lang_cfg(sdir, sc.cfg);
    let lay = sc.layout();
    let uris = lang_uris(sdir, sc);
    for d in 0..sc.docs {
        ls.notify("textDocument/didOpen", did_open(&uris[d], spec.id, &lay.text))?;
        ls.quiesce(&cfg)?;
        match ls.last_publication(&uris[d]).cloned() {
            Some(p) => lang_judge(&mut out, sc, &lay, d, sc.adds.len(), &initial[d], &p, "after-restart: new server, didOpen"),
            None => out.fails.push(("lang-no-publication".into(), format!("after the restart, didOpen of document {} ({}) published nothing", d, spec.label))),
        }
    }
    Ok(out)
}

/// plain probe words, pairwise different also in lower case: nonsense, Capitalised, with a non-ASCII Latin
/// letter, Greek, Cyrillic (no apostrophes, no mixed case, no curated words: those have their own classes)
fn lang_word(rng: &mut Rng, prev: &[String]) -> String {
    loop {
        let b = format!("{}{}", rng.pick(&BASE[..8]), (b'a' + rng.below(26) as u8) as char);
        let w = match rng.below(10) {
            0 | 1 => { let mut c = cs(&b); c[0] = c[0].to_ascii_uppercase(); st(&c) }
            2 => format!("{}{}", b, rng.pick(&["é", "ö", "ß", "ž"])),
            3 => format!("{}{}", rng.pick(&["ζξψ", "жщъ", "ñañ"]), &b[..3]),
            _ => b,
        };
        // one Word token of its line (the lexer cuts `ζξψqxz` after the Greek letters: such a word is no probe)
        if !prev.iter().any(|p| p.to_lowercase() == w.to_lowercase()) && !FstDictionary::curated().contains_word(&cs(&w)) && one_token(&Document::new(&template(&w), &PlainEnglish, &FstDictionary::curated()), w.chars().count()) {
            return w;
        }
    }
}

fn gen_lang_scenario(rng: &mut Rng, lang: usize, cfg: usize) -> LangScenario {
    let docs = rng.range(1, 2);
    let n = rng.range(1, 3);
    let mut words: Vec<String> = vec![];
    let mut adds = vec![];
    for _ in 0..n {
        let w = lang_word(rng, &words);
        words.push(w.clone());
        adds.push(SrvAdd { file: rng.chance(2, 5), doc: rng.below(docs), w });
    }
    let extra = vec![lang_word(rng, &words)];
    let all = ["didSave", "reopen", "didChangeConfiguration", "didChange"];
    let mut after: Vec<String> = vec![];
    for _ in 0..rng.range(1, 2) {
        let h = rng.pick(&all).to_string();
        if !after.contains(&h) {
            after.push(h);
        }
    }
    let mut disk = vec![];
    if rng.chance(1, 2) {
        for _ in 0..rng.range(1, 2) {
            let mut all = words.clone();
            all.extend(extra.iter().cloned());
            all.extend(disk.iter().cloned());
            disk.push(lang_word(rng, &all));
        }
    }
    LangScenario { lang, crlf: rng.chance(1, 3), twice: rng.chance(1, 2), cfg, docs, adds, extra, after, disk }
}

fn corpus_lang() -> Vec<LangScenario> {
    let a = |file: bool, doc: usize, w: &str| SrvAdd { file, doc, w: w.to_string() };
    let s = |v: &[&str]| v.iter().map(|x| x.to_string()).collect::<Vec<String>>();
    let li = |l: &str| LANGS.iter().position(|x| x.label == l).unwrap();
    vec![
        // every handler after a user and a file add, Markdown, two documents
        LangScenario { lang: li("markdown"), crlf: false, twice: true, cfg: 0, docs: 2, adds: vec![a(false, 0, "zqxvk"), a(true, 1, "qxzvk")], extra: s(&["jqvzk"]), after: s(&["didChangeConfiguration", "didSave", "reopen"]), disk: s(&["vkqzk", "Xqzkk"]) },
        // a configuration with explicit rules (RepeatedWords off): the rebuilt linter keeps it
        LangScenario { lang: li("plaintext"), crlf: true, twice: true, cfg: 2, docs: 1, adds: vec![a(false, 0, "zqxvk"), a(true, 0, "Qxzvk")], extra: s(&["jqvzk"]), after: s(&["didChangeConfiguration"]), disk: s(&["vkqzk", "xqzkké"]) },
        // the use_ident_dict branch: the file dictionary must be part of the merged dictionary on the first update
        LangScenario { lang: li("rust"), crlf: false, twice: false, cfg: 0, docs: 2, adds: vec![a(true, 0, "zqxvk"), a(false, 1, "qxzvké")], extra: s(&["jqvzk"]), after: s(&["reopen", "didChangeConfiguration"]), disk: vec![] },
        LangScenario { lang: li("html"), crlf: true, twice: true, cfg: 3, docs: 1, adds: vec![a(true, 0, "zqxvk")], extra: s(&["jqvzk"]), after: s(&["didSave"]), disk: s(&["vkqzk"]) },
        LangScenario { lang: li("typst"), crlf: false, twice: true, cfg: 1, docs: 1, adds: vec![a(false, 0, "zqxvkö")], extra: s(&["jqvzk"]), after: s(&["didChangeConfiguration"]), disk: vec![] },
    ]
}

/// `server-lang` scenarios through the real `Backend`: one server for all command phases, a second one for
/// all restart phases (the pattern of `server_scenarios`)
fn server_lang_scenarios(sess: &mut Session, root: &Path, scenarios: &[LangScenario]) {
    let boot_cfg = srv_cfg(&root.join("boot"));
    let start = |sess: &mut Session| -> Option<LsSession> {
        let r = LsSession::start().and_then(|mut ls| { ls.max_wait = std::time::Duration::from_secs(20); ls.initialize(&boot_cfg).map(|_| ls) });
        match r {
            Ok(ls) => Some(ls),
            Err(e) => { sess.monitor("the in-process language server answered before its deadline", false); sess.count(&format!("lang:start failed: {}", e)); None }
        }
    };
    let record = |sess: &mut Session, sc: &LangScenario, o: SrvOut| {
        for _ in 0..o.o_cases { sess.o(); }
        for c in o.counts { sess.count(&c); }
        for (c, d) in o.fails { sess.fail(&c, d, sc.to_json(), None); }
    };
    let Some(mut ls) = start(sess) else { return };
    let mut done: Vec<(usize, Vec<Value>)> = vec![];
    for (i, sc) in scenarios.iter().enumerate() {
        let sdir = root.join(format!("l{}", i));
        match lang_commands(&mut ls, &sdir, sc) {
            Ok((o, initial)) => {
                sess.monitor("the in-process language server answered before its deadline", true);
                sess.count("lang:scenario (commands)");
                sess.count(&format!("lang:language {}", LANGS[sc.lang % LANGS.len()].label));
                sess.count(&format!("lang:config variant {}", sc.cfg % LANG_CFGS));
                sess.count(if sc.crlf { "lang:CRLF document" } else { "lang:LF document" });
                for h in &sc.after { sess.count(&format!("lang:handler after the adds: {}", h)); }
                record(sess, sc, o);
                done.push((i, initial));
            }
            Err(e) => {
                sess.monitor("the in-process language server answered before its deadline", false);
                sess.count(&format!("lang:error {}", trunc(&e.to_string(), 80)));
                match start(sess) { Some(n) => ls = n, None => return }
            }
        }
    }
    let _ = ls.shutdown(&boot_cfg);
    drop(ls);
    let Some(mut ls) = start(sess) else { return };
    for (i, initial) in done {
        let sc = &scenarios[i];
        let sdir = root.join(format!("l{}", i));
        match lang_after_restart(&mut ls, &sdir, sc, &initial) {
            Ok(o) => { sess.count("lang:scenario (restart)"); record(sess, sc, o); }
            Err(e) => {
                sess.monitor("the in-process language server answered before its deadline", false);
                sess.count(&format!("lang:error {}", trunc(&e.to_string(), 80)));
                match start(sess) { Some(n) => ls = n, None => return }
            }
        }
    }
    let _ = ls.shutdown(&boot_cfg);
}

// ---- (B) harper_wasm::Linter: dialects, Markdown, explicit configuration, several imports -------------------

#[derive(Clone, Debug)]
struct JsWide {
    dialect: usize,
    markdown: bool,
    cfg: Option<String>,
    batches: Vec<Vec<String>>,
    extra: String,
}
const JS_DIALECTS: [&str; 4] = ["American", "British", "Australian", "Canadian"];
const JS_CFGS: [Option<&str>; 4] = [None, Some("{\"RepeatedWords\": false}"), Some("{\"SpellCheck\": true, \"AnA\": false, \"ZqNoSuchRule\": true}"), Some("{\"RepeatedWords\": null, \"AnA\": null}")];
impl JsWide {
    fn to_json(&self) -> Value {
        json!({"stream": "js-wide", "dialect": JS_DIALECTS[self.dialect % 4], "language": if self.markdown { "Markdown" } else { "Plain" }, "set_lint_config_from_json": self.cfg, "import_words_calls": self.batches, "never_imported": self.extra})
    }
    fn from_json(v: &Value) -> Option<JsWide> {
        let batches = v["import_words_calls"].as_array()?.iter().map(|b| b.as_array().map(|a| a.iter().filter_map(|s| s.as_str().map(|s| s.to_string())).collect::<Vec<_>>()).unwrap_or_default()).collect();
        Some(JsWide { dialect: JS_DIALECTS.iter().position(|d| Some(*d) == v["dialect"].as_str()).unwrap_or(0), markdown: v["language"] == "Markdown", cfg: v["set_lint_config_from_json"].as_str().map(|s| s.to_string()), batches, extra: v["never_imported"].as_str().unwrap_or("jqvzk").to_string() })
    }
    fn wasm_dialect(&self) -> harper_wasm::Dialect {
        match self.dialect % 4 { 0 => harper_wasm::Dialect::American, 1 => harper_wasm::Dialect::British, 2 => harper_wasm::Dialect::Australian, _ => harper_wasm::Dialect::Canadian }
    }
}

#[derive(Default)]
struct JsOut {
    fails: Vec<(String, String)>,
    counts: Vec<String>,
    o_cases: usize,
}

/// (start, end, kind, whole signature) of a JS lint
fn js_lint_sig(l: &harper_wasm::Lint) -> (usize, usize, String, String) {
    let sp = l.span();
    let sugg: Vec<String> = l.suggestions().iter().map(|s| format!("{:?}:{}", s.kind() as u8, s.get_replacement_text())).collect();
    (sp.start, sp.end, l.lint_kind(), format!("{}..{} {} {:?} {:?}", sp.start, sp.end, l.lint_kind(), l.message(), sugg))
}

fn js_wide_case(c: &JsWide) -> JsOut {
    let mut out = JsOut::default();
    let r = guarded(|| js_wide_inner(c));
    match r {
        Ok(o) => out = o,
        Err(m) => {
            let words: Vec<String> = c.batches.iter().flatten().cloned().chain(std::iter::once(c.extra.clone())).collect();
            out.fails.push((if is_long_word_panic(&m, &words) { LONG_WORD_PANIC.into() } else { "panic".into() }, format!("the js-wide case panicked: {}", m)))
        }
    }
    out
}

fn js_wide_inner(c: &JsWide) -> JsOut {
    let mut out = JsOut::default();
    let lang = if c.markdown { harper_wasm::Language::Markdown } else { harper_wasm::Language::Plain };
    let sep = if c.markdown { "\n\n" } else { "\n" };
    let mut words: Vec<String> = vec![];
    for b in &c.batches {
        for w in b {
            if !words.contains(w) {
                words.push(w.clone());
            }
        }
    }
    // the text: every word twice (the second time after the fixed lines), the never-imported word once
    let mut text = String::new();
    let mut at = 0usize;
    let mut occ: Vec<Vec<(usize, usize)>> = vec![vec![]; words.len() + 1];
    let mut push = |text: &mut String, at: &mut usize, line: &str| -> usize {
        let s = *at;
        text.push_str(line);
        text.push_str(sep);
        *at += line.chars().count() + sep.chars().count();
        s
    };
    for (i, w) in words.iter().enumerate() {
        let s = push(&mut text, &mut at, &template(w));
        occ[i].push((s + TEMPLATE_AT, s + TEMPLATE_AT + w.chars().count()));
    }
    for f in LANG_FIXED {
        push(&mut text, &mut at, f);
    }
    for (i, w) in words.iter().enumerate() {
        let s = push(&mut text, &mut at, &template(w));
        occ[i].push((s + TEMPLATE_AT, s + TEMPLATE_AT + w.chars().count()));
    }
    let s = push(&mut text, &mut at, &template(&c.extra));
    occ[words.len()].push((s + TEMPLATE_AT, s + TEMPLATE_AT + c.extra.chars().count()));
    // a word is judged when it is one Word token of its line and has no recorded class of its own
    let cur = FstDictionary::curated();
    let judged: Vec<bool> = words.iter().map(|w| {
        let wc = cs(w);
        one_token(&Document::new(&template(w), &PlainEnglish, &cur), wc.len()) && wc.normalized().as_ref() == wc.as_slice() && cur.get_word_metadata(&wc).is_none()
            && !words.iter().any(|x| x != w && lownorm_s(x) == lownorm_s(w))
    }).collect();
    let overl = |l: &(usize, usize, String, String), o: &(usize, usize)| l.0 < o.1 && o.0 < l.1;
    let new_linter = |c: &JsWide| -> harper_wasm::Linter {
        let mut l = harper_wasm::Linter::new(c.wasm_dialect());
        if let Some(j) = &c.cfg {
            l.set_lint_config_from_json(j.clone()).expect("set_lint_config_from_json refused the harness's configuration");
        }
        l
    };
    // lints that are not on an occurrence of an imported word: on another probe by span and kind, else whole
    let others = |lints: &[(usize, usize, String, String)], imported: &[usize]| -> Vec<String> {
        let mut v: Vec<String> = lints.iter().filter(|l| !imported.iter().any(|i| occ[*i].iter().any(|o| overl(l, o)))).map(|l| {
            if occ.iter().flatten().any(|o| overl(l, o)) { format!("probe {}..{} {}", l.0, l.1, l.2) } else { l.3.clone() }
        }).collect();
        v.sort();
        v
    };
    let mut judge = |out: &mut JsOut, before: &[(usize, usize, String, String)], now: &[(usize, usize, String, String)], imported: &[usize], when: &str| {
        for i in imported {
            if !judged[*i] {
                out.counts.push("jsw:word not judged (not one Word token / has a recorded class)".into());
                continue;
            }
            for o in &occ[*i] {
                out.o_cases += 1;
                if now.iter().any(|l| overl(l, o) && l.2 == "Spelling") {
                    out.fails.push(("jsw-added-word-flagged".into(), format!("{}: `{}` is reported by Linter::lint at {}..{} ({} {})", when, words[*i], o.0, o.1, JS_DIALECTS[c.dialect % 4], if c.markdown { "Markdown" } else { "Plain" })));
                } else if before.iter().any(|l| overl(l, o) && l.2 == "Spelling") {
                    out.counts.push(format!("jsw:imported word accepted ({})", when.split(':').next().unwrap_or("")));
                } else {
                    out.counts.push("jsw:word was not reported before the import".into());
                }
            }
        }
        out.o_cases += 1;
        let (a, b) = (others(before, imported), others(now, imported));
        if a != b {
            let gone: Vec<&String> = a.iter().filter(|x| !b.contains(x)).collect();
            let new: Vec<&String> = b.iter().filter(|x| !a.contains(x)).collect();
            out.fails.push(("jsw-other-lints-changed".into(), format!("{}: lints other than those on the imported words differ from the ones before the first import_words (configuration {:?}): gone {} new {}", when, c.cfg, trunc(&format!("{:?}", gone), 300), trunc(&format!("{:?}", new), 300))));
        } else {
            out.counts.push(format!("jsw:other lints unchanged ({})", if a.is_empty() { "none" } else { "some" }));
        }
    };
    let mut l = new_linter(c);
    let before: Vec<_> = l.lint(text.clone(), lang).iter().map(js_lint_sig).collect();
    let mut imported: Vec<usize> = vec![];
    for (bi, b) in c.batches.iter().enumerate() {
        l.import_words(b.clone());
        for w in b {
            let i = words.iter().position(|x| x == w).unwrap();
            if !imported.contains(&i) {
                imported.push(i);
            }
        }
        let now: Vec<_> = l.lint(text.clone(), lang).iter().map(js_lint_sig).collect();
        judge(&mut out, &before, &now, &imported, &format!("after-import: call #{}", bi + 1));
        // the same instance again (long-lived instance, caches warm)
        let again: Vec<_> = l.lint(text.clone(), lang).iter().map(js_lint_sig).collect();
        judge(&mut out, &before, &again, &imported, &format!("second-lint: after call #{}", bi + 1));
    }
    // export_words = exactly the words imported (no case variants among them)
    out.o_cases += 1;
    let mut exp: Vec<String> = l.export_words();
    exp.sort();
    let mut want: Vec<String> = imported.iter().map(|i| words[*i].clone()).collect();
    want.sort();
    let collide = want.iter().any(|w| want.iter().any(|x| x != w && lownorm_s(x) == lownorm_s(w)));
    if exp != want && !collide {
        out.fails.push(("jsw-export-differs".into(), format!("export_words returns {:?} after import_words of {:?}", exp, c.batches)));
    } else {
        out.counts.push("jsw:export_words is exactly the set imported".into());
    }
    // restart: a new Linter (same dialect and configuration) importing the export
    let mut l2 = new_linter(c);
    l2.import_words(l.export_words());
    let now: Vec<_> = l2.lint(text.clone(), lang).iter().map(js_lint_sig).collect();
    judge(&mut out, &before, &now, &imported, "after-restart: new Linter importing export_words");
    out.counts.push(format!("jsw:dialect {}", JS_DIALECTS[c.dialect % 4]));
    out.counts.push(format!("jsw:language {}", if c.markdown { "Markdown" } else { "Plain" }));
    out.counts.push(format!("jsw:configuration {}", c.cfg.as_deref().unwrap_or("default")));
    out
}

/// word families no other generator writes (D and B share them)
fn wide_word(rng: &mut Rng) -> String {
    let b = rng.pick(&BASE[..8]).to_string();
    match rng.below(16) {
        0 => "ｚｑｘｖ".to_string(),                                    // fullwidth
        1 => "Ｚｑｘｖｋ".to_string(),
        2 => "𝓏𝓆𝓍𝓋".to_string(),                                     // astral, no case mapping
        3 => "𐐨𐐩𐐪𐐫".to_string(),                                     // astral with case mapping (Deseret, lower)
        4 => "𐐀𐐩𐐪𐐫".to_string(),                                     // … capitalised
        5 => format!("{}e\u{301}", b),                               // combining acute
        6 => format!("z\u{308}{}", &b[1..]),
        7 => rng.pick(&["ζξψω", "Ζξψω", "жщъы", "Жщъы", "שלומ", "漢字語", "한국말", "ﬁzqx", "ǅzqx", "zqxẞ", "ŉzqx"]).to_string(),
        8 => format!("{}{}", b, "xv".repeat(148)),                   // 300 characters
        9 => format!("{}3{}", &b[..2], &b[2..]),
        10 => format!("{}-{}", &b[..2], &b[2..]),
        11 => format!("{}_{}", &b[..2], &b[2..]),
        12 => format!("{}{}", b, rng.pick(&["é", "ö", "ß", "ž", "ø", "ı"])),
        13 => { let mut c = cs(&b); c[0] = c[0].to_ascii_uppercase(); st(&c) }
        _ => format!("{}{}", b, (b'a' + rng.below(26) as u8) as char),
    }
}

fn gen_js_wide(rng: &mut Rng, dialect: usize, cfg: usize, markdown: bool) -> JsWide {
    let mut words: Vec<String> = vec![];
    let mut batches = vec![];
    for _ in 0..rng.range(1, 3) {
        let mut b = vec![];
        for _ in 0..rng.range(1, 3) {
            let w = if rng.chance(1, 2) { wide_word(rng) } else { lang_word(rng, &words) };
            words.push(w.clone());
            b.push(w);
        }
        // a word imported a second time (the count does not grow: no rebuild needed, nothing may change)
        if rng.chance(1, 4) {
            b.push(words[0].clone());
        }
        batches.push(b);
    }
    JsWide { dialect, markdown, cfg: JS_CFGS[cfg % JS_CFGS.len()].map(|s| s.to_string()), batches, extra: lang_word(rng, &words) }
}

fn js_wide_stream(sess: &mut Session, cases: &[JsWide]) {
    let outs = par_map(cases.len(), 8, |i| js_wide_case(&cases[i]));
    for (c, o) in cases.iter().zip(outs) {
        sess.count("jsw:case");
        for _ in 0..o.o_cases { sess.o(); }
        for k in o.counts { sess.count(&k); }
        for (cl, d) in o.fails { sess.fail(&cl, d, c.to_json(), None); }
    }
}

// ---- (C) a dictionary file on disk, read by the real harper-cli --------------------------------------------

/// `harper-cli lint <file> --count --only-lint-with SpellCheck --user-dict-path U --file-dict-path F`
fn cli_count(bin: &Path, file: &Path, user: &Path, fdir: &Path, dialect: Option<&str>) -> Option<(usize, String)> {
    let mut cmd = std::process::Command::new(bin);
    cmd.arg("lint").arg(file).arg("--count").arg("--only-lint-with").arg("SpellCheck").arg("--user-dict-path").arg(user).arg("--file-dict-path").arg(fdir);
    if let Some(d) = dialect {
        cmd.arg("--dialect").arg(d);
    }
    let out = cmd.output().ok()?;
    let so = String::from_utf8_lossy(&out.stdout).to_string();
    let n = so.lines().last()?.trim().parse::<usize>().ok()?;
    Some((n, so))
}

fn cli_dict_stream(sess: &mut Session, rt: &tokio::runtime::Runtime, root: &Path, rng: &mut Rng, rounds: usize, home0: &Option<String>) {
    let target = PathBuf::from(env!("CARGO_MANIFEST_DIR")).join("target").join("lsbin");
    let mut cargo = std::process::Command::new("cargo");
    if let Some(h) = home0 {
        cargo.env("HOME", h);
    }
    let built = cargo
        .args(["build", "--offline", "--locked", "-p", "harper-cli", "--manifest-path", "/repo/Cargo.toml", "--target-dir"])
        .arg(&target)
        .env("CARGO_NET_OFFLINE", "true")
        .stdout(std::process::Stdio::null())
        .stderr(std::process::Stdio::null())
        .status()
        .map(|s| s.success())
        .unwrap_or(false);
    sess.count(if built { "cli:built" } else { "cli:not-built (stream skipped)" });
    if !built {
        return;
    }
    let bin = target.join("debug").join("harper-cli");
    let exts = ["md", "rs", "typ", "py", "lhs"];
    let r0 = rng.below(15);
    for r in r0..r0 + rounds {
        let dir = root.join(format!("cli{}", r));
        std::fs::create_dir_all(&dir).unwrap();
        let ext = exts[r % exts.len()];
        let (prefix, sep) = match ext { "rs" => ("// ", "\n"), "py" => ("# ", "\n"), _ => ("", "\n\n") };
        let mut words: Vec<String> = vec![];
        for _ in 0..5 {
            let w = lang_word(rng, &words);
            words.push(w);
        }
        // words 0,1: user dictionary; 2: file dictionary of doc0; 3: file dictionary of doc1; 4: nowhere
        let text: String = words.iter().chain(words.iter().take(3)).map(|w| format!("{}{}{}", prefix, template(w), sep)).collect();
        let files = [dir.join(format!("doc0.{}", ext)), dir.join(format!("doc1.{}", ext))];
        for f in &files {
            std::fs::write(f, &text).unwrap();
        }
        let user = dir.join("dictionary.txt");
        let fdir = dir.join("file_dictionaries");
        let empty_user = dir.join("no-dictionary.txt");
        let empty_fdir = dir.join("no-file-dictionaries");
        // written the way the server writes them …
        let mk = |ws: &[&String]| { let mut d = MutableDictionary::new(); for w in ws { d.append_word(cs(w), WordMetadata::default()); } d };
        let hand = r % 3 == 1;
        if hand {
            // … or by hand: CRLF, no line break after the last word
            std::fs::write(&user, format!("{}\r\n{}", words[0], words[1])).unwrap();
        } else {
            rt.block_on(save_dict(&user, mk(&[&words[0], &words[1]]))).unwrap();
        }
        for (d, wi) in [(0usize, 2usize), (1, 3)] {
            let name = file_dict_name(&Url::from_file_path(&files[d]).unwrap()).unwrap();
            rt.block_on(save_dict(fdir.join(name), mk(&[&words[wi]]))).unwrap();
        }
        let dialect = if r % 2 == 1 { Some("British") } else { None };
        // three runs of the (unoptimised) executable side by side: doc0 without dictionaries (the two documents
        // have the same text), doc0 and doc1 with them
        let (base, with): (Option<(usize, String)>, Vec<Option<(usize, String)>>) = std::thread::scope(|sc| {
            let hb = sc.spawn(|| cli_count(&bin, &files[0], &empty_user, &empty_fdir, dialect));
            let h0 = sc.spawn(|| cli_count(&bin, &files[0], &user, &fdir, dialect));
            let h1 = sc.spawn(|| cli_count(&bin, &files[1], &user, &fdir, dialect));
            (hb.join().ok().flatten(), vec![h0.join().ok().flatten(), h1.join().ok().flatten()])
        });
        for d in 0..2usize {
            let input = json!({"stream": "cli-dict", "file": files[d].to_string_lossy(), "text": text, "user_dictionary": [words[0], words[1]], "user_dictionary_written_by_hand_crlf": hand,
                "file_dictionary_doc0": [words[2]], "file_dictionary_doc1": [words[3]], "in_no_dictionary": [words[4]], "document": d, "dialect": dialect});
            let (Some((all, _)), Some((got, report))) = (base.clone(), with[d].clone()) else {
                sess.count("cli:run failed or the count could not be read");
                continue;
            };
            sess.o();
            sess.count(&format!("cli:lint of a .{} file with dictionaries on disk", ext));
            // occurrences: words 0..3 twice, 3 and 4 once
            let occ = |i: usize| if i < 3 { 2 } else { 1 };
            let accepted: usize = (0..5).filter(|i| *i < 2 || *i == 2 + d).map(occ).sum();
            sess.monitor("harper-cli without dictionaries reports every probe occurrence (8)", all == 8);
            if all == 8 && got != all - accepted {
                let class = if got > all - accepted { "cli-dict-word-flagged" } else { "cli-file-word-leaks" };
                sess.fail(class, format!("harper-cli lint --count {}: {} spelling lints with the dictionaries on disk, {} without; the user dictionary holds {:?}, the file's own dictionary {:?}, the other file's {:?}: expected {}; output {:?}", files[d].display(), got, all, &words[..2], words[2 + d], words[3 - d], all - accepted, trunc(&report, 200)), input, None);
            } else {
                sess.count("cli:words of the dictionaries on disk accepted, the other file's word and the unknown word reported");
            }
        }
    }
}

// ---- (D) the direct path over word families no generator wrote ----------------------------------------------

/// Recorded finding `c07-long-user-word-edit-distance-panic` (found by this stream): once a word of 255 or more
/// characters is in a user / file dictionary, checking a text that contains ANOTHER unknown word of about that
/// length panics in `edit_distance_min_alloc` (u8 rows): `MutableDictionary::fuzzy_match` narrows the candidates
/// to a length window around the query, which protects it from the curated words (≤ 53 characters) only.
/// The classifier: the panic location is edit_distance.rs AND the case's words contain two different ones of
/// ≥ 250 characters.
const LONG_WORD_PANIC: &str = "c07-long-user-word-edit-distance-panic";
fn is_long_word_panic(desc: &str, words: &[String]) -> bool {
    let long: BTreeSet<&String> = words.iter().filter(|w| w.chars().count() >= 250).collect();
    desc.contains("harper-core/src/edit_distance.rs") && long.len() >= 2
}
fn hist_words(h: &Hist) -> Vec<String> {
    let mut v: Vec<String> = h.init.iter().flat_map(|s| s.lines().map(|l| l.to_string())).collect();
    for o in &h.ops {
        match o {
            HOp::Add(w) | HOp::AddFile(_, w) | HOp::Crash(w, _) => v.push(w.clone()),
            HOp::Lint(_, q) | HOp::JsImport(q) | HOp::JsLint(q) => v.extend(q.iter().cloned()),
            _ => {}
        }
    }
    v
}
fn reclass_long_word_panic(o: &mut Outcome, h: &Hist) {
    let words = hist_words(h);
    for f in o.fails.iter_mut() {
        if f.0 == "panic" && is_long_word_panic(&f.1, &words) {
            f.0 = LONG_WORD_PANIC.to_string();
        }
    }
}

/// the family of a `wide_word` (for the distribution: which families the lexer keeps as one Word token)
fn wide_family(w: &str) -> &'static str {
    let c = cs(w);
    if c.len() >= 250 {
        "300 characters"
    } else if c.iter().any(|x| (*x as u32) > 0xFFFF) {
        if c.iter().any(|x| x.to_lowercase().next() != Some(*x) || x.to_uppercase().next() != Some(*x)) { "astral with case mapping" } else { "astral without case mapping" }
    } else if c.iter().any(|x| (0xFF00..=0xFFEF).contains(&(*x as u32))) {
        "fullwidth"
    } else if c.iter().any(|x| (0x0300..=0x036F).contains(&(*x as u32))) {
        "combining mark"
    } else if c.iter().any(|x| x.is_ascii_digit()) {
        "digit inside"
    } else if c.contains(&'-') {
        "hyphen inside"
    } else if c.contains(&'_') {
        "underscore inside"
    } else if c.iter().any(|x| matches!(*x as u32, 0x0370..=0x03FF | 0x0400..=0x04FF | 0x0590..=0x05FF | 0x3400..=0x9FFF | 0xAC00..=0xD7AF)) {
        "Greek / Cyrillic / Hebrew / CJK / Hangul"
    } else if c.iter().any(|x| matches!(*x, 'ﬁ' | 'ǅ' | 'ẞ' | 'ŉ')) {
        "ligature / title-case digraph / ẞ / ŉ"
    } else if c.iter().any(|x| !x.is_ascii()) {
        "non-ASCII Latin letter"
    } else if c[0].is_ascii_uppercase() {
        "Capitalised nonsense"
    } else {
        "lower-case nonsense"
    }
}

fn wide_histories(rng: &mut Rng, n: usize) -> Vec<Hist> {
    let mut hs = vec![];
    for k in 0..n {
        let mut pool: Vec<String> = vec![];
        while pool.len() < 3 {
            let w = wide_word(rng);
            if !pool.iter().any(|p| lownorm_s(p) == lownorm_s(&w)) {
                pool.push(w);
            }
        }
        let q = pool.clone();
        let mut ops = vec![HOp::Lint(0, q.clone()), HOp::Add(pool[0].clone()), HOp::Lint(1, q.clone()), HOp::AddFile(1, pool[1].clone()), HOp::Lint(1, q.clone()), HOp::Lint(0, q.clone()), HOp::Restart, HOp::Lint(1, q.clone())];
        match k % 3 {
            0 => { ops.push(HOp::Crash(pool[2].clone(), At::Byte(rng.below(24)))); ops.push(HOp::Lint(0, q.clone())); }
            1 => { ops.push(HOp::JsImport(vec![pool[2].clone(), pool[0].clone()])); ops.push(HOp::JsLint(q.clone())); ops.push(HOp::JsRestart); ops.push(HOp::JsLint(q.clone())); }
            _ => { ops.push(HOp::Add(pool[2].clone())); ops.push(HOp::Restart); ops.push(HOp::Lint(0, q.clone())); }
        }
        let init = if k % 4 == 3 { Some(format!("{}\r\n{}", pool[1], pool[2])) } else { None };
        hs.push(Hist { init, british: rng.chance(1, 3), ops });
    }
    hs
}

// ---------------------------------------------------------------------------------------------

fn merge(sess: &mut Session, o: Outcome, origin: &str) {
    sess.count(&format!("origin:{}", origin));
    for (op, imp) in o.k {
        sess.k(&op, &imp);
        sess.nontrivial(&op);
    }
    for _ in 0..o.o_cases {
        sess.o();
    }
    for c in o.counts {
        sess.count(&c);
    }
    for (m, h) in o.monitors {
        sess.monitor(m, h);
    }
    for (c, d, i) in o.fails {
        sess.fail(&c, d, i, None);
    }
}

pub fn run(ctx: &Ctx) {
    if let Ok(dir) = std::env::var("HV_C07_SAVE_PROBE") {
        save_probe_child(Path::new(&dir));
        return;
    }
    let mut sess = Session::new(ctx);
    let mut rng = Rng::new(ctx.seed);
    let thorough = ctx.tier == Tier::Thorough;
    let root = std::env::temp_dir().join(format!("hv-c07-{}-{}", std::process::id(), ctx.seed));
    let _ = std::fs::remove_dir_all(&root);
    std::fs::create_dir_all(&root).unwrap();
    // HOME / XDG_* for the in-process language server (statistics file, default paths); before any thread exists
    let root = std::fs::canonicalize(&root).unwrap();
    // (w25) the cli-dict stream runs `cargo build`, which needs the real HOME (toolchain, registry)
    let home0 = std::env::var("HOME").ok();
    crate::lsclient::set_home(&root.join("home"));
    let dict = FstDictionary::curated();
    let all: Vec<Vec<char>> = {
        let mut v: Vec<Vec<char>> = dict.words_iter().map(|w| w.to_vec()).collect();
        v.sort();
        v
    };
    let mut by_key: HashMap<String, Vec<Vec<char>>> = HashMap::new();
    for w in &all {
        by_key.entry(lownorm(w)).or_default().push(w.clone());
    }
    let names: Vec<String> = URLS.iter().map(|u| file_dict_name(&Url::parse(u).unwrap()).unwrap().to_string_lossy().to_string()).collect();
    let name_id: Vec<usize> = names.iter().map(|n| names.iter().position(|m| m == n).unwrap()).collect();
    let env = Env { root: root.clone(), by_key, all, names, name_id };
    let rt = tokio::runtime::Builder::new_current_thread().enable_all().build().unwrap();

    if let Some(v) = replay_input(ctx) {
        if let Some(h) = Hist::from_json(&v) {
            let o = run_history(&env, &h, 0);
            sess.sample(json!({"history": v, "k": o.k.first().map(|(a, b)| json!({"op": trunc(a, 400), "impl": trunc(b, 400)}))}));
            merge(&mut sess, o, "replay");
        } else if v["stream"] == "other-lints" {
            other_lints_case(&mut sess, v["w"].as_str().unwrap_or(""), v["text"].as_str().unwrap_or(""));
        } else if v["stream"] == "server" {
            if let Some(sc) = SrvScenario::from_json(&v) {
                server_scenarios(&mut sess, &env, &rt, &root.join("srv"), &[sc], v.get("hand_edit").is_some());
            }
        } else if v["stream"] == "server-url" {
            if let Some(sc) = UrlScenario::from_json(&v) {
                server_url_scenarios(&mut sess, &env, &rt, &root.join("srvurl"), &[sc]);
            }
        } else if v["stream"] == "server-lang" {
            if let Some(sc) = LangScenario::from_json(&v) {
                server_lang_scenarios(&mut sess, &root.join("srvlang"), &[sc]);
            }
        } else if v["stream"] == "js-wide" {
            if let Some(c) = JsWide::from_json(&v) {
                js_wide_stream(&mut sess, &[c]);
            }
        } else if v["stream"] == "cli-dict" {
            // the words are drawn again from the seed: the whole (small) stream is re-run
            let mut crng = Rng::new(ctx.seed.wrapping_mul(0x9E3779B97F4A7C15) ^ 0xC11D);
            cli_dict_stream(&mut sess, &rt, &root.join("clidict"), &mut crng, if thorough { 10 } else { 2 }, &home0);
        } else if v["stream"] == "fingerprint" {
            let l = |x: &Value| x.as_array().map(|a| a.iter().filter_map(|w| w.as_str().map(|s| s.to_string())).collect::<Vec<_>>()).unwrap_or_default();
            for _ in 0..64 {
                if fingerprint_case(&mut sess, (&l(&v["a"]["user"]), &l(&v["a"]["file"])), (&l(&v["b"]["user"]), &l(&v["b"]["file"])), "replay") {
                    break;
                }
            }
        }
        sess.nontrivial("replay-a");
        sess.nontrivial("replay-b");
        let _ = std::fs::remove_dir_all(&root);
        sess.finish("replay of one recorded input", false, json!({}));
        return;
    }

    // monitor: `file_dict_name` separates the two ordinary documents (its non-injectivity on paths
    // containing `%` is the recorded finding, exercised by URLs 2 and 3)
    sess.monitor("file_dict_name gives doc0.md and doc1.md different names", env.names[0] != env.names[1]);
    sess.add("file_dict_name collisions among the scenario URLs", (env.names[2] == env.names[3]) as u64);

    // ---- 1. corpus ---------------------------------------------------------------------------------
    let mut next_id = 1usize;
    let corpus = corpus_histories();
    for (name, h) in &corpus {
        let o = run_history(&env, h, next_id);
        next_id += 1;
        if sess.samples.len() < 3 {
            sess.sample(json!({"corpus": name, "history": h.to_json(), "impl": o.k.first().map(|(_, b)| trunc(b, 300))}));
        }
        merge(&mut sess, o, "corpus");
    }
    // ---- 1b. the same commands through the real language server ---------------------------------------
    {
        let mut scs = corpus_srv();
        let n = if thorough { 150 } else { 34 };
        for _ in 0..n {
            scs.push(gen_srv_scenario(&mut rng));
        }
        server_scenarios(&mut sess, &env, &rt, &root.join("srv"), &scs, true);
    }
    // ---- 1b'. documents whose URL is not an ordinary file: URL (untitled:, untitled:/path, opaque) ----------
    {
        let mut scs = corpus_url();
        let n = if thorough { 60 } else { 9 };
        // a generator of its own (derived from the seed), so that the older streams keep their sequences
        let mut urng = Rng::new(ctx.seed.wrapping_mul(0x9E3779B97F4A7C15) ^ 0x5706);
        for _ in 0..n {
            scs.push(gen_url_scenario(&mut urng));
        }
        server_url_scenarios(&mut sess, &env, &rt, &root.join("srvurl"), &scs);
    }
    // ---- 1d. w25: every front-end / configuration / handler after the adds (stream server-lang) ------------
    {
        let mut lrng = Rng::new(ctx.seed.wrapping_mul(0x9E3779B97F4A7C15) ^ 0x1A96);
        let mut scs = corpus_lang();
        // every language once per run (configuration variant rotating with the seed), thorough: three times
        for rep in 0..if thorough { 3 } else { 1 } {
            for li in 0..LANGS.len() {
                let cfg = (li + rep + ctx.seed as usize) % LANG_CFGS;
                scs.push(gen_lang_scenario(&mut lrng, li, cfg));
            }
        }
        server_lang_scenarios(&mut sess, &root.join("srvlang"), &scs);
    }
    // ---- 1e. w25: harper_wasm::Linter, dialects x languages x configurations (stream js-wide) --------------
    {
        let mut jrng = Rng::new(ctx.seed.wrapping_mul(0x9E3779B97F4A7C15) ^ 0x15A1);
        let mut cases = vec![
            // the configuration must survive the rebuild that import_words triggers
            JsWide { dialect: 0, markdown: false, cfg: Some("{\"RepeatedWords\": false}".into()), batches: vec![vec!["zqxvk".into()], vec!["qxzvk".into(), "zqxvk".into()]], extra: "jqvzk".into() },
            JsWide { dialect: 1, markdown: true, cfg: Some("{\"AnA\": false, \"SpellCheck\": true}".into()), batches: vec![vec!["ｚｑｘｖ".into(), "𐐨𐐩𐐪𐐫".into()], vec!["zqxve\u{301}".into()]], extra: "jqvzk".into() },
        ];
        let n = if thorough { 96 } else { 16 };
        for i in 0..n {
            // all 4 dialects x 4 configurations within 16 cases; the language alternates
            cases.push(gen_js_wide(&mut jrng, i % 4, (i / 4) % 4, (i + i / 4 + ctx.seed as usize) % 2 == 0));
        }
        js_wide_stream(&mut sess, &cases);
    }
    // ---- 1f. w25: dictionaries on disk read by the real harper-cli (stream cli-dict) -----------------------
    {
        let mut crng = Rng::new(ctx.seed.wrapping_mul(0x9E3779B97F4A7C15) ^ 0xC11D);
        cli_dict_stream(&mut sess, &rt, &root.join("clidict"), &mut crng, if thorough { 10 } else { 2 }, &home0);
    }
    // ---- 1c. the rebuild decision: real MergedDictionary equality ---------------------------------------
    fingerprint_streams(&mut sess, &mut rng, thorough);

    // ---- 2a. exhaustive: load_dict on every small file ----------------------------------------------
    {
        let tab = ['a', 'A', '\n', '\r', ' ', 'é'].iter().map(|c| tab_row(*c)).collect::<Vec<_>>().join(" ; ");
        let p = root.join("small.txt");
        let mut files: Vec<Vec<u8>> = vec![];
        let alpha5 = ['a', 'A', '\n', '\r', ' '];
        let maxlen = if thorough { 6 } else { 5 };
        for len in 0..=maxlen {
            for code in 0..5usize.pow(len as u32) {
                let mut c = code;
                let s: String = (0..len).map(|_| { let x = alpha5[c % 5]; c /= 5; x }).collect();
                files.push(s.into_bytes());
            }
        }
        // every byte prefix of every string of ≤3 characters over the alphabet with `é` (torn files)
        let alpha6 = ['a', 'A', '\n', '\r', ' ', 'é'];
        for len in 1..=3usize {
            for code in 0..6usize.pow(len as u32) {
                let mut c = code;
                let s: String = (0..len).map(|_| { let x = alpha6[c % 6]; c /= 6; x }).collect();
                if s.contains('é') {
                    let b = s.into_bytes();
                    for cut in 1..=b.len() {
                        files.push(b[..cut].to_vec());
                    }
                }
            }
        }
        for f in files {
            std::fs::write(&p, &f).unwrap();
            let op = format!("dload {} | {}", tab, disk_tokens(Some(&f)));
            let imp = format!("ok {}", reload_tokens(&rt, &p)).trim_end().to_string();
            sess.k(&op, &imp);
            sess.count("exhaustive:load_dict-small-file");
            if f.contains(&b'\n') || f.contains(&b'\r') {
                sess.nontrivial(&op);
            }
        }
    }
    // ---- 2b. exhaustive: the BufWriter rule for small capacities --------------------------------------
    {
        let piece = |n: usize| -> String { if n % 2 == 1 { format!("{}a", "é".repeat(n / 2)) } else { "é".repeat(n / 2) } };
        let maxp = if thorough { 5 } else { 4 };
        for cap in 1..=4usize {
            for len in 0..=maxp {
                for code in 0..6usize.pow(len as u32) {
                    let mut c = code;
                    let ps: Vec<String> = (0..len).map(|_| { let x = piece(c % 6); c /= 6; x }).collect();
                    let sizes = bufwriter_chunks(&rt, cap, &ps);
                    let op = format!("dchunk {} {}", cap, list_tokens_s(&ps)).trim_end().to_string();
                    let imp = format!("ok {}", sizes.iter().map(|n| n.to_string()).collect::<Vec<_>>().join(" ")).trim_end().to_string();
                    sess.k(&op, &imp);
                    sess.count("exhaustive:bufwriter-chunking");
                    if sizes.len() > 1 {
                        sess.nontrivial(&op);
                    }
                }
            }
        }
    }
    // ---- 2c. exhaustive: all histories of ≤4 (thorough ≤5) ops over a 5-op alphabet, and every crash
    //          point of one more add on every distinct file they end with --------------------------------
    {
        let q: Vec<String> = ["zqxv", "Zqxv", "qxzv"].iter().map(|s| s.to_string()).collect();
        let alphabet = [HOp::Add("zqxv".into()), HOp::Add("Zqxv".into()), HOp::Add("qxzv".into()), HOp::Restart, HOp::Lint(0, q.clone())];
        let maxlen = if thorough { 5 } else { 4 };
        let mut hs = vec![];
        for len in 0..=maxlen {
            for code in 0..5usize.pow(len as u32) {
                let mut c = code;
                let mut ops: Vec<HOp> = (0..len).map(|_| { let x = alphabet[c % 5].clone(); c /= 5; x }).collect();
                ops.push(HOp::Lint(1, q.clone()));
                hs.push(Hist { init: None, british: false, ops });
            }
        }
        let base = next_id;
        next_id += hs.len();
        let outs = par_map(hs.len(), 12, |i| run_history(&env, &hs[i], base + i));
        for o in outs {
            merge(&mut sess, o, "exhaustive-history");
        }
        // crash points: every byte offset (and "before the open") of `add vkqzé` on each distinct end file
        let mut ends: BTreeSet<Option<String>> = BTreeSet::new();
        ends.insert(None);
        for set in [vec![], vec!["zqxv"], vec!["Zqxv"], vec!["qxzv"], vec!["zqxv", "qxzv"], vec!["qxzv", "Zqxv"]] {
            ends.insert(Some(set.iter().map(|w| format!("{}\n", w)).collect()));
            if set.len() == 2 {
                ends.insert(Some(format!("{}\n{}\n", set[1], set[0])));
            }
        }
        let mut crash_h = vec![];
        for init in &ends {
            let len = init.as_ref().map(|s| s.len()).unwrap_or(0) + "vkqzé\n".len();
            crash_h.push(Hist { init: init.clone(), british: false, ops: vec![HOp::Crash("vkqzé".into(), At::Pre), HOp::Lint(0, q.clone())] });
            for b in 0..=len {
                crash_h.push(Hist { init: init.clone(), british: false, ops: vec![HOp::Crash("vkqzé".into(), At::Byte(b)), HOp::Lint(0, vec!["zqxv".into(), "Zqxv".into(), "qxzv".into(), "vkqzé".into()])] });
            }
        }
        let base = next_id;
        next_id += crash_h.len();
        let outs = par_map(crash_h.len(), 12, |i| run_history(&env, &crash_h[i], base + i));
        for o in outs {
            merge(&mut sess, o, "exhaustive-crash-point");
        }
    }
    // ---- 3. random histories --------------------------------------------------------------------------
    {
        let n = if thorough { 6000 } else { 900 };
        let hs: Vec<Hist> = (0..n).map(|_| gen_history(&mut rng)).collect();
        let base = next_id;
        next_id += hs.len();
        let outs = par_map(hs.len(), 12, |i| run_history(&env, &hs[i], base + i));
        for (i, o) in outs.into_iter().enumerate() {
            if i < 2 {
                sess.sample(json!({"random-history": hs[i].to_json(), "impl": o.k.first().map(|(_, b)| trunc(b, 300))}));
            }
            merge(&mut sess, o, "random-history");
        }
    }
    // ---- 3b. w25: the direct path over wide word families (fullwidth, astral, combining, scripts, 300 chars) --
    {
        let mut wrng = Rng::new(ctx.seed.wrapping_mul(0x9E3779B97F4A7C15) ^ 0x71DE);
        let hs = wide_histories(&mut wrng, if thorough { 600 } else { 90 });
        let base = next_id;
        next_id += hs.len();
        let outs = par_map(hs.len(), 12, |i| run_history(&env, &hs[i], base + i));
        for (h, mut o) in hs.iter().zip(outs) {
            reclass_long_word_panic(&mut o, h);
            merge(&mut sess, o, "wide-word-history");
            if let Some(HOp::Lint(_, q)) = h.ops.first() {
                for w in q {
                    let one = one_token(&Document::new(&template(w), &PlainEnglish, &dict), w.chars().count());
                    sess.count(&format!("wide:family {}: {}", wide_family(w), if one { "one Word token (judged)" } else { "not one Word token (K only)" }));
                }
            }
        }
        // the witness of the recorded finding, every run: add a 256-letter word, check another one
        let (wa, wb) = (format!("zq{}", "a".repeat(254)), format!("zq{}", "b".repeat(254)));
        let h = Hist { init: None, british: false, ops: vec![HOp::Add(wa), HOp::Lint(0, vec![wb])] };
        let mut o = run_history(&env, &h, next_id);
        next_id += 1;
        reclass_long_word_panic(&mut o, &h);
        sess.add("wide:long-user-word witness panicked in edit_distance.rs", o.fails.iter().filter(|f| f.0 == LONG_WORD_PANIC).count() as u64);
        merge(&mut sess, o, "wide-word-history");
    }
    // ---- 4. large dictionaries through the real save_dict under strace ---------------------------------
    {
        let sizes: Vec<usize> = if thorough { vec![0, 1, 700, 1000, 2500, 6000] } else { vec![0, 3, 1000, 2300] };
        let mut strace_ok = 0u64;
        for (si, n) in sizes.iter().enumerate() {
            let mut words: Vec<String> = (0..*n).map(|i| format!("zq{}{}", i, "x".repeat(rng.below(9)))).collect();
            if *n >= 1000 {
                words.push("y".repeat(9000)); // a piece larger than the BufWriter goes out directly
                words.push("é".repeat(4100));
            }
            let dir = root.join(format!("strace{}", si));
            match strace_save(&dir, &words) {
                None => sess.count("strace:unavailable-or-unparsable"),
                Some(s) => {
                    strace_ok += 1;
                    let op = format!("dsave {}", list_tokens_s(&s.order)).trim_end().to_string();
                    let imp = format!("ok {} C {}", format!("F {}", chars_field(&cs(std::str::from_utf8(&s.saved).unwrap_or("?")))).trim_end(), s.writes.iter().map(|n| n.to_string()).collect::<Vec<_>>().join(" ")).trim_end().to_string();
                    sess.k(&op, &imp);
                    sess.nontrivial(&op);
                    sess.monitor("save_dict opens the file with O_TRUNC (File::create)", s.open_flags.contains("O_TRUNC") && s.open_flags.contains("O_CREAT") && s.open_flags.contains("O_WRONLY"));
                    sess.monitor("save_dict issues no fsync / rename / ftruncate / positional write on the dictionary file", s.other_syscalls.is_empty());
                    sess.add("strace:write-syscalls", s.writes.len() as u64);
                    // sampled crash prefixes of the large file through the real load_dict
                    let p = dir.join("prefix.txt");
                    let mut chars: BTreeSet<char> = BTreeSet::new();
                    chars.extend(std::str::from_utf8(&s.saved).unwrap_or("").chars());
                    let tab = chars.iter().map(|c| tab_row(*c)).collect::<Vec<_>>().join(" ; ");
                    let mut cuts: Vec<usize> = (0..if thorough { 12 } else { 5 }).map(|_| rng.below(s.saved.len() + 1)).collect();
                    let mut acc = 0;
                    for w in s.writes.iter().take(2) {
                        acc += w;
                        cuts.push(acc.min(s.saved.len()));
                    }
                    if *n > 1500 {
                        cuts.clear(); // the K line would be a megabyte; the chunk sizes above are the point
                    }
                    for cut in cuts {
                        std::fs::write(&p, &s.saved[..cut]).unwrap();
                        let op = format!("dload {} | {}", tab, disk_tokens(Some(&s.saved[..cut])));
                        let imp = format!("ok {}", reload_tokens(&rt, &p)).trim_end().to_string();
                        sess.k(&op, &imp);
                        sess.count("large-file:crash-prefix-reloaded");
                    }
                }
            }
            let _ = std::fs::remove_dir_all(&dir);
        }
        sess.add("strace:saves-traced", strace_ok);
        // the same shapes through the in-process mimic (always available)
        for n in [0usize, 1, 909, 910, 911, 2000] {
            let mut pieces = vec![];
            for i in 0..n {
                pieces.push(format!("zq{:06}", i));
                pieces.push("\n".to_string());
            }
            let sizes = bufwriter_chunks(&rt, 8192, &pieces);
            let words: Vec<String> = (0..n).map(|i| format!("zq{:06}", i)).collect();
            let op = format!("dsave {}", list_tokens_s(&words)).trim_end().to_string();
            let file: String = words.iter().map(|w| format!("{}\n", w)).collect();
            let imp = format!("ok {} C {}", format!("F {}", chars_field(&cs(&file))).trim_end(), sizes.iter().map(|n| n.to_string()).collect::<Vec<_>>().join(" ")).trim_end().to_string();
            sess.k(&op, &imp);
            sess.count("bufwriter-8192:mimicked-save");
        }
    }
    // ---- 5. all other lints are unchanged by an add -----------------------------------------------------
    {
        // witnesses of the two recorded rules that read the dictionary / the words' metadata
        other_lints_case(&mut sess, "xkKx", "xkKx Corrects `hone in on` to `home in on`.");
        other_lints_case(&mut sess, "wqxz", "Each morning, she awakens to find the date unchanged. wqxz At first, confusion and frustration cloud her thoughts, but soon she notices something peculiar.");
        let sents = crate::corpus::sentences();
        let n = if thorough { 1500 } else { 260 };
        for i in 0..n {
            let s = &sents[rng.below(sents.len())];
            let mut w = gen_word(&mut rng, false);
            if FOREIGN_DIALECT.contains(&w.as_str()) || LISTED.contains(&w.as_str()) {
                w = BASE[i % BASE.len()].to_string();
            }
            // put the word at a word boundary of a rule-test sentence, sometimes twice / capitalised
            let words: Vec<&str> = s.split(' ').collect();
            let at = rng.below(words.len() + 1);
            let mut parts: Vec<String> = words.iter().map(|x| x.to_string()).collect();
            parts.insert(at, w.clone());
            if rng.chance(1, 4) {
                let mut c = cs(&w);
                c[0] = c[0].to_uppercase().next().unwrap();
                parts.push(st(&c));
            }
            other_lints_case(&mut sess, &w, &parts.join(" "));
        }
    }
    let _ = std::fs::remove_dir_all(&root);
    let extra = json!({
        "exhaustive_scope": "load_dict on all files of ≤5 (thorough ≤6) characters over {a A LF CR space} and every byte prefix of all strings of ≤3 characters over {a A LF CR space é}; tokio BufWriter chunking for capacities 1–4 × ≤4 (thorough ≤5) pieces of 0–5 bytes; all histories of ≤4 (thorough ≤5) ops over {add zqxv, add Zqxv, add qxzv, restart, lint} + a final lint in another document; every byte offset (and before-open) of the save of one more add on 9 distinct dictionary files",
        "urls": URLS, "file_dict_names": env.names,
        "server_url_kinds": "server_url_scenarios: 9 corpus + 9 (thorough 60) random scenarios of 1–3 documents with URLs file:///p, untitled:Untitled-n, untitled:/p (same path slot as a file: document or another), zqverif:/p, zqverif:opaque / zqverif://host/p / file://host/p; 1–5 HarperAddToFileDict / HarperAddToUserDict commands taken from the server's own code actions; after every command every document is re-checked (didChange); K ops addfk / lintk inside the dio line",
        "server_path": "server_scenarios: HarperAddToUserDict / HarperAddToFileDict through the in-process tower_lsp server (lsclient.rs): last publication vs a fresh DocumentState under the dictionaries on disk, other document, restart",
    });
    sess.finish(
        "K: histories of add / addFile / restart / crash@byte / lint (+ JS import / lint / export-restart) run against the real load_dict, save_dict, append_word, MergedDictionary (curated+user+file) and SpellCheck in a temp dir, and against the Lean state machine on one `dio` line each: per op the file contents, what load_dict reloads, and the accept bit of every query word that is one Word token in `We saw _ today.`; the hash-table order of words_iter is handed to the model, which refuses it unless it is a permutation of its own dictionary. Crash = the file the real save_dict wrote, truncated by hand at the byte offset, then re-read by the real load_dict. Also: load_dict on arbitrary small files incl. torn UTF-8 (dload), the BufWriter chunking rule (dchunk), large dictionaries saved by the real save_dict in a child process under strace — sizes of the write syscalls, O_TRUNC, no fsync/rename — (dsave). O (real code only): after `add w` the word is not reported in the same and in another document, at once and at every later lint incl. after restarts; after every op the user dictionary file reloads (real load_dict) to exactly the words added so far (a crash before the open or after the last write may lose only the word being added); a file-dictionary word is accepted in its own document and changes no verdict in the three other documents; JS: imported words are accepted by Linter::lint at once and later, export_words returns them, a new Linter importing the export accepts them; all non-spelling lints (full curated LintGroup) of rule-test sentences containing the word are identical before and after the add, and the only spelling lints that disappear are on the word itself. URL kinds (server-url stream, real Backend): HarperAddToFileDict on a document whose URL has no path writes no file anywhere; the word of every add command is accepted at the next check of every document that reads the dictionary it was added to — judged as the property demands also for untitled: documents, where it fails (two recorded classes); a file-dictionary word stays reported in documents of other paths; every dictionary file reloads to exactly the words added to it. Words: lower-case nonsense, Capitalised / UPPER / mixed case, case variants of each other, ' and ’ inside, non-ASCII (é ž ß ï ö İ É Ž Ø), words of another dialect (colour …), listed words, and (K only, never judged) words no token can be: trailing space, CR, embedded LF, empty, blank. Non-trivial = distinct K lines of histories, files containing a line break, multi-write saves.",
        true,
        extra,
    );
}
