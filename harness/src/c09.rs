//! C09 — the server's last word on a document reflects the latest text.
//!
//! The REAL `harper-ls` `Backend` is driven in-process through `lsclient` by scripted client
//! histories. The client owns the schedule: every document-touching handler first awaits a
//! `workspace/configuration` request, and the script decides when (and in which order) those
//! requests are answered; after every client action the harness waits for the server to become idle
//! (`LsSession::settle`), so a history is a deterministic list of client actions.
//!
//! K: one line per history. `ops.txt`: the action list (+ the observed HashMap iteration order of
//! each `didChangeConfiguration` handler, which is the implementation's free choice). `impl.out`:
//! every `publishDiagnostics` per URI in arrival order, each DECODED into "which text version,
//! which configuration version (severity / linter / parser facets), which dictionary words, ident
//! dictionary merged or not, ignore applied or not" it was computed from, plus the final contents of
//! the dictionary files. The decoding is checked: the decoded facets are turned back into
//! diagnostics by an independent pipeline (`fresh_diags`: new `LintGroup`, new dictionary, new
//! `Document`) and must equal the published JSON exactly, otherwise the publication is `?`.
//! The Lean model (`Harper.Model.Server`, op `srv`) predicts the same line from the action list.
//! (w24) A history executed one handler at a time (every message sent to an idle server, its
//! configuration requests answered at once, oldest first, no silent configuration change — the shape
//! of `Harper.Server.seqActs`) gives a SECOND K case from the same run: op `srvseq` carries the
//! history without the answers; the model runs `runMacro` on its own schedule `seqActs` AND `seqRun`
//! on the op list and prints both (+ `LatestAt` per URI); the implementation line carries the real
//! server's publications (+ the verdict of O per URI) on both sides. So a disagreement between the
//! two schedulers inside the model (`C09.macro_is_seqRun` says there is none), or of either with the
//! real server, is a K disagreement.
//!
//! O: after the history has quiesced, for every URI the client has open the LAST publication must
//! equal `fresh_diags` of the newest text the client sent under the client's current configuration
//! and the dictionary files as they are on disk; closed / deleted URIs must have an empty (or no)
//! last publication. Failures are classified by the matchers of `known_findings.json`
//! (`c09-overlapping-updates`, `c09-reread-from-disk`, `c09-user-dict-other-docs`,
//! `c09-ident-dict-dropped`); anything else is `c09-stale-publication` — a violation.
use crate::common::*;
use crate::config::Config;
use crate::diagnostics::lints_to_diagnostics;
use crate::dictionary_io::file_dict_name;
use crate::lsclient::*;
use harper_comments::CommentParser;
use harper_core::linting::{Lint, LintGroup, Linter};
use harper_core::parsers::{CollapseIdentifiers, Markdown, MarkdownOptions, Parser, PlainEnglish};
use harper_core::{Dictionary, Document, FstDictionary, IgnoredLints, MergedDictionary, MutableDictionary, WordMetadata};
use serde_json::{Value, json};
use std::collections::{BTreeMap, BTreeSet, HashMap, VecDeque};
use std::path::{Path, PathBuf};
use std::sync::{Arc, Mutex};

// ------------------------------------------------------------------------------------------
// vocabulary: every text contains every probe word, at the same column in every version
// ------------------------------------------------------------------------------------------

pub const USER_POOL: [&str; 2] = ["qwertuser", "plokmfirst"]; // word ids 1, 2
pub const FILE_POOL: [&str; 2] = ["vbnmfile", "ghjkfsecond"]; // word ids 3, 4
const IGN: &str = "Zxcvignore";
const IDENT: &str = "zqident";
const TITLE: &str = "wtitleword";
const SEV: [&str; 4] = ["hint", "information", "warning", "error"]; // cfg version k ↦ severity (LSP 4-k)

#[derive(Clone, Copy, PartialEq, Eq, Hash, Debug, PartialOrd, Ord)]
pub enum Lang {
    Plain,
    Markdown,
    Rust,
    Unknown,
}

impl Lang {
    fn id(self) -> &'static str {
        match self {
            Lang::Plain => "plaintext",
            Lang::Markdown => "markdown",
            Lang::Rust => "rust",
            Lang::Unknown => "klingon",
        }
    }
    fn ext(self) -> &'static str {
        match self {
            Lang::Plain => "txt",
            Lang::Markdown => "md",
            Lang::Rust => "rs",
            Lang::Unknown => "kl",
        }
    }
    fn code(self) -> &'static str {
        match self {
            Lang::Plain => "p",
            Lang::Markdown => "m",
            Lang::Rust => "t",
            Lang::Unknown => "x",
        }
    }
    fn from_code(c: &str) -> Option<Lang> {
        Some(match c {
            "p" => Lang::Plain,
            "m" => Lang::Markdown,
            "t" => Lang::Rust,
            "x" => Lang::Unknown,
            _ => return None,
        })
    }
}

fn marker(uri: usize, ver: usize) -> String {
    let l = |n: usize| (b'a' + (n % 26) as u8) as char;
    // long enough to be more than three edits away from every dictionary word: no suggestions, so
    // the diagnostic's message quotes the marker itself and every version has distinct diagnostics
    format!("zqvxjkwpfh{}{}{}", l(uri), l(ver / 26), l(ver))
}

fn sentence(uri: usize, ver: usize) -> String {
    format!(
        "{} sits here. The {} word and {}, {}, {}, {}, {} are is is here with an test and [{}](https://example.com) too.",
        IGN,
        marker(uri, ver),
        USER_POOL[0],
        USER_POOL[1],
        FILE_POOL[0],
        FILE_POOL[1],
        IDENT,
        TITLE
    )
}

/// the text of version `ver` of URI `uri`; `idents` (Rust only): 1 = `fn zqident`, 2 = that plus `fn zqother`
fn text_of(lang: Lang, uri: usize, ver: usize, idents: usize) -> String {
    match lang {
        Lang::Rust => {
            let mut s = format!("// {}\nfn {}() {{}}\n", sentence(uri, ver), IDENT);
            if idents >= 2 {
                s.push_str("fn zqother() {}\n");
            }
            s
        }
        _ => sentence(uri, ver),
    }
}

/// (line, start col, end col) of `word` on line 0 of a text of `lang` (all ASCII: UTF-16 col = char col)
fn slot(lang: Lang, word: &str) -> (u64, u64, u64) {
    let t = text_of(lang, 0, 0, 1);
    let line0 = t.lines().next().unwrap();
    let c = line0.find(word).unwrap() as u64;
    (0, c, c + word.len() as u64)
}

fn marker_slot(lang: Lang) -> (u64, u64, u64) {
    slot(lang, &marker(0, 0))
}

// ------------------------------------------------------------------------------------------
// facets and the independent "fresh lint" pipeline
// ------------------------------------------------------------------------------------------

#[derive(Clone, Copy, PartialEq, Eq, Hash, Debug)]
pub struct Facets {
    sev: u8,   // configuration version read for the severity (at publish time)
    lk: u8,    // configuration version the LintGroup was built with (linters)
    pk: u8,    // IgnoreLinkTitle bit the document was parsed with
    user: u8,  // bit i: USER_POOL[i] accepted
    file: u8,  // bit i: FILE_POOL[i] accepted
    ident: bool, // identifier dictionary merged (Rust)
    ign: bool, // the IGN spelling lint is ignored
}

fn linters_json(k: u8) -> Value {
    json!({"RepeatedWords": k & 1 == 0, "AnA": k & 2 == 0})
}
fn ilt_of(k: u8) -> bool {
    k & 2 != 0
}

/// the configuration JSON of client configuration version `k` for the session directory `sdir`
fn cfg_json(k: u8, sdir: &Path) -> Value {
    json!({"harper-ls": {
        "userDictPath": sdir.join("dictionary.txt").to_string_lossy(),
        "fileDictPath": sdir.join("file_dictionaries").to_string_lossy(),
        "diagnosticSeverity": SEV[k as usize],
        "linters": linters_json(k),
        "markdown": {"IgnoreLinkTitle": ilt_of(k)},
    }})
}

fn mk_dict(f: &Facets, lang: Lang, source: &[char]) -> Arc<MergedDictionary> {
    let mut dict = MergedDictionary::new();
    dict.add_dictionary(FstDictionary::curated());
    let mut user = MutableDictionary::new();
    for (i, w) in USER_POOL.iter().enumerate() {
        if f.user >> i & 1 == 1 {
            user.append_word_str(w, WordMetadata::default());
        }
    }
    dict.add_dictionary(Arc::new(user));
    let mut file = MutableDictionary::new();
    for (i, w) in FILE_POOL.iter().enumerate() {
        if f.file >> i & 1 == 1 {
            file.append_word_str(w, WordMetadata::default());
        }
    }
    dict.add_dictionary(Arc::new(file));
    if f.ident && lang == Lang::Rust {
        let ts = CommentParser::new_from_language_id("rust", MarkdownOptions::default()).unwrap();
        if let Some(id) = ts.create_ident_dict(source) {
            dict.add_dictionary(Arc::new(id));
        }
    }
    Arc::new(dict)
}

fn lints_of(lang: Lang, text: &str, f: &Facets) -> (Document, Vec<Lint>) {
    let source: Vec<char> = text.chars().collect();
    let dict = mk_dict(f, lang, &source);
    let lcfg = Config::from_lsp_config(json!({"harper-ls": {"linters": linters_json(f.lk)}})).unwrap();
    let mut md = MarkdownOptions::default();
    md.ignore_link_title = f.pk == 1;
    let parser: Box<dyn Parser> = match lang {
        Lang::Rust => {
            let ts = CommentParser::new_from_language_id("rust", md).unwrap();
            Box::new(CollapseIdentifiers::new(Box::new(ts), Box::new(dict.clone())))
        }
        Lang::Markdown => Box::new(Markdown::new(md)),
        _ => Box::new(PlainEnglish),
    };
    let doc = Document::new(text, &parser, &dict);
    let mut linter = LintGroup::new_curated(dict.clone(), lcfg.dialect).with_lint_config(lcfg.lint_config.clone());
    linter.config.fill_with_curated();
    let lints = linter.lint(&doc);
    (doc, lints)
}

fn ign_lint(lang: Lang, doc: &Document, lints: &[Lint]) -> Option<Lint> {
    let (_, s, e) = slot(lang, IGN);
    lints.iter().find(|l| l.span.start as u64 == s && l.span.end as u64 == e).cloned()
}

static FRESH: once_cell::sync::Lazy<Mutex<HashMap<(Lang, String, Facets), Arc<Value>>>> =
    once_cell::sync::Lazy::new(|| Mutex::new(HashMap::new()));
static FRESH_COMPUTED: std::sync::atomic::AtomicU64 = std::sync::atomic::AtomicU64::new(0);
/// publications the decoder's long-lived LintGroups could not reproduce but brand-new ones could
static WARM_MISSES: std::sync::atomic::AtomicU64 = std::sync::atomic::AtomicU64::new(0);

/// Diagnostics of `text` computed from scratch (new dictionary, new `Document`, new `LintGroup`)
/// under the given facets — the specification side of the oracle. Results are memoised (each memo
/// entry was itself computed by a brand-new `LintGroup`).
fn fresh_diags(lang: Lang, text: &str, f: &Facets) -> Arc<Value> {
    let key = (lang, text.to_string(), *f);
    if let Some(v) = FRESH.lock().unwrap().get(&key) {
        return v.clone();
    }
    FRESH_COMPUTED.fetch_add(1, std::sync::atomic::Ordering::Relaxed);
    let (doc, mut lints) = lints_of(lang, text, f);
    if f.ign {
        if let Some(l) = ign_lint(lang, &doc, &lints) {
            let mut ig = IgnoredLints::new();
            ig.ignore_lint(&l, &doc);
            ig.remove_ignored(&mut lints, &doc);
        }
    }
    let sev = Config::from_lsp_config(json!({"harper-ls": {"diagnosticSeverity": SEV[f.sev as usize]}})).unwrap().diagnostic_severity;
    let v = Arc::new(serde_json::to_value(lints_to_diagnostics(doc.get_full_content(), &lints, sev)).unwrap());
    FRESH.lock().unwrap().insert(key, v.clone());
    v
}

thread_local! {
    static WARM_GROUPS: std::cell::RefCell<HashMap<(Lang, u8, u8, bool, bool, u8), (Arc<MergedDictionary>, LintGroup)>> = std::cell::RefCell::new(HashMap::new());
}
static WARM: once_cell::sync::Lazy<Mutex<HashMap<(Lang, String, Facets), Arc<Value>>>> =
    once_cell::sync::Lazy::new(|| Mutex::new(HashMap::new()));

/// Same function as `fresh_diags`, computed with a long-lived `LintGroup` per (language,
/// dictionary, linter configuration) — used only to DECODE publications for K (every decoding is
/// verified by exact JSON equality, so a wrong answer here shows up as `?`, never silently). The
/// oracle O uses `fresh_diags`.
fn warm_diags(lang: Lang, text: &str, f: &Facets) -> Arc<Value> {
    let key = (lang, text.to_string(), *f);
    if let Some(v) = WARM.lock().unwrap().get(&key) {
        return v.clone();
    }
    if let Some(v) = FRESH.lock().unwrap().get(&key) {
        return v.clone();
    }
    let source: Vec<char> = text.chars().collect();
    let two_idents = text.contains("zqother");
    let gkey = (lang, f.user, f.file, f.ident, two_idents, f.lk);
    let v = WARM_GROUPS.with(|g| {
        let mut g = g.borrow_mut();
        let (dict, linter) = g.entry(gkey).or_insert_with(|| {
            let dict = mk_dict(f, lang, &source);
            let lcfg = Config::from_lsp_config(json!({"harper-ls": {"linters": linters_json(f.lk)}})).unwrap();
            let mut linter = LintGroup::new_curated(dict.clone(), lcfg.dialect).with_lint_config(lcfg.lint_config.clone());
            linter.config.fill_with_curated();
            (dict, linter)
        });
        let mut md = MarkdownOptions::default();
        md.ignore_link_title = f.pk == 1;
        let parser: Box<dyn Parser> = match lang {
            Lang::Rust => {
                let ts = CommentParser::new_from_language_id("rust", md).unwrap();
                Box::new(CollapseIdentifiers::new(Box::new(ts), Box::new(dict.clone())))
            }
            Lang::Markdown => Box::new(Markdown::new(md)),
            _ => Box::new(PlainEnglish),
        };
        let doc = Document::new(text, &parser, &*dict);
        let mut lints = linter.lint(&doc);
        if f.ign {
            if let Some(l) = ign_lint(lang, &doc, &lints) {
                let mut ig = IgnoredLints::new();
                ig.ignore_lint(&l, &doc);
                ig.remove_ignored(&mut lints, &doc);
            }
        }
        let sev = Config::from_lsp_config(json!({"harper-ls": {"diagnosticSeverity": SEV[f.sev as usize]}})).unwrap().diagnostic_severity;
        Arc::new(serde_json::to_value(lints_to_diagnostics(doc.get_full_content(), &lints, sev)).unwrap())
    });
    WARM.lock().unwrap().insert(key, v.clone());
    v
}

/// ranges of the lints that exist only while a rule is on: (RepeatedWords slot, AnA slot)
fn rule_slots(lang: Lang) -> ((u64, u64, u64), (u64, u64, u64)) {
    static SLOTS: once_cell::sync::Lazy<Mutex<HashMap<Lang, ((u64, u64, u64), (u64, u64, u64))>>> =
        once_cell::sync::Lazy::new(|| Mutex::new(HashMap::new()));
    if let Some(s) = SLOTS.lock().unwrap().get(&lang) {
        return *s;
    }
    let base = Facets { sev: 0, lk: 0, pk: 0, user: 0, file: 0, ident: false, ign: false };
    let t = text_of(lang, 0, 0, 1);
    let r0 = ranges(&fresh_diags(lang, &t, &base));
    let r1 = ranges(&fresh_diags(lang, &t, &Facets { lk: 1, ..base }));
    let r2 = ranges(&fresh_diags(lang, &t, &Facets { lk: 2, ..base }));
    let rw = r0.difference(&r1).next().cloned().unwrap_or((9, 9, 9));
    let ana = r0.difference(&r2).next().cloned().unwrap_or((9, 9, 9));
    SLOTS.lock().unwrap().insert(lang, (rw, ana));
    (rw, ana)
}

fn ranges(d: &Value) -> BTreeSet<(u64, u64, u64)> {
    d.as_array()
        .map(|a| {
            a.iter()
                .map(|x| {
                    (
                        x["range"]["start"]["line"].as_u64().unwrap_or(99),
                        x["range"]["start"]["character"].as_u64().unwrap_or(99),
                        x["range"]["end"]["character"].as_u64().unwrap_or(99),
                    )
                })
                .collect()
        })
        .unwrap_or_default()
}

/// A decoded publication.
#[derive(Clone, PartialEq, Eq, Debug)]
enum Dec {
    Empty,
    Diag { ver: usize, f: Facets },
    Unknown(String),
}

/// Decode one published `diagnostics` array of a document of `lang`; `cands` = (version, text) of
/// every text that ever existed for this URI (sent or on disk).
fn decode(lang: Lang, d: &Value, cands: &[(usize, String)]) -> Dec {
    let Some(arr) = d.as_array() else { return Dec::Unknown("not-an-array".into()) };
    if arr.is_empty() {
        return Dec::Empty;
    }
    if lang == Lang::Unknown {
        return Dec::Unknown("diagnostics-for-unsupported-language".into());
    }
    let sevs: BTreeSet<u64> = arr.iter().map(|x| x["severity"].as_u64().unwrap_or(0)).collect();
    if sevs.len() != 1 {
        return Dec::Unknown("mixed-severity".into());
    }
    let s = *sevs.iter().next().unwrap();
    if !(1..=4).contains(&s) {
        return Dec::Unknown("bad-severity".into());
    }
    let r = ranges(d);
    let (rw, ana) = rule_slots(lang);
    let flagged = |w: &str| r.contains(&slot(lang, w));
    let mut user = 0u8;
    for (i, w) in USER_POOL.iter().enumerate() {
        if !flagged(w) {
            user |= 1 << i;
        }
    }
    let mut file = 0u8;
    for (i, w) in FILE_POOL.iter().enumerate() {
        if !flagged(w) {
            file |= 1 << i;
        }
    }
    let f = Facets {
        sev: (4 - s) as u8,
        lk: (if r.contains(&rw) { 0 } else { 1 }) + (if r.contains(&ana) { 0 } else { 2 }),
        pk: if lang != Lang::Plain && !flagged(TITLE) { 1 } else { 0 },
        user,
        file,
        ident: !flagged(IDENT),
        ign: !flagged(IGN),
    };
    let mut hits: Vec<usize> = cands.iter().filter(|(_, text)| *warm_diags(lang, text, &f) == *d).map(|c| c.0).collect();
    if hits.is_empty() {
        // never let a long-lived LintGroup of the DECODER decide: retry with brand-new ones
        hits = cands.iter().filter(|(_, text)| *fresh_diags(lang, text, &f) == *d).map(|c| c.0).collect();
        if !hits.is_empty() {
            WARM_MISSES.fetch_add(1, std::sync::atomic::Ordering::Relaxed);
        }
    }
    if hits.len() == 1 {
        return Dec::Diag { ver: hits[0], f };
    }
    if hits.len() > 1 {
        return Dec::Unknown(format!("ambiguous: versions {:?} have the same diagnostics", hits));
    }
    Dec::Unknown(format!("no-candidate-text-reproduces-it({} diagnostics)", arr.len()))
}

fn show_words(bits: u8, base: usize) -> String {
    let s: String = (0..2).filter(|i| bits >> i & 1 == 1).map(|i| (base + i).to_string()).collect();
    if s.is_empty() { "-".into() } else { s }
}

fn show_dec(lang: Lang, d: &Dec) -> String {
    match d {
        Dec::Empty => "E".into(),
        Dec::Unknown(_) => "?".into(),
        Dec::Diag { ver, f } => format!(
            "t{}.s{}.l{}.p{}.u{}.f{}.n{}.g{}",
            ver,
            f.sev,
            // a dictionary of ≥2 words iterates in a per-instance random order (hashbrown + foldhash
            // per-hasher seed), so `doc_state.dict != dict` can be spuriously true and rebuild the
            // linter with the configuration just read: the linter facet is then not a function of the
            // history. Both sides mask it for such documents.
            if f.user.count_ones() >= 2 || f.file.count_ones() >= 2 { "*".to_string() } else { f.lk.to_string() },
            if lang == Lang::Plain { "-".to_string() } else { f.pk.to_string() },
            show_words(f.user, 1),
            show_words(f.file, 3),
            f.ident as u8,
            f.ign as u8
        ),
    }
}

// ------------------------------------------------------------------------------------------
// histories
// ------------------------------------------------------------------------------------------

#[derive(Clone, Debug, PartialEq)]
pub enum Act {
    /// the client writes version `ver` of `u` to disk (no message)
    Write { u: usize, ver: usize, idents: usize },
    Open { u: usize, ver: usize, idents: usize },
    Change { u: usize, ver: usize, idents: usize },
    Save { u: usize },
    Close { u: usize },
    /// the file is removed and `workspace/didChangeWatchedFiles` (deleted) is sent
    Delete { u: usize },
    /// the whole document directory is removed (its URI is a prefix of every document URI)
    DeleteDir,
    Cfg { k: u8 },
    /// the client's configuration becomes version `k` WITHOUT a notification: from now on its
    /// `workspace/configuration` answers carry `k` (a `Cfg { k }` may or may not follow)
    SetCfg { k: u8 },
    AddUser { w: usize, u: usize },
    AddFile { w: usize, u: usize },
    Ignore { u: usize },
    /// answer the `idx`-th oldest outstanding configuration request with the client's configuration
    Reply { idx: usize },
}

impl Act {
    fn is_msg(&self) -> bool {
        !matches!(self, Act::Write { .. } | Act::Reply { .. } | Act::SetCfg { .. })
    }
    fn show(&self, k_now: u8, order: Option<&Vec<usize>>) -> String {
        match self {
            Act::Write { u, ver, idents } => format!("W:{}:{}:{}", u, ver, idents),
            Act::Open { u, ver, idents } => format!("O:{}:{}:{}", u, ver, idents),
            Act::Change { u, ver, idents } => format!("C:{}:{}:{}", u, ver, idents),
            Act::Save { u } => format!("S:{}", u),
            Act::Close { u } => format!("L:{}", u),
            Act::Delete { u } => format!("D:{}", u),
            Act::DeleteDir => "DD".into(),
            Act::Cfg { k } => format!(
                "G:{}:{}",
                k,
                order.map(|o| o.iter().map(|x| x.to_string()).collect::<Vec<_>>().join(",")).unwrap_or_default()
            ),
            Act::SetCfg { k } => format!("K:{}", k),
            Act::AddUser { w, u } => format!("AU:{}:{}", w, u),
            Act::AddFile { w, u } => format!("AF:{}:{}", w, u),
            Act::Ignore { u } => format!("I:{}", u),
            Act::Reply { idx } => format!("R:{}:{}", idx, k_now),
        }
    }
    fn to_json(&self) -> Value {
        json!(self.show(0, None))
    }
    fn parse(s: &str) -> Option<Act> {
        let p: Vec<&str> = s.split(':').collect();
        let n = |i: usize| p.get(i).and_then(|x| x.parse::<usize>().ok());
        Some(match p[0] {
            "W" => Act::Write { u: n(1)?, ver: n(2)?, idents: n(3)? },
            "O" => Act::Open { u: n(1)?, ver: n(2)?, idents: n(3)? },
            "C" => Act::Change { u: n(1)?, ver: n(2)?, idents: n(3)? },
            "S" => Act::Save { u: n(1)? },
            "L" => Act::Close { u: n(1)? },
            "D" => Act::Delete { u: n(1)? },
            "DD" => Act::DeleteDir,
            "G" => Act::Cfg { k: n(1)? as u8 },
            "K" => Act::SetCfg { k: n(1)? as u8 },
            "AU" => Act::AddUser { w: n(1)?, u: n(2)? },
            "AF" => Act::AddFile { w: n(1)?, u: n(2)? },
            "I" => Act::Ignore { u: n(1)? },
            "R" => Act::Reply { idx: n(1)? },
            _ => return None,
        })
    }
}

/// How the next action is chosen.
enum Script {
    /// a fixed list (corpus, replay)
    Fixed(Vec<Act>),
    /// generated on line, seeded
    Random { rng: Rng, concurrent: bool, msgs: usize },
}

/// A handler as the client sees it (protocol-level mirror; used for the matchers and for the
/// observed key order of configuration handlers).
#[derive(Clone, Debug)]
struct HandlerRec {
    act: usize,          // index of the action that sent it
    touches: Vec<usize>, // URIs whose document state it may write (`usize::MAX` = all)
    reread: Vec<usize>,  // URIs it re-reads from disk
    is_cfg: bool,
    single_pull: bool,
    end: Option<usize>, // index of the action in whose window it completed
    order: Vec<usize>,  // (cfg) URIs published, in order
    /// (re-read handlers) URIs it re-reads whose file held another text than the client's buffer at
    /// some point of its lifetime
    stale_disk: Vec<usize>,
    /// (re-read handlers) URIs it re-reads whose file did not exist at some point of its lifetime
    /// although the client had the document open (the update is skipped altogether)
    missing_disk: Vec<usize>,
}

pub struct CaseOut {
    op: String,
    imp: String,
    input: Value,
    failures: Vec<(String, String)>,
    tags: Vec<String>,
    nontrivial: bool,
    attribution_ok: bool,
    timeout: Option<String>,
    n_actions: usize,
    n_pubs: usize,
    /// (w24) a second K case for histories executed ONE HANDLER AT A TIME (every message sent to an
    /// idle server, every configuration request answered — oldest first, with the client's
    /// configuration — before the next client action, no silent configuration change): the op
    /// `srvseq` (the history without the answers; the model schedules them itself, `seqActs`) and the
    /// implementation line = the real server's publications + the verdict of O per URI, on both
    /// sides of `| seq |` (the model prints `runMacro` on the left, `seqRun` on the right).
    seq: Option<(String, String)>,
}

struct World {
    langs: Vec<Lang>,
    buf: Vec<Option<(usize, usize)>>,  // (ver, idents) the client has open
    disk: Vec<Option<(usize, usize)>>, // (ver, idents) on disk
    ign: Vec<bool>,
    ck: u8,
    /// the client's configuration changed and no didChangeConfiguration has been SENT since
    silent: bool,
    next_ver: Vec<usize>,
    cands: Vec<Vec<(usize, String)>>, // every text that ever existed per URI
}

impl World {
    fn new_text(&mut self, u: usize, rng: &mut Rng) -> (usize, usize) {
        let ver = self.next_ver[u];
        self.next_ver[u] += 1;
        let idents = if self.langs[u] == Lang::Rust { if rng.chance(1, 4) { 2 } else { 1 } } else { 0 };
        (ver, idents)
    }
    fn note(&mut self, u: usize, ver: usize, idents: usize) {
        if !self.cands[u].iter().any(|c| c.0 == ver) {
            let t = text_of(self.langs[u], u, ver, idents);
            self.cands[u].push((ver, t));
        }
        if ver >= self.next_ver[u] {
            self.next_ver[u] = ver + 1;
        }
    }
}

fn doc_path(sdir: &Path, u: usize, lang: Lang) -> PathBuf {
    sdir.join("docs").join(format!("d{}.{}", u, lang.ext()))
}

/// One history against the real server.
pub static T_SERVER: std::sync::atomic::AtomicU64 = std::sync::atomic::AtomicU64::new(0);
pub static T_DECODE: std::sync::atomic::AtomicU64 = std::sync::atomic::AtomicU64::new(0);
pub static T_START: std::sync::atomic::AtomicU64 = std::sync::atomic::AtomicU64::new(0);

fn run_case(sdir: &Path, langs: &[Lang], mut script: Script, origin: &str, deadline_s: u64) -> CaseOut {
    let t_case = std::time::Instant::now();
    let _ = std::fs::remove_dir_all(sdir);
    std::fs::create_dir_all(sdir.join("docs")).unwrap();
    let n = langs.len();
    let uris: Vec<String> = (0..n).map(|u| file_url(&doc_path(sdir, u, langs[u]))).collect();
    let dir_uri = file_url(&sdir.join("docs"));
    let mut w = World {
        langs: langs.to_vec(),
        buf: vec![None; n],
        disk: vec![None; n],
        ign: vec![false; n],
        ck: 0,
        silent: false,
        next_ver: vec![0; n],
        cands: vec![vec![]; n],
    };
    let mut acts: Vec<Act> = vec![];
    let mut act_k: Vec<u8> = vec![]; // client configuration at the time of each action
    let mut handlers: Vec<HandlerRec> = vec![];
    let mut owners: Vec<usize> = vec![]; // handler index per pending request (parallel to ls.pending)
    let mut queued: VecDeque<usize> = VecDeque::new();
    let mut attribution_ok = true;
    let mut tags: BTreeSet<String> = BTreeSet::new();
    tags.insert(format!("origin:{}", origin));
    let mut timeout: Option<String> = None;
    let mut fixed_pos = 0usize;
    let mut sent_msgs = 0usize;
    // (w24) the history has the shape of `Harper.Server.seqActs`: see `CaseOut::seq`
    let mut seq_shape = true;

    let mut ls = match LsSession::start() {
        Ok(l) => l,
        Err(e) => {
            return CaseOut {
                op: "srv 0 |  |".into(),
                imp: "timeout".into(),
                input: json!({}),
                failures: vec![("server-start".into(), e.to_string())],
                tags: vec![],
                nontrivial: false,
                attribution_ok: true,
                timeout: Some(e.to_string()),
                n_actions: 0,
                n_pubs: 0,
                seq: None,
            };
        }
    };
    ls.max_wait = std::time::Duration::from_secs(deadline_s);
    T_START.fetch_add(t_case.elapsed().as_micros() as u64, std::sync::atomic::Ordering::Relaxed);
    let res: Result<(), LsError> = (|| {
        ls.initialize(&cfg_json(0, sdir))?;
        loop {
            // ---- choose the next action -------------------------------------------------
            let pending = ls.pending_count();
            let next: Option<Act> = match &mut script {
                Script::Fixed(list) => {
                    if fixed_pos < list.len() {
                        fixed_pos += 1;
                        Some(list[fixed_pos - 1].clone())
                    } else if pending > 0 {
                        Some(Act::Reply { idx: 0 })
                    } else {
                        None
                    }
                }
                Script::Random { rng, concurrent, msgs } => {
                    let cfg_in_flight = owners.iter().any(|h| handlers[*h].is_cfg);
                    if sent_msgs >= *msgs {
                        if pending > 0 { Some(Act::Reply { idx: if *concurrent { rng.below(pending) } else { 0 } }) } else { None }
                    } else if !*concurrent {
                        if pending > 0 { Some(Act::Reply { idx: 0 }) } else { Some(gen_msg(&mut w, rng, false, pending, cfg_in_flight, &owners, &handlers, &queued)) }
                    } else {
                        let must_reply = pending >= 4 && (cfg_in_flight || !queued.is_empty() || !rng.chance(1, 5));
                        if pending > 0 && (must_reply || rng.chance(2, 5)) {
                            Some(Act::Reply { idx: rng.below(pending) })
                        } else {
                            Some(gen_msg(&mut w, rng, true, pending, cfg_in_flight, &owners, &handlers, &queued))
                        }
                    }
                }
            };
            let Some(act) = next else { break };
            let ai = acts.len();
            // ---- client-side bookkeeping + the message ----------------------------------
            let before = ls.pending_count();
            let pubs0 = ls.all_publications().len();
            match &act {
                Act::Reply { idx } => seq_shape &= *idx == 0,
                Act::SetCfg { .. } => seq_shape = false,
                _ => seq_shape &= before == 0,
            }
            let mut new_handler: Option<HandlerRec> = None;
            let hr = |touches: Vec<usize>, reread: Vec<usize>, is_cfg: bool, single: bool| HandlerRec {
                act: ai,
                touches,
                reread,
                is_cfg,
                single_pull: single,
                end: None,
                order: vec![],
                stale_disk: vec![],
                missing_disk: vec![],
            };
            match &act {
                Act::Write { u, ver, idents } => {
                    w.note(*u, *ver, *idents);
                    std::fs::write(doc_path(sdir, *u, langs[*u]), text_of(langs[*u], *u, *ver, *idents)).unwrap();
                    w.disk[*u] = Some((*ver, *idents));
                }
                Act::Open { u, ver, idents } => {
                    w.note(*u, *ver, *idents);
                    w.buf[*u] = Some((*ver, *idents));
                    w.ign[*u] = false;
                    new_handler = Some(hr(vec![*u], vec![], false, true));
                    ls.notify("textDocument/didOpen", did_open(&uris[*u], langs[*u].id(), &text_of(langs[*u], *u, *ver, *idents)))?;
                }
                Act::Change { u, ver, idents } => {
                    w.note(*u, *ver, *idents);
                    if w.buf[*u].is_some() {
                        w.buf[*u] = Some((*ver, *idents));
                    }
                    new_handler = Some(hr(vec![*u], vec![], false, true));
                    // every third change notification carries TWO full-text events: an older text first,
                    // the new text last. LSP applies content changes in order, so the last one is the
                    // document (a server that takes the first one holds a stale text).
                    let mut msg = did_change(&uris[*u], ai as i64 + 2, &text_of(langs[*u], *u, *ver, *idents));
                    if ai % 3 == 1 {
                        let older = if *ver > 0 { *ver - 1 } else { *ver + 1 };
                        let newest = msg["contentChanges"][0].clone();
                        msg["contentChanges"] = json!([{"text": text_of(langs[*u], *u, older, *idents)}, newest]);
                    }
                    ls.notify("textDocument/didChange", msg)?;
                }
                Act::Save { u } => {
                    new_handler = Some(hr(vec![*u], vec![*u], false, false));
                    ls.notify("textDocument/didSave", did_save(&uris[*u]))?;
                }
                Act::Close { u } => {
                    w.buf[*u] = None;
                    w.ign[*u] = false;
                    new_handler = Some(hr(vec![*u], vec![], false, false));
                    ls.notify("textDocument/didClose", did_close(&uris[*u]))?;
                }
                Act::Delete { u } => {
                    let _ = std::fs::remove_file(doc_path(sdir, *u, langs[*u]));
                    w.disk[*u] = None;
                    w.buf[*u] = None;
                    w.ign[*u] = false;
                    new_handler = Some(hr(vec![*u], vec![], false, false));
                    ls.notify("workspace/didChangeWatchedFiles", deleted(&uris[*u]))?;
                }
                Act::DeleteDir => {
                    for u in 0..n {
                        let _ = std::fs::remove_file(doc_path(sdir, u, langs[u]));
                        w.disk[u] = None;
                        w.buf[u] = None;
                        w.ign[u] = false;
                    }
                    new_handler = Some(hr((0..n).collect(), vec![], false, false));
                    ls.notify("workspace/didChangeWatchedFiles", deleted(&dir_uri))?;
                }
                Act::SetCfg { k } => {
                    if w.ck != *k {
                        w.silent = true;
                    }
                    w.ck = *k;
                }
                Act::Cfg { k } => {
                    w.ck = *k;
                    w.silent = false;
                    new_handler = Some(hr((0..n).collect(), (0..n).collect(), true, false));
                    ls.notify("workspace/didChangeConfiguration", json!({"settings": cfg_json(*k, sdir)}))?;
                }
                Act::AddUser { w: word, u } => {
                    new_handler = Some(hr(vec![*u], vec![*u], false, false));
                    ls.request("workspace/executeCommand", json!({"command": "HarperAddToUserDict", "arguments": [USER_POOL[*word - 1], uris[*u]]}))?;
                }
                Act::AddFile { w: word, u } => {
                    new_handler = Some(hr(vec![*u], vec![*u], false, false));
                    ls.request("workspace/executeCommand", json!({"command": "HarperAddToFileDict", "arguments": [FILE_POOL[*word - 3], uris[*u]]}))?;
                }
                Act::Ignore { u } => {
                    // the lint a client would send: the IGN spelling lint of its own buffer
                    let lint = w.buf[*u].and_then(|(ver, idents)| {
                        if langs[*u] == Lang::Unknown {
                            return None;
                        }
                        let base = Facets { sev: 0, lk: 0, pk: 0, user: 0, file: 0, ident: langs[*u] == Lang::Rust, ign: false };
                        let (doc, lints) = lints_of(langs[*u], &text_of(langs[*u], *u, ver, idents), &base);
                        ign_lint(langs[*u], &doc, &lints)
                    });
                    let lint_json = lint.map(|l| serde_json::to_value(l).unwrap()).unwrap_or(json!({}));
                    if w.buf[*u].is_some() && langs[*u] != Lang::Unknown {
                        w.ign[*u] = true;
                    }
                    new_handler = Some(hr(vec![*u], vec![], false, false));
                    ls.request("workspace/executeCommand", json!({"command": "HarperIgnoreLint", "arguments": [uris[*u], lint_json]}))?;
                }
                Act::Reply { idx } => {
                    if *idx >= before {
                        return Err(LsError::Protocol(format!("action {}: no pending configuration request #{} (have {})", ai, idx, before)));
                    }
                    ls.answer_config_at(*idx, &cfg_json(w.ck, sdir))?;
                }
            }
            acts.push(act.clone());
            act_k.push(w.ck);
            if act.is_msg() {
                sent_msgs += 1;
            }
            // ---- protocol-level attribution of what happened in this window -------------
            let after = ls.pending_count();
            let window: Vec<usize> = ls.all_publications()[pubs0..].iter().filter_map(|p| uris.iter().position(|x| *x == p.uri)).collect();
            if let Some(h) = new_handler {
                let hi = handlers.len();
                handlers.push(h);
                if before >= 4 {
                    queued.push_back(hi);
                    if after != before || !window.is_empty() {
                        attribution_ok = false;
                    }
                    tags.insert("queued-behind-4".into());
                } else if after == before + 1 {
                    owners.push(hi);
                    if handlers[hi].is_cfg {
                        handlers[hi].order.extend(window.iter());
                    }
                } else if after == before {
                    handlers[hi].end = Some(ai);
                    if handlers[hi].is_cfg {
                        handlers[hi].order.extend(window.iter());
                    }
                } else {
                    attribution_ok = false;
                }
            } else if let Act::Reply { idx } = &act {
                if *idx >= owners.len() {
                    // the mirror lost track (cannot happen while `settle` is sound): broken correspondence
                    attribution_ok = false;
                    continue;
                }
                let hi = owners.remove(*idx);
                let mut fresh_reqs = after as i64 - (before as i64 - 1);
                if handlers[hi].is_cfg {
                    handlers[hi].order.extend(window.iter());
                    if fresh_reqs == 1 {
                        owners.push(hi);
                    } else if fresh_reqs == 0 {
                        handlers[hi].end = Some(ai);
                    } else {
                        attribution_ok = false;
                    }
                    if !queued.is_empty() {
                        attribution_ok = false;
                    }
                } else {
                    handlers[hi].end = Some(ai);
                    while owners.len() < 4 && !queued.is_empty() && fresh_reqs > 0 {
                        let q = queued.pop_front().unwrap();
                        owners.push(q);
                        fresh_reqs -= 1;
                    }
                    if fresh_reqs != 0 {
                        attribution_ok = false;
                    }
                }
            }
            // buffer ≠ disk while a re-reading handler is alive
            for h in handlers.iter_mut().filter(|h| h.end.is_none() || h.end == Some(ai)) {
                for u in h.reread.clone() {
                    if w.buf[u].is_some() && w.disk[u].is_some() && w.buf[u] != w.disk[u] && !h.stale_disk.contains(&u) {
                        h.stale_disk.push(u);
                    }
                    if w.buf[u].is_some() && w.disk[u].is_none() && !h.missing_disk.contains(&u) {
                        h.missing_disk.push(u);
                    }
                }
            }
            if acts.len() > 400 {
                return Err(LsError::Timeout("history longer than 400 actions".into()));
            }
        }
        // a no-op round trip confirms the server still answers
        ls.quiesce(&cfg_json(w.ck, sdir))?;
        Ok(())
    })();
    if let Err(e) = &res {
        timeout = Some(e.to_string());
    }

    T_SERVER.fetch_add(t_case.elapsed().as_micros() as u64, std::sync::atomic::Ordering::Relaxed);
    let t_dec = std::time::Instant::now();
    // ---- op line ---------------------------------------------------------------------------
    let mut cfg_orders: HashMap<usize, Vec<usize>> = HashMap::new();
    for h in &handlers {
        if h.is_cfg {
            // The HashMap iteration order is the implementation's free choice and differs from run to
            // run. It can matter when another handler was alive during this one's lifetime, when the
            // client's configuration changed silently meanwhile (the replies then carry another
            // configuration than the notification) or when a file appeared or disappeared meanwhile;
            // otherwise every order gives the same publications, so a canonical (sorted) one
            // is handed to the model and the op line stays a function of (seed, history index).
            // "alone": between its notification and its completion the client did nothing but answer
            // its configuration requests (no other message, no silent configuration change, no file
            // written or removed)
            let end = h.end.unwrap_or(usize::MAX);
            let alone = acts.iter().enumerate().all(|(i, a)| i <= h.act || i > end || matches!(a, Act::Reply { .. }))
                && !handlers.iter().any(|g| g.act < h.act && h.act < g.end.unwrap_or(usize::MAX));
            let mut o = h.order.clone();
            if alone {
                o.sort();
            } else if o.len() >= 2 {
                tags.insert("cfg-order-observed".into());
            }
            cfg_orders.insert(h.act, o);
        }
    }
    let op = format!(
        "srv {} | {} | {}",
        n,
        langs.iter().map(|l| l.code()).collect::<Vec<_>>().join(" "),
        acts.iter().enumerate().map(|(i, a)| a.show(act_k[i], cfg_orders.get(&i))).collect::<Vec<_>>().join(" ")
    );
    let input = json!({
        "langs": langs.iter().map(|l| l.code()).collect::<Vec<_>>(),
        "actions": acts.iter().map(|a| a.to_json()).collect::<Vec<_>>(),
        "origin": origin,
    });
    if let Some(t) = &timeout {
        let class = if t.contains("panicked") {
            "server-panic"
        } else if t.starts_with("protocol error") {
            // a fixed script (corpus / replay) asked to answer a request the server did not send
            "c09-script-mismatch"
        } else {
            "server-timeout"
        };
        return CaseOut {
            op,
            imp: if class == "server-panic" { "panic".into() } else if class == "c09-script-mismatch" { "script-mismatch".into() } else { "timeout".into() },
            input,
            failures: vec![(class.into(), t.clone())],
            tags: tags.into_iter().collect(),
            nontrivial: false,
            attribution_ok,
            timeout,
            n_actions: acts.len(),
            n_pubs: 0,
            seq: None,
        };
    }

    // ---- impl line: decoded publication sequences + dictionary files --------------------------
    let mut decoded: Vec<Vec<Dec>> = vec![vec![]; n];
    for p in ls.all_publications() {
        if let Some(u) = uris.iter().position(|x| *x == p.uri) {
            decoded[u].push(decode(langs[u], &p.diagnostics, &w.cands[u]));
        } else {
            tags.insert("publication-for-unknown-uri".into());
            attribution_ok = false;
        }
    }
    let read_words = |p: &Path, pool: &[&str], base: usize| -> (String, u8) {
        let mut out: Vec<String> = vec![];
        let mut bits = 0u8;
        if let Ok(s) = std::fs::read_to_string(p) {
            for l in s.lines() {
                match pool.iter().position(|x| *x == l) {
                    Some(i) => {
                        out.push((base + i).to_string());
                        bits |= 1 << i;
                    }
                    None => out.push("?".into()),
                }
            }
        }
        out.sort(); // the file is written in hash-map order
        (out.join(" "), bits)
    };
    let (user_words, user_bits) = read_words(&sdir.join("dictionary.txt"), &USER_POOL, 1);
    let mut toks: Vec<String> = vec!["ok".into()];
    let mut file_bits = vec![0u8; n];
    for u in 0..n {
        toks.push("|".into());
        toks.push(format!("u{}", u));
        for d in &decoded[u] {
            toks.push(show_dec(langs[u], d));
        }
    }
    toks.push("|".into());
    toks.push("U".into());
    toks.extend(user_words.split_whitespace().map(|x| x.to_string()));
    for u in 0..n {
        let name = tower_lsp::lsp_types::Url::parse(&uris[u]).ok().and_then(|x| file_dict_name(&x).ok()).unwrap_or_default();
        let (fw, fb) = read_words(&sdir.join("file_dictionaries").join(name), &FILE_POOL, 3);
        file_bits[u] = fb;
        toks.push("|".into());
        toks.push(format!("F{}", u));
        toks.extend(fw.split_whitespace().map(|x| x.to_string()));
    }
    let imp = toks.join(" ");

    // ---- O: the property on the real server's last word ---------------------------------------
    let mut failures: Vec<(String, String)> = vec![];
    let overlap = |u: usize| -> Option<(usize, usize)> {
        // two handlers touching `u` whose lifetimes [sent, completed] overlap
        let hs: Vec<&HandlerRec> = handlers.iter().filter(|h| h.touches.contains(&u)).collect();
        for a in 0..hs.len() {
            for b in a + 1..hs.len() {
                let (x, y) = (hs[a], hs[b]);
                // `hs` is in send order: y was sent while x had not completed
                if x.act < y.act && y.act < x.end.unwrap_or(usize::MAX) {
                    return Some((x.act, y.act));
                }
            }
        }
        None
    };
    let mut latest_ok: Vec<bool> = vec![true; n];
    for u in 0..n {
        let last = decoded[u].last().cloned();
        let last_raw = ls.last_publication(&uris[u]).cloned();
        let open = w.buf[u].is_some() && langs[u] != Lang::Unknown;
        let expected_f = Facets {
            sev: w.ck,
            lk: w.ck,
            pk: if langs[u] != Lang::Plain && ilt_of(w.ck) { 1 } else { 0 },
            user: user_bits,
            file: file_bits[u],
            ident: langs[u] == Lang::Rust,
            ign: w.ign[u],
        };
        let (ok, want) = if open {
            let (ver, idents) = w.buf[u].unwrap();
            let want = fresh_diags(langs[u], &text_of(langs[u], u, ver, idents), &expected_f);
            (last_raw.as_ref().map(|r| *r == *want).unwrap_or(false), show_dec(langs[u], &Dec::Diag { ver, f: expected_f }))
        } else {
            (last_raw.as_ref().map(|r| r.as_array().map(|a| a.is_empty()).unwrap_or(false)).unwrap_or(true), "E".to_string())
        };
        latest_ok[u] = ok;
        if ok {
            continue;
        }
        let got = last.as_ref().map(|d| show_dec(langs[u], d)).unwrap_or("none".into());
        // which facets differ
        let mut diff: BTreeSet<&str> = BTreeSet::new();
        match (&last, open) {
            (Some(Dec::Diag { ver, f }), true) => {
                if *ver != w.buf[u].unwrap().0 {
                    diff.insert("text");
                }
                if f.sev != expected_f.sev {
                    diff.insert("sev");
                }
                if f.lk != expected_f.lk {
                    diff.insert("lint");
                }
                if f.pk != expected_f.pk {
                    diff.insert("parse");
                }
                if f.user != expected_f.user {
                    diff.insert("user");
                }
                if f.file != expected_f.file {
                    diff.insert("file");
                }
                if f.ident != expected_f.ident {
                    diff.insert("ident");
                }
                if f.ign != expected_f.ign {
                    diff.insert("ign");
                }
            }
            _ => {
                diff.insert("presence");
            }
        }
        // matchers, each explaining some facets
        let ov = overlap(u);
        let rr: Vec<&HandlerRec> = handlers.iter().filter(|h| h.stale_disk.contains(&u)).collect();
        let rm: Vec<&HandlerRec> = handlers.iter().filter(|h| h.missing_disk.contains(&u)).collect();
        let other_add = acts.iter().any(|a| matches!(a, Act::AddUser { u: t, .. } if *t != u));
        let ident_dropped = langs[u] == Lang::Rust;
        let mut unexplained = diff.clone();
        let mut classes: Vec<&str> = vec![];
        if ov.is_some() {
            unexplained.clear();
            classes.push("c09-overlapping-updates");
        }
        // the file held another text: the older text (parsed afresh) is installed.
        // the file was missing: the update is skipped, so neither the parse configuration nor the
        // dictionaries of the document are refreshed.
        let by_stale = !rr.is_empty() && diff.contains("text");
        let by_missing = !rm.is_empty() && (diff.contains("parse") || diff.contains("user") || diff.contains("file"));
        if by_stale || by_missing {
            if by_stale {
                unexplained.remove("text");
            }
            if by_missing {
                unexplained.remove("parse");
                unexplained.remove("user");
                unexplained.remove("file");
            }
            classes.push("c09-reread-from-disk");
        }
        if other_add && diff.contains("user") {
            unexplained.remove("user");
            classes.push("c09-user-dict-other-docs");
        }
        if ident_dropped && diff.contains("ident") {
            unexplained.remove("ident");
            classes.push("c09-ident-dict-dropped");
        }
        // a configuration the server has only learnt through `workspace/configuration` answers (no
        // didChangeConfiguration since the client's configuration changed) is applied piecemeal
        let cfg_facets = diff.contains("sev") || diff.contains("lint") || diff.contains("parse");
        if w.silent && cfg_facets {
            unexplained.remove("sev");
            unexplained.remove("lint");
            unexplained.remove("parse");
            classes.push("c09-linter-config-only-on-notification");
        }
        let class = if unexplained.is_empty() && !classes.is_empty() { classes[0] } else { "c09-stale-publication" };
        let desc = format!(
            "URI {} ({}, {}): last publication {} but the newest text / current configuration / dictionaries give {}; differing: {:?}{}{}{}",
            u,
            langs[u].id(),
            if open { "open" } else { "closed" },
            got,
            want,
            diff,
            ov.map(|(a, b)| format!("; handlers sent by actions #{} and #{} overlap", a, b)).unwrap_or_default(),
            rr.first().or(rm.first()).map(|h| format!("; the handler sent by action #{} re-read the file while buffer ≠ disk", h.act)).unwrap_or_default(),
            if w.silent { "; the client's configuration changed and no didChangeConfiguration has been sent since" } else { "" },
        );
        failures.push((class.to_string(), desc));
        for c in &classes {
            tags.insert(format!("class:{}", c));
        }
    }
    T_DECODE.fetch_add(t_dec.elapsed().as_micros() as u64, std::sync::atomic::Ordering::Relaxed);
    let n_pubs = ls.all_publications().len();
    let concurrent_seen = handlers.iter().any(|h| handlers.iter().any(|g| g.act > h.act && g.act < h.end.unwrap_or(usize::MAX)));
    if concurrent_seen {
        tags.insert("schedule:overlapping-handlers".into());
    } else {
        tags.insert("schedule:sequential".into());
    }
    if failures.is_empty() {
        tags.insert("o:fresh".into());
    }
    for l in langs {
        tags.insert(format!("lang:{}", l.id()));
    }
    tags.insert(format!("uris:{}", n));
    let nontrivial = n_pubs >= 3 && decoded.iter().any(|d| d.iter().any(|x| matches!(x, Dec::Diag { .. })));
    // (w24) the same run as a `srvseq` case
    let seq = if seq_shape && ls.pending_count() == 0 && acts.iter().any(|a| a.is_msg()) {
        let hist: Vec<String> = acts
            .iter()
            .enumerate()
            .filter(|(_, a)| !matches!(a, Act::Reply { .. }))
            .map(|(i, a)| a.show(act_k[i], cfg_orders.get(&i)))
            .collect();
        let sop = format!("srvseq {} | {} | {}", n, langs.iter().map(|l| l.code()).collect::<Vec<_>>().join(" "), hist.join(" "));
        let side = format!("{} | L {}", imp.strip_prefix("ok ").unwrap_or(&imp), latest_ok.iter().map(|b| if *b { "1" } else { "0" }).collect::<Vec<_>>().join(" "));
        tags.insert("srvseq".into());
        if latest_ok.iter().all(|b| *b) {
            tags.insert("srvseq:latest-everywhere".into());
        }
        Some((sop, format!("ok {} | seq {}", side, side)))
    } else {
        None
    };
    CaseOut { op, imp, input, failures, tags: tags.into_iter().collect(), nontrivial, attribution_ok, timeout, n_actions: acts.len(), n_pubs, seq }
}

/// a configuration event: usually `didChangeConfiguration` to a new version; sometimes the client's
/// configuration changes SILENTLY (its `workspace/configuration` answers change, the notification
/// comes later or never); after a silent change the notification usually announces that version
fn next_cfg(w: &World, rng: &mut Rng) -> Act {
    let other = ((w.ck as usize + 1 + rng.below(3)) % 4) as u8;
    if w.silent {
        if rng.chance(7, 10) { Act::Cfg { k: w.ck } } else { Act::Cfg { k: other } }
    } else if rng.chance(3, 10) {
        Act::SetCfg { k: other }
    } else {
        Act::Cfg { k: other }
    }
}

/// next client message of a random history
fn gen_msg(
    w: &mut World,
    rng: &mut Rng,
    concurrent: bool,
    pending: usize,
    cfg_in_flight: bool,
    owners: &[usize],
    handlers: &[HandlerRec],
    queued: &VecDeque<usize>,
) -> Act {
    let n = w.langs.len();
    let busy = |u: usize| owners.iter().chain(queued.iter()).any(|h| handlers[*h].touches.contains(&u));
    // a pipeline that is full (4 handlers waiting) only takes single-pull messages
    let full = pending >= 4;
    // stress option (not used by `check`): many configuration handlers overlapping other handlers
    if std::env::var("C09_FOCUS_CFG").is_ok() && !full && queued.is_empty() && rng.chance(1, 4) {
        return next_cfg(w, rng);
    }
    for _ in 0..50 {
        let u = rng.below(n);
        let open = w.buf[u].is_some();
        let r = rng.below(100);
        let a = if full {
            if open {
                let (ver, idents) = w.new_text(u, rng);
                Act::Change { u, ver, idents }
            } else {
                continue;
            }
        } else if !open {
            match r {
                0..=69 => {
                    let (ver, idents) = w.new_text(u, rng);
                    if rng.chance(3, 5) && w.disk[u] != Some((ver, idents)) {
                        return Act::Write { u, ver, idents };
                    }
                    Act::Open { u, ver, idents }
                }
                70..=74 => {
                    let (ver, idents) = w.new_text(u, rng);
                    Act::Change { u, ver, idents }
                }
                75..=79 => Act::Save { u },
                80..=84 => Act::Close { u },
                85..=92 => next_cfg(w, rng),
                93..=96 => Act::AddUser { w: 1 + rng.below(2), u },
                _ => Act::Delete { u },
            }
        } else {
            match r {
                0..=34 => {
                    let (ver, idents) = w.new_text(u, rng);
                    Act::Change { u, ver, idents }
                }
                35..=46 => {
                    // an editor writes the buffer, then announces the save (sometimes only announces)
                    if w.buf[u] != w.disk[u] && rng.chance(4, 5) {
                        let (ver, idents) = w.buf[u].unwrap();
                        return Act::Write { u, ver, idents };
                    }
                    Act::Save { u }
                }
                47..=54 => Act::Close { u },
                55..=64 => {
                    if !concurrent && rng.chance(3, 4) {
                        // keep disk = buffer for every open document (the hypothesis of the theorem)
                        if let Some(v) = (0..n).find(|v| w.buf[*v].is_some() && w.buf[*v] != w.disk[*v]) {
                            let (ver, idents) = w.buf[v].unwrap();
                            return Act::Write { u: v, ver, idents };
                        }
                    }
                    next_cfg(w, rng)
                }
                65..=74 => {
                    if w.buf[u] != w.disk[u] && rng.chance(3, 4) {
                        let (ver, idents) = w.buf[u].unwrap();
                        return Act::Write { u, ver, idents };
                    }
                    Act::AddUser { w: 1 + rng.below(2), u }
                }
                75..=84 => {
                    if w.buf[u] != w.disk[u] && rng.chance(3, 4) {
                        let (ver, idents) = w.buf[u].unwrap();
                        return Act::Write { u, ver, idents };
                    }
                    Act::AddFile { w: 3 + rng.below(2), u }
                }
                85..=92 => Act::Ignore { u },
                93..=96 => Act::Delete { u },
                97 => Act::DeleteDir,
                _ => {
                    let (ver, idents) = w.new_text(u, rng);
                    Act::Write { u, ver, idents }
                }
            }
        };
        // constraints that keep the protocol-level attribution unambiguous
        if matches!(a, Act::Cfg { .. }) && (full || !queued.is_empty()) {
            continue;
        }
        if matches!(a, Act::Ignore { .. }) && busy(u) {
            continue;
        }
        return a;
    }
    Act::Reply { idx: 0 }
}

// ------------------------------------------------------------------------------------------
// corpus
// ------------------------------------------------------------------------------------------

fn parse_acts(s: &str) -> Vec<Act> {
    s.split_whitespace().filter_map(Act::parse).collect()
}

fn corpus() -> Vec<(&'static str, Vec<Lang>, Vec<Act>)> {
    use Lang::*;
    vec![
        // a clean sequential session: everything fresh at the end
        ("clean-open-change-save-close", vec![Plain], parse_acts("W:0:0:0 O:0:0:0 R:0 C:0:1:0 R:0 W:0:1:0 S:0 R:0 AU:1:0 R:0 AF:3:0 R:0 I:0 G:1: R:0 C:0:2:0 R:0")),
        ("clean-two-docs", vec![Markdown, Plain], parse_acts("W:0:0:0 O:0:0:0 R:0 W:1:0:0 O:1:0:0 R:0 G:2: R:0 R:0 C:1:1:0 R:0 L:0 D:1")),
        // known finding 11a: two didChange of one URI, configuration replies delivered in reverse order
        ("witness-overlapping-updates", vec![Plain], parse_acts("W:0:0:0 O:0:0:0 R:0 C:0:1:0 C:0:2:0 R:1 R:0")),
        // known finding 11b: the command re-reads the file (still version 0) although the buffer is version 1
        ("witness-reread-from-disk", vec![Plain], parse_acts("W:0:0:0 O:0:0:0 R:0 C:0:1:0 R:0 AU:1:0 R:0")),
        ("witness-reread-didsave", vec![Markdown], parse_acts("W:0:0:0 O:0:0:0 R:0 C:0:1:0 R:0 S:0 R:0")),
        ("witness-reread-config-missing-file", vec![Markdown], parse_acts("O:0:0:0 R:0 G:2:")),
        // a word added to the user dictionary through one document stays flagged in the other
        ("witness-user-dict-other-docs", vec![Plain, Plain], parse_acts("W:0:0:0 O:0:0:0 R:0 W:1:0:0 O:1:0:0 R:0 AU:1:0 R:0")),
        // the identifier dictionary is merged on the first update and dropped by the second
        ("witness-ident-dict-dropped", vec![Rust], parse_acts("W:0:0:1 O:0:0:1 R:0 C:0:1:1 R:0")),
        // the client's configuration changes silently (its answers carry version 1): the next update
        // takes severity and parser options from it but keeps the LintGroup built under version 0
        ("witness-linter-config-only-on-notification", vec![Markdown], parse_acts("W:0:0:0 O:0:0:0 R:0 K:1 C:0:1:0 R:0")),
        // … and once didChangeConfiguration announces it, EVERYTHING must be current (hard requirement)
        ("clean-silent-config-then-notification", vec![Markdown], parse_acts("W:0:0:0 O:0:0:0 R:0 K:1 C:0:1:0 R:0 W:0:1:0 G:1: R:0")),
        ("clean-silent-config-save-then-notification", vec![Plain, Markdown], parse_acts("W:0:0:0 O:0:0:0 R:0 W:1:0:0 O:1:0:0 R:0 K:3 S:0 R:0 AF:3:1 R:0 G:3: R:0 R:0")),
        // more than four handlers in flight: the fifth waits for a slot
        ("five-in-flight", vec![Plain], parse_acts("W:0:0:0 O:0:0:0 R:0 C:0:1:0 C:0:2:0 C:0:3:0 C:0:4:0 C:0:5:0 R:0 R:0 R:0 R:0 R:0")),
        ("unknown-language", vec![Unknown, Plain], parse_acts("O:0:0:0 R:0 C:0:1:0 R:0 O:1:0:0 R:0")),
        // (w24) one-handler-at-a-time histories in the vocabulary of the theorems (each also yields a
        // `srvseq` case): `C09.niceHistory` (every handler once, configuration 3);
        ("seq-nice-history", vec![Markdown], parse_acts("W:0:0:0 O:0:0:0 R:0 C:0:1:0 R:0 W:0:1:0 S:0 R:0 AU:1:0 R:0 AF:3:0 R:0 I:0 G:3: R:0 L:0 D:0")),
        // the second `HistOk` witness of `Props/C09.lean` (two documents, a two-key configuration
        // handler, a document reopened under an id no parser exists for — here a third URI);
        ("seq-two-docs-config", vec![Plain, Markdown, Unknown], parse_acts("W:0:0:0 O:0:0:0 R:0 W:1:0:0 O:1:0:0 R:0 G:2: R:0 R:0 S:1 R:0 AF:4:1 R:0 L:1 AU:1:0 R:0 O:2:0:0 R:0")),
        // a re-reading handler whose file is missing sends NO configuration request: the answer the
        // model's schedule (`seqActs`) holds ready for it is ignored
        ("seq-missing-file-no-request", vec![Plain], parse_acts("O:0:0:0 R:0 S:0 C:0:1:0 R:0 AF:3:0 G:1: C:0:2:0 R:0")),
    ]
}

// ------------------------------------------------------------------------------------------
// run
// ------------------------------------------------------------------------------------------

/// `run_case`, and once more with four times the deadline if a wait on the server timed out: a
/// deadline missed on a loaded machine is not a correspondence failure. Only a history that times
/// out twice is reported (as a hang of the server).
fn run_case_retry(sdir: &Path, langs: &[Lang], script: impl Fn() -> Script, origin: &str) -> CaseOut {
    let c = run_case(sdir, langs, script(), origin, 15);
    if c.timeout.as_ref().map(|t| t.starts_with("timeout")).unwrap_or(false) {
        let mut c2 = run_case(sdir, langs, script(), origin, 60);
        c2.tags.push("inconclusive-first-attempt:deadline".into());
        return c2;
    }
    c
}

fn record(sess: &mut Session, c: CaseOut) {
    let case = sess.k(&c.op, &c.imp);
    for t in &c.tags {
        sess.count(t);
    }
    sess.add("actions", c.n_actions as u64);
    sess.add("publications", c.n_pubs as u64);
    sess.monitor("client-side attribution of configuration requests to handlers is unambiguous", c.attribution_ok);
    sess.monitor("every wait on the server finished before its deadline", c.timeout.is_none());
    if c.nontrivial {
        sess.nontrivial(&c.op);
    }
    if case < 4 {
        sess.sample(json!({"op": trunc(&c.op, 400), "impl": trunc(&c.imp, 600)}));
    }
    if let Some((sop, simp)) = &c.seq {
        sess.k(sop, simp);
        if c.nontrivial {
            sess.nontrivial(sop);
        }
    }
    for (class, desc) in c.failures {
        sess.fail(&class, desc, c.input.clone(), Some(case));
    }
}

pub fn run(ctx: &Ctx) {
    std::fs::create_dir_all(&ctx.out).unwrap();
    let home = std::fs::canonicalize(&ctx.out).unwrap().join("home");
    let _ = std::fs::remove_dir_all(&home);
    set_home(&home);
    let mut sess = Session::new(ctx);
    // warm the curated dictionary and the slot tables before threads start
    for l in [Lang::Plain, Lang::Markdown, Lang::Rust] {
        rule_slots(l);
    }
    if let Some(v) = replay_input(ctx) {
        // (w25) replay of one oracle-only session
        if v.get("xsession").is_some() {
            let o = x_run(&home, &v);
            x_record(&mut sess, o);
            sess.nontrivial("replay-x");
            sess.finish("replay of one recorded oracle-only session", false, json!({}));
            return;
        }
        let langs: Vec<Lang> = v["langs"].as_array().map(|a| a.iter().filter_map(|x| x.as_str().and_then(Lang::from_code)).collect()).unwrap_or_default();
        let acts: Vec<Act> = v["actions"].as_array().map(|a| a.iter().filter_map(|x| x.as_str().and_then(Act::parse)).collect()).unwrap_or_default();
        let c = run_case_retry(&home.join("replay"), &langs, || Script::Fixed(acts.clone()), "replay");
        record(&mut sess, c);
        sess.nontrivial("replay-a");
        sess.finish("replay of one recorded history", false, json!({}));
        return;
    }
    // 1. corpus (sequentially: the witnesses of the recorded findings are among them)
    for (i, (name, langs, acts)) in corpus().into_iter().enumerate() {
        let c = run_case_retry(&home.join(format!("c{}", i)), &langs, || Script::Fixed(acts.clone()), "corpus");
        sess.count(&format!("corpus:{}", name));
        record(&mut sess, c);
    }
    // 2. random histories × random reply orders
    let total = std::env::var("C09_TOTAL").ok().and_then(|x| x.parse().ok()).unwrap_or(if ctx.tier == Tier::Thorough { 12000 } else { 1400 });
    let threads = std::env::var("C09_THREADS").ok().and_then(|x| x.parse().ok()).unwrap_or_else(|| std::thread::available_parallelism().map(|n| n.get()).unwrap_or(4).clamp(2, 12));
    let seed = ctx.seed;
    let t0 = std::time::Instant::now();
    let budget = std::time::Duration::from_secs(if ctx.tier == Tier::Thorough { 420 } else { 55 });
    let outs = par_map(total, threads, |i| {
        if t0.elapsed() > budget {
            return None;
        }
        let mut rng = Rng::new(seed.wrapping_mul(0x2545F4914F6CDD1D) ^ (i as u64).wrapping_mul(0x9E3779B97F4A7C15));
        let focus = std::env::var("C09_FOCUS_CFG").is_ok();
        let n = if focus { 2 + rng.below(2) } else { 1 + rng.below(3) };
        let langs: Vec<Lang> = (0..n)
            .map(|_| match rng.below(16) {
                0..=5 => Lang::Plain,
                6..=10 => Lang::Markdown,
                11..=14 => Lang::Rust,
                _ => Lang::Unknown,
            })
            .collect();
        let concurrent = focus || rng.chance(3, 5);
        let msgs = rng.range(4, 14);
        let dir = home.join(format!("r{}", i));
        let script_rng = rng.fork();
        let c = run_case_retry(&dir, &langs, || Script::Random { rng: script_rng.clone(), concurrent, msgs }, if concurrent { "random-concurrent" } else { "random-sequential" });
        let _ = std::fs::remove_dir_all(&dir);
        Some(c)
    });
    let mut done = 0;
    for c in outs.into_iter().flatten() {
        record(&mut sess, c);
        done += 1;
    }
    // 3. (w25) oracle-only sessions: other language ids, text families, configuration keys, watched-file
    // events, no-op messages, untitled buffers, reopen under another id
    x_sessions(&mut sess, ctx, &home, threads);
    let fresh_n = FRESH_COMPUTED.load(std::sync::atomic::Ordering::Relaxed);
    sess.finish(
        "corpus (clean sessions + one witness per recorded finding); random histories of 4–14 client messages (didOpen/didChange/didSave/didClose/didChangeWatchedFiles(delete file | delete directory)/didChangeConfiguration/HarperAddToUserDict/HarperAddToFileDict/HarperIgnoreLint, silent disk writes) over 1–3 URIs (plaintext, markdown, rust, one unsupported language) against the real in-process server; sequential = every configuration request answered at once, concurrent = up to 4 (occasionally 5+) handlers held and released in random order; every history of the sequential shape without a silent configuration change (corpus or random) is also a `srvseq` case (runMacro on seqActs and seqRun, both against the same real run). Non-trivial = ≥3 publications of which ≥1 non-empty; distinct by the op line.",
        false,
        json!({
            "histories_planned": total, "histories_run": done + corpus().len(),
            "fresh_lint_computations": fresh_n,
            "decoder_warm_lintgroup_misses": WARM_MISSES.load(std::sync::atomic::Ordering::Relaxed),
            "threads": threads,
            "thread_seconds": {"start": T_START.load(std::sync::atomic::Ordering::Relaxed) as f64 / 1e6, "server_incl_start": T_SERVER.load(std::sync::atomic::Ordering::Relaxed) as f64 / 1e6, "decode_and_oracle": T_DECODE.load(std::sync::atomic::Ordering::Relaxed) as f64 / 1e6},
            "decode": "each publication is decoded into (text version, severity cfg, linter cfg, parser bit, accepted dictionary words, ident dictionary, ignore) and re-encoded by an independent pipeline; the re-encoding must equal the published JSON",
        }),
    );
}

// ------------------------------------------------------------------------------------------
// (w25) oracle-only sessions: the call sites, language ids, configuration keys and client
// messages the histories above never use. Each session is sequential (every message goes to an
// idle server, its configuration requests are answered at once with the client's configuration,
// the file on disk equals the buffer before any handler that re-reads it), so none of the recorded
// findings applies; after EVERY step (each prefix is a history of its own) the last publication of
// every URI is compared with an independent pipeline (`x_expected`: new dictionaries read from the
// files on disk, new parser by language id, new `Document`, new `LintGroup`).
// ------------------------------------------------------------------------------------------

const XUSER_A: &str = "xqusera"; // in dictionary.txt
const XUSER_B: &str = "xquserb"; // in dictionary-b.txt
const XFILE_A: &str = "xqfilea"; // in file_dictionaries/<name>
const XFILE_B: &str = "xqfileb"; // in file_dictionaries-b/<name>
const XDIALECTS: [&str; 4] = ["American", "British", "Australian", "Canadian"];

#[derive(Clone, Debug, PartialEq)]
struct XCfg {
    sev: usize,
    dialect: usize,
    isolate: bool,
    ilt: bool,
    rules: u8,
    udict: usize,
    fdir: usize,
    /// explicit `null` rule values, an unknown rule name, an unknown top-level key, `codeActions`
    odd: bool,
}

const XCFG0: XCfg = XCfg { sev: 0, dialect: 0, isolate: false, ilt: false, rules: 0, udict: 0, fdir: 0, odd: false };

fn x_user_path(c: &XCfg, sdir: &Path) -> PathBuf {
    sdir.join(["dictionary.txt", "dictionary-b.txt"][c.udict])
}
fn x_file_dir(c: &XCfg, sdir: &Path) -> PathBuf {
    sdir.join(["file_dictionaries", "file_dictionaries-b"][c.fdir])
}

fn x_linters(c: &XCfg) -> Value {
    let mut l = linters_json(c.rules);
    if c.odd {
        l["SpellCheck"] = Value::Null;
        l["SentenceCapitalization"] = Value::Null;
        l["NoSuchRuleZq"] = json!(true);
    }
    l
}

fn x_cfg_json(c: &XCfg, sdir: &Path) -> Value {
    let mut v = json!({"harper-ls": {
        "userDictPath": x_user_path(c, sdir).to_string_lossy(),
        "fileDictPath": x_file_dir(c, sdir).to_string_lossy(),
        "diagnosticSeverity": SEV[c.sev],
        "linters": x_linters(c),
        "dialect": XDIALECTS[c.dialect],
        "isolateEnglish": c.isolate,
        "markdown": {"IgnoreLinkTitle": c.ilt},
    }});
    if c.odd {
        v["harper-ls"]["codeActions"] = json!({"ForceStable": true});
        v["harper-ls"]["noSuchKeyZq"] = json!({"a": [1, null]});
        v["other-server"] = json!({"dialect": "British"});
    }
    v
}

fn x_words(p: &Path) -> Vec<String> {
    std::fs::read_to_string(p).map(|s| s.lines().map(|l| l.to_string()).collect()).unwrap_or_default()
}

static XEXP: once_cell::sync::Lazy<Mutex<HashMap<String, Arc<Value>>>> = once_cell::sync::Lazy::new(|| Mutex::new(HashMap::new()));

/// The diagnostics the property demands for an open document: `text` parsed as `lang_id`, under
/// configuration `c` and the dictionary files as they are on disk. `None` = no parser for the id.
fn x_expected(lang_id: &str, uri: &str, text: &str, c: &XCfg, sdir: &Path) -> Option<Arc<Value>> {
    let user = x_words(&x_user_path(c, sdir));
    let file = tower_lsp::lsp_types::Url::parse(uri)
        .ok()
        .filter(|u| u.scheme() != "untitled")
        .and_then(|u| file_dict_name(&u).ok())
        .map(|n| x_words(&x_file_dir(c, sdir).join(n)))
        .unwrap_or_default();
    let key = format!("{}\u{1}{}\u{1}{:?}\u{1}{:?}\u{1}{:?}", lang_id, text, (c.sev, c.dialect, c.isolate, c.ilt, c.rules, c.odd), user, file);
    if let Some(v) = XEXP.lock().unwrap().get(&key) {
        return Some(v.clone());
    }
    let md = crate::frontends::md_opts(c.ilt);
    let source: Vec<char> = text.chars().collect();
    let mut dict = MergedDictionary::new();
    dict.add_dictionary(FstDictionary::curated());
    let mut ud = MutableDictionary::new();
    for w in &user {
        ud.append_word_str(w, WordMetadata::default());
    }
    dict.add_dictionary(Arc::new(ud));
    let mut fd = MutableDictionary::new();
    for w in &file {
        fd.append_word_str(w, WordMetadata::default());
    }
    dict.add_dictionary(Arc::new(fd));
    // source files: the file's own identifiers are accepted and collapsed
    let ts = CommentParser::new_from_language_id(lang_id, md);
    let lhs = matches!(lang_id, "literate haskell" | "lhaskell");
    let ident = if let Some(ts) = &ts {
        ts.create_ident_dict(&source)
    } else if lhs {
        harper_literate_haskell::LiterateHaskellParser::new_markdown(md).create_ident_dict(&source, md)
    } else {
        None
    };
    let collapse = ident.is_some();
    if let Some(id) = ident {
        dict.add_dictionary(Arc::new(id));
    }
    let dict = Arc::new(dict);
    let mut parser: Box<dyn Parser> = crate::frontends::parser_for(lang_id, c.ilt)?;
    if collapse {
        parser = Box::new(CollapseIdentifiers::new(parser, Box::new(dict.clone())));
    }
    if c.isolate {
        parser = Box::new(harper_core::parsers::IsolateEnglish::new(parser, dict.clone()));
    }
    let doc = Document::new(text, &parser, &dict);
    let dialect: harper_core::Dialect = serde_json::from_value(json!(XDIALECTS[c.dialect])).unwrap();
    let lint_config: harper_core::linting::LintGroupConfig = serde_json::from_value(x_linters(c)).unwrap();
    let mut linter = LintGroup::new_curated(dict.clone(), dialect).with_lint_config(lint_config);
    linter.config.fill_with_curated();
    let lints = linter.lint(&doc);
    use crate::config::DiagnosticSeverity as DS;
    let sev = [DS::Hint, DS::Information, DS::Warning, DS::Error][c.sev];
    let v = Arc::new(serde_json::to_value(lints_to_diagnostics(doc.get_full_content(), &lints, sev)).unwrap());
    XEXP.lock().unwrap().insert(key, v.clone());
    Some(v)
}

const X_FAMILIES: [&str; 8] = ["ascii", "non-ascii", "crlf", "lone-cr", "empty", "whitespace-only", "long-word", "long-document"];

/// prose of version `ver` in text family `fam`: a marker word, one spelling per dialect, the four
/// dictionary probes, a repeated word, a wrong article, a link title and a German sentence
fn x_prose(ver: usize, fam: usize) -> String {
    let base = format!(
        "The {} word, colour and color, {} and {} and {} and {} are is is here with an test and [{}](https://example.com) too. Das ist ein ganz kurzer deutscher Satz hier.",
        marker(7, ver),
        XUSER_A,
        XUSER_B,
        XFILE_A,
        XFILE_B,
        TITLE
    );
    match fam % 8 {
        0 => base,
        1 => format!("Héllo 😀 ａｂｃ e\u{301}galité — {} Ünd 𝒳 ende {}.", base, marker(8, ver)),
        2 => format!("{}\r\n", base.replace(". ", ".\r\n")),
        3 => base.replace(". ", ".\r"),
        4 => String::new(),
        5 => " \n\t \n".to_string(),
        6 => format!("{} A zq{}x word.", base, "y".repeat(180)),
        _ => (0..10).map(|i| format!("{} Line {}.\n", base, i)).collect(),
    }
}

/// `prose` as the content of a file of language `id` (source files: comments only, so the
/// identifier dictionary is empty and `c09-ident-dict-dropped` cannot apply)
fn x_embed(id: &str, prose: &str) -> String {
    let lead = match id {
        "python" | "nix" | "cmake" | "ruby" | "toml" | "shellscript" => "# ",
        "lua" | "haskell" => "-- ",
        "html" => return format!("<html><body><p>{}</p></body></html>", prose),
        _ if CommentParser::new_from_language_id(id, MarkdownOptions::default()).is_some() => "// ",
        _ => return prose.to_string(),
    };
    let body: String = prose.split('\n').map(|l| format!("{}{}\n", lead, l)).collect();
    if id == "php" { format!("<?php\n{}", body) } else { body }
}

struct XDoc {
    uri: String,
    path: Option<PathBuf>,
    lang: String,
    buf: Option<String>,
}

struct XSess {
    ls: LsSession,
    sdir: PathBuf,
    cfg: XCfg,
    docs: Vec<XDoc>,
    steps: Vec<String>,
    checks: usize,
    nonempty: usize,
    fails: Vec<(String, String)>,
    class: String,
    /// URIs of `deleted` watched-file events sent so far
    deleted: Vec<String>,
}

impl XSess {
    fn start(sdir: &Path, class: &str) -> Result<XSess, LsError> {
        let _ = std::fs::remove_dir_all(sdir);
        std::fs::create_dir_all(sdir.join("docs")).unwrap();
        std::fs::write(sdir.join("dictionary.txt"), format!("{}\n", XUSER_A)).unwrap();
        std::fs::write(sdir.join("dictionary-b.txt"), format!("{}\n", XUSER_B)).unwrap();
        let mut ls = LsSession::start()?;
        ls.max_wait = std::time::Duration::from_secs(30);
        ls.initialize(&x_cfg_json(&XCFG0, sdir))?;
        Ok(XSess { ls, sdir: sdir.to_path_buf(), cfg: XCFG0, docs: vec![], steps: vec![], checks: 0, nonempty: 0, fails: vec![], class: class.to_string(), deleted: vec![] })
    }
    /// a document under the session directory (`rel` may contain directories); its two file dictionaries are written
    fn doc(&mut self, rel: &str, lang: &str) -> usize {
        let path = self.sdir.join("docs").join(rel);
        std::fs::create_dir_all(path.parent().unwrap()).unwrap();
        let uri = file_url(&path);
        if let Some(name) = tower_lsp::lsp_types::Url::parse(&uri).ok().and_then(|u| file_dict_name(&u).ok()) {
            for (d, w) in [("file_dictionaries", XFILE_A), ("file_dictionaries-b", XFILE_B)] {
                std::fs::create_dir_all(self.sdir.join(d)).unwrap();
                std::fs::write(self.sdir.join(d).join(&name), format!("{}\n", w)).unwrap();
            }
        }
        self.docs.push(XDoc { uri, path: Some(path), lang: lang.to_string(), buf: None });
        self.docs.len() - 1
    }
    fn untitled(&mut self, name: &str, lang: &str) -> usize {
        self.docs.push(XDoc { uri: format!("untitled:{}", name), path: None, lang: lang.to_string(), buf: None });
        self.docs.len() - 1
    }
    fn answer(&mut self) -> Result<(), LsError> {
        let c = x_cfg_json(&self.cfg, &self.sdir);
        let mut n = 0;
        while self.ls.pending_count() > 0 {
            self.ls.answer_config_at(0, &c)?;
            n += 1;
            if n > 64 {
                return Err(LsError::Timeout("configuration requests keep coming".into()));
            }
        }
        Ok(())
    }
    fn write(&mut self, d: usize, text: &str) {
        if let Some(p) = &self.docs[d].path {
            std::fs::write(p, text).unwrap();
        }
    }
    fn open(&mut self, d: usize, text: &str) -> Result<(), LsError> {
        self.write(d, text);
        self.docs[d].buf = Some(text.to_string());
        let (u, l) = (self.docs[d].uri.clone(), self.docs[d].lang.clone());
        self.ls.notify("textDocument/didOpen", did_open(&u, &l, text))?;
        self.answer()?;
        self.check(&format!("open {} as {}", d, l))
    }
    /// didChange (the file is written first when `save`, and didSave follows)
    fn change(&mut self, d: usize, text: &str, save: bool) -> Result<(), LsError> {
        self.docs[d].buf = Some(text.to_string());
        let u = self.docs[d].uri.clone();
        let ver = self.steps.len() as i64 + 2;
        self.ls.notify("textDocument/didChange", did_change(&u, ver, text))?;
        self.answer()?;
        self.check(&format!("change {}", d))?;
        if save {
            self.write(d, text);
            self.ls.notify("textDocument/didSave", did_save(&u))?;
            self.answer()?;
            self.check(&format!("save {}", d))?;
        }
        Ok(())
    }
    fn close(&mut self, d: usize) -> Result<(), LsError> {
        self.docs[d].buf = None;
        let u = self.docs[d].uri.clone();
        self.ls.notify("textDocument/didClose", did_close(&u))?;
        self.answer()?;
        self.check(&format!("close {}", d))
    }
    /// the client's configuration becomes `c` and didChangeConfiguration announces it
    fn config(&mut self, c: XCfg) -> Result<(), LsError> {
        self.cfg = c;
        let j = x_cfg_json(&self.cfg, &self.sdir);
        self.ls.notify("workspace/didChangeConfiguration", json!({"settings": j}))?;
        self.answer()?;
        self.check(&format!("config {:?}", self.cfg))
    }
    /// workspace/didChangeWatchedFiles with one event (`typ` 1 created, 2 changed, 3 deleted); the
    /// client's own view: a deleted file / a file below a deleted directory is no longer open
    fn watched(&mut self, uri: &str, typ: u64) -> Result<(), LsError> {
        if typ == 3 {
            self.deleted.push(uri.to_string());
            for d in self.docs.iter_mut() {
                if d.uri == uri || d.uri.starts_with(&format!("{}/", uri)) {
                    d.buf = None;
                    if let Some(p) = &d.path {
                        let _ = std::fs::remove_file(p);
                    }
                }
            }
        }
        self.ls.notify("workspace/didChangeWatchedFiles", json!({"changes": [{"uri": uri, "type": typ}]}))?;
        self.answer()?;
        self.check(&format!("watched-files type {} {}", typ, uri.rsplit('/').next().unwrap_or("")))
    }
    /// a message that must leave every document's last word as it is
    fn other(&mut self, what: &str, method: &str, params: Value, request: bool) -> Result<(), LsError> {
        if request {
            let c = x_cfg_json(&self.cfg, &self.sdir);
            self.ls.request_sync(method, params, &c)?;
        } else {
            self.ls.notify(method, params)?;
        }
        self.answer()?;
        self.check(what)
    }
    /// O after a step: every open document's last publication is the fresh lint of its buffer, every
    /// other URI's is empty or absent
    fn check(&mut self, step: &str) -> Result<(), LsError> {
        self.steps.push(step.to_string());
        for d in &self.docs {
            self.checks += 1;
            let last = self.ls.last_publication(&d.uri).cloned();
            let want = d.buf.as_ref().and_then(|t| x_expected(&d.lang, &d.uri, t, &self.cfg, &self.sdir));
            let ok = match (&want, &last) {
                (Some(w), Some(l)) => **w == *l,
                (Some(_), None) => false,
                (None, Some(l)) => l.as_array().map(|a| a.is_empty()).unwrap_or(false),
                (None, None) => true,
            };
            if want.as_ref().map(|w| w.as_array().map(|a| !a.is_empty()).unwrap_or(false)).unwrap_or(false) {
                self.nonempty += 1;
            }
            if ok {
                continue;
            }
            let n = |v: &Option<Value>| v.as_ref().and_then(|x| x.as_array().map(|a| a.len() as i64)).unwrap_or(-1);
            // an open document emptied by the deletion of ANOTHER path whose URI is a string prefix of its own
            let prefix_sibling = want.is_some()
                && last.as_ref().and_then(|l| l.as_array().map(|a| a.is_empty())).unwrap_or(false)
                && self.deleted.iter().any(|p| d.uri.starts_with(p.as_str()) && d.uri != *p && !d.uri[p.len()..].starts_with('/'));
            let class = if prefix_sibling { "c09-delete-uri-string-prefix".to_string() } else { self.class.clone() };
            self.fails.push((
                class,
                format!(
                    "after step #{} `{}` (steps: {}): {} ({}, {}) last publication has {} diagnostics, the {} demands {}; first differing: got {} want {}",
                    self.steps.len() - 1,
                    step,
                    self.steps.join(" / "),
                    d.uri.rsplit('/').next().unwrap_or(&d.uri),
                    d.lang,
                    if d.buf.is_some() { "open" } else { "closed" },
                    n(&last),
                    if want.is_some() { "fresh lint of the newest text under the current configuration and dictionaries" } else { "property (closed / deleted / no parser)" },
                    n(&want.as_ref().map(|w| (**w).clone())),
                    trunc(&x_first_diff(&last, &want.as_ref().map(|w| (**w).clone()), true), 200),
                    trunc(&x_first_diff(&last, &want.as_ref().map(|w| (**w).clone()), false), 200),
                ),
            ));
        }
        Ok(())
    }
}

fn x_first_diff(got: &Option<Value>, want: &Option<Value>, show_got: bool) -> String {
    let e = vec![];
    let g = got.as_ref().and_then(|v| v.as_array()).unwrap_or(&e);
    let w = want.as_ref().and_then(|v| v.as_array()).unwrap_or(&e);
    let i = (0..g.len().max(w.len())).find(|i| g.get(*i) != w.get(*i)).unwrap_or(0);
    let pick = if show_got { g.get(i) } else { w.get(i) };
    pick.map(|x| json!({"range": x["range"], "severity": x["severity"], "message": x["message"]}).to_string()).unwrap_or("-".into())
}

pub struct XOut {
    family: String,
    input: Value,
    checks: usize,
    nonempty: usize,
    steps: usize,
    fails: Vec<(String, String)>,
    error: Option<String>,
}

/// every language id × one text family: open, change (+ save), configuration change, change, an
/// empty didChange, close
fn x_lang_script(x: &mut XSess, id: &str, fam: usize) -> Result<(), LsError> {
    let d = x.doc(&format!("l{}.src", fam), id);
    x.open(d, &x_embed(id, &x_prose(0, 0)))?;
    x.change(d, &x_embed(id, &x_prose(1, fam)), true)?;
    x.config(XCfg { sev: 2, dialect: 1, rules: 1, ilt: true, ..XCFG0 })?;
    x.change(d, &x_embed(id, &x_prose(2, fam + 1)), false)?;
    let u = x.docs[d].uri.clone();
    x.other("didChange without content changes", "textDocument/didChange", json!({"textDocument": {"uri": u, "version": 99}, "contentChanges": []}), false)?;
    x.change(d, &x_embed(id, &x_prose(3, fam)), true)?;
    x.close(d)
}

/// three documents open at once; the configuration walks through every key
fn x_config_script(x: &mut XSess, variant: usize) -> Result<(), LsError> {
    let a = x.doc("a.txt", "plaintext");
    let b = x.doc("b.md", "markdown");
    let c = x.doc("c.py", "python");
    x.open(a, &x_prose(0, variant))?;
    x.open(b, &x_prose(0, variant + 1))?;
    x.open(c, &x_embed("python", &x_prose(0, 0)))?;
    let mut walk: Vec<XCfg> = vec![];
    for dialect in [1, 2, 3, 0] {
        walk.push(XCfg { dialect, ..XCFG0 });
    }
    walk.push(XCfg { isolate: true, ..XCFG0 });
    walk.push(XCfg { udict: 1, ..XCFG0 });
    walk.push(XCfg { fdir: 1, ..XCFG0 });
    walk.push(XCfg { udict: 1, fdir: 1, dialect: 3, sev: 3, ..XCFG0 });
    walk.push(XCfg { odd: true, ..XCFG0 });
    walk.push(XCfg { ilt: true, rules: 3, sev: 1, ..XCFG0 });
    walk.push(XCfg { isolate: true, dialect: 1, odd: true, udict: 1, ..XCFG0 });
    walk.push(XCFG0);
    walk.push(XCFG0); // the same configuration announced twice
    let k = variant % walk.len();
    walk.rotate_left(k);
    for (i, cfg) in walk.into_iter().enumerate() {
        x.config(cfg)?;
        if i % 3 == 1 {
            x.change(a, &x_prose(i + 1, variant + i), true)?;
            x.change(b, &x_prose(i + 1, variant), true)?;
        }
    }
    x.close(b)?;
    x.config(XCfg { dialect: 2, sev: 2, ..XCFG0 })?;
    x.close(a)?;
    x.close(c)
}

/// workspace/didChangeWatchedFiles: created / changed events and deletions of OTHER paths leave an
/// open document's diagnostics alone; a deleted file / directory empties exactly what is below it
fn x_watched_script(x: &mut XSess) -> Result<(), LsError> {
    let d1 = x.doc("d1.txt", "plaintext");
    let bak = x.doc("d1.txt.bak", "plaintext");
    let sx = x.doc("sub/x.md", "markdown");
    let sy = x.doc("sub2/y.md", "markdown");
    for (i, d) in [d1, bak, sx, sy].into_iter().enumerate() {
        x.open(d, &x_prose(i, 0))?;
    }
    let u1 = x.docs[d1].uri.clone();
    x.watched(&u1, 1)?;
    x.watched(&u1, 2)?;
    let dir = u1.rsplit_once('/').unwrap().0.to_string();
    x.watched(&format!("{}/never-opened.txt", dir), 3)?;
    x.other("watched-files with no event", "workspace/didChangeWatchedFiles", json!({"changes": []}), false)?;
    x.watched(&format!("{}/sub", dir), 3)?;
    x.change(sy, &x_prose(9, 1), true)?;
    x.watched(&u1, 3)?;
    x.change(bak, &x_prose(9, 2), true)?;
    x.watched(&dir, 3)
}

/// requests and commands that do not concern the text: the last word stays
fn x_noop_script(x: &mut XSess) -> Result<(), LsError> {
    let a = x.doc("n.md", "markdown");
    x.open(a, &x_prose(0, 1))?;
    let u = x.docs[a].uri.clone();
    x.other("HarperRecordLint (malformed)", "workspace/executeCommand", json!({"command": "HarperRecordLint", "arguments": ["{}"]}), true)?;
    x.other("HarperRecordLint", "workspace/executeCommand", json!({"command": "HarperRecordLint", "arguments": ["{\"LintConfigUpdate\":{\"AnA\":true}}"]}), true)?;
    x.other("unknown command", "workspace/executeCommand", json!({"command": "HarperNoSuchCommand", "arguments": ["x", u]}), true)?;
    x.other("command without arguments", "workspace/executeCommand", json!({"command": "HarperAddToUserDict", "arguments": []}), true)?;
    x.other("add-to-user-dict without a URI", "workspace/executeCommand", json!({"command": "HarperAddToUserDict", "arguments": []}), true)?;
    x.other("ignore-lint with a malformed lint", "workspace/executeCommand", json!({"command": "HarperIgnoreLint", "arguments": [u, {"span": "x"}]}), true)?;
    x.other("ignore-lint for a URI that is not open", "workspace/executeCommand", json!({"command": "HarperIgnoreLint", "arguments": [format!("{}.other", u), {}]}), true)?;
    x.other("codeAction", "textDocument/codeAction", json!({"textDocument": {"uri": u}, "range": {"start": {"line": 0, "character": 4}, "end": {"line": 0, "character": 9}}, "context": {"diagnostics": []}}), true)?;
    x.other("codeAction for a URI that is not open", "textDocument/codeAction", json!({"textDocument": {"uri": format!("{}.other", u)}, "range": {"start": {"line": 0, "character": 0}, "end": {"line": 0, "character": 1}}, "context": {"diagnostics": []}}), true)?;
    x.change(a, &x_prose(1, 0), true)?;
    x.close(a)
}

/// unsaved buffers (`untitled:` URIs): no file, no file dictionary
fn x_untitled_script(x: &mut XSess) -> Result<(), LsError> {
    let a = x.untitled("Untitled-1", "plaintext");
    let b = x.untitled("Untitled-2", "markdown");
    x.open(a, &x_prose(0, 0))?;
    x.open(b, &x_prose(0, 1))?;
    x.change(a, &x_prose(1, 2), false)?;
    x.change(b, &x_prose(1, 0), false)?;
    // severity, rules and dialect are applied without re-reading the (absent) file
    x.config(XCfg { sev: 3, rules: 2, dialect: 1, ..XCFG0 })?;
    let ua = x.docs[a].uri.clone();
    x.other("add-to-file-dict on an untitled document", "workspace/executeCommand", json!({"command": "HarperAddToFileDict", "arguments": ["zqnothing", ua]}), true)?;
    x.change(a, &x_prose(2, 1), false)?;
    x.close(a)?;
    x.change(b, &x_prose(2, 7), false)?;
    x.close(b)
}

/// one URI closed and reopened under other language ids (also ids without a parser)
fn x_reopen_script(x: &mut XSess) -> Result<(), LsError> {
    let r = x.doc("r.txt", "markdown");
    let s = x.doc("s.txt", "plaintext");
    let t = x_prose(0, 0);
    x.open(r, &t)?;
    x.open(s, &t)?; // two documents with the same text
    x.close(r)?;
    for (i, id) in ["plaintext", "klingon", "html", "mail", "text", "gitcommit", "git-commit", "literate haskell", "lhaskell", "typst", "markdown"].iter().enumerate() {
        x.docs[r].lang = id.to_string();
        x.open(r, &x_embed(id, &x_prose(i + 1, i)))?;
        x.change(r, &x_embed(id, &x_prose(i + 20, 0)), i % 2 == 0)?;
        x.close(r)?;
    }
    x.close(s)
}

fn x_run(home: &Path, input: &Value) -> XOut {
    let family = input["xsession"].as_str().unwrap_or("").to_string();
    let variant = input["variant"].as_u64().unwrap_or(0) as usize;
    let id = input["lang"].as_str().unwrap_or("plaintext").to_string();
    let sdir = home.join(format!("x-{}-{}-{}", family, id.replace(' ', "_"), variant));
    let class = format!("c09-x-{}", family);
    let mut out = XOut { family: family.clone(), input: input.clone(), checks: 0, nonempty: 0, steps: 0, fails: vec![], error: None };
    let mut x = match XSess::start(&sdir, &class) {
        Ok(x) => x,
        Err(e) => {
            out.error = Some(e.to_string());
            return out;
        }
    };
    let r = match family.as_str() {
        "language" => x_lang_script(&mut x, &id, variant),
        "config" => x_config_script(&mut x, variant),
        "watched" => x_watched_script(&mut x),
        "noop" => x_noop_script(&mut x),
        "untitled" => x_untitled_script(&mut x),
        "reopen" => x_reopen_script(&mut x),
        _ => Ok(()),
    };
    if let Err(e) = r {
        out.error = Some(format!("{} (after steps: {})", e, x.steps.join(" / ")));
    }
    out.checks = x.checks;
    out.nonempty = x.nonempty;
    out.steps = x.steps.len();
    out.fails = std::mem::take(&mut x.fails);
    drop(x);
    let _ = std::fs::remove_dir_all(&sdir);
    out
}

fn x_record(sess: &mut Session, o: XOut) {
    for _ in 0..o.checks {
        sess.o();
    }
    sess.count(&format!("x:session:{}", o.family));
    sess.add("x:checks", o.checks as u64);
    sess.add("x:checks-nonempty-expected", o.nonempty as u64);
    sess.add("x:steps", o.steps as u64);
    if o.family == "language" {
        sess.count(&format!("x:lang:{}", o.input["lang"].as_str().unwrap_or("")));
        sess.count(&format!("x:text:{}", X_FAMILIES[o.input["variant"].as_u64().unwrap_or(0) as usize % 8]));
    }
    if o.nonempty > 0 {
        sess.nontrivial(&o.input.to_string());
    }
    sess.monitor("every wait on the server finished before its deadline", o.error.is_none());
    if let Some(e) = &o.error {
        let class = if e.contains("panicked") { "server-panic" } else { "server-timeout" };
        sess.fail(class, format!("x-session {}: {}", o.input, e), o.input.clone(), None);
    }
    for (class, desc) in o.fails {
        sess.fail(&class, desc, o.input.clone(), None);
    }
}

/// the job list: every language id (one text family each, chosen by the seed; thorough: all 8),
/// all families for the four prose languages, the configuration walk, watched files, no-op
/// messages, untitled buffers, reopen-under-another-id
fn x_jobs(ctx: &Ctx) -> Vec<Value> {
    let mut jobs: Vec<Value> = vec![];
    let thorough = ctx.tier == Tier::Thorough;
    // tree-sitter-dart can hang on malformed input (recorded under C01); the server has no watchdog
    let ids: Vec<String> = crate::frontends::language_ids().into_iter().filter(|i| i != "dart").collect();
    for (i, id) in ids.iter().enumerate() {
        // quick: the four prose languages get four families each (which ones rotates with the seed)
        let prose = matches!(id.as_str(), "plaintext" | "markdown" | "html" | "typst");
        for fam in 0..8 {
            if thorough || (prose && (fam + i + ctx.seed as usize) % 2 == 0) || fam == (i + ctx.seed as usize) % 8 {
                jobs.push(json!({"xsession": "language", "lang": id, "variant": fam}));
            }
        }
    }
    for v in 0..(if thorough { 14 } else { 2 }) {
        jobs.push(json!({"xsession": "config", "variant": v + ctx.seed as usize}));
    }
    for f in ["watched", "noop", "untitled", "reopen"] {
        jobs.push(json!({"xsession": f, "variant": 0}));
    }
    jobs
}

fn x_sessions(sess: &mut Session, ctx: &Ctx, home: &Path, threads: usize) {
    let jobs = x_jobs(ctx);
    let t0 = std::time::Instant::now();
    let outs = par_map(jobs.len(), threads, |i| x_run(home, &jobs[i]));
    for o in outs {
        x_record(sess, o);
    }
    sess.add("x:wall-ms", t0.elapsed().as_millis() as u64);
}
