//! Structured text generation: sentences from the repository's own rule tests, mutated the way
//! an editor session mutates text (truncation, dropped delimiters, multi-byte splices, …),
//! plus a separate malformed stream of random code points.
use crate::common::Rng;
use crate::corpus;

pub const SPICE: &[&str] = &[
    "0xFFFFFFFFFFFFFFFFF", "0x0123456789abcdef0123456789abcdef", "12345678901234567890",
    "e.g.", "i.e.", "N.S.A.", "et al.", "etc.", "vs.", "1st", "22nd", "3rd", "11th", "1980s", "0x1F", "2stuff",
    "1.14.4.", "3.5", "1e5", "$5", "5%", "don't", "it's", "a's", "5's", "O'Neil", "the how", "better then ",
    "{@link Foo}", "{@link", "[[a|b]]", "[[a|b|c]]", "[[||]]", "[[|b|c]]", "\\[[a|b|c]]", "[[a|[b](x)|c]]", "[[a|", "![[a|b]]", "[[a]]", "[a][b]", "[^1]", "[^1]: note", "[a-z0-9]", "[a-z", "> quote", ">", "\\begin{code}", "\\end{code}",
    "http://example.com/a?b=c", "https://", "user@example.com", "a@b", "example.com", "www.a.b.", "...", "..", "....",
    "\"", "“quoted”", "'", "’", "—", "–", "…", "😀", "é", "ß", "İ", "ﬁ", "٣", "½", "中文", "한국어", "\u{200b}", "\u{301}",
    "\t", "\t\t ", " \t ", "  ", "\n", "\n\n", "\r\n", "\r", "#", "##", "*", "**", "`", "```", "<b>", "</p>", "&amp;",
    "#let", "$x$", "@ref", "<label>", "//", "/*", "*/", "--", "{-", "-}", "=begin", "TODO:", "harper:ignore",
    "spellchecker:ignore", "#!/bin/sh", "@param", "@return", "//go:generate", "1980st", "2010th", "007th",
];

/// lexer corner cases shared by the C01 and C02 corpora
pub const LEXER_CORNERS: &[&str] = &[
    "0xFFFFFFFFFFFFFFFFF", "0x1ffffffffffffffff in the log", "0x0123456789abcdef0123456789abcdef", "0x", "0x1G", "1000000000000011th",
    "12345678901234567890 123456789012345.678901234567890", "0.000000000000000000001e10 1e-320 9007199254740993", "1e999$", "1.e5 1e+5 1e 1.",
    "٣1 ½ 1½", "[a-z0-9] [a-z [a-] [ab]", "a'b'c'd", "....", "\"a\" \"b", "http://a.b/c user@x.y www.a.b. a.b", "x:y //", "İstanbul ﬁ ß", "don’t",
];

pub fn sentence(rng: &mut Rng) -> String {
    let s = corpus::sentences();
    s[rng.below(s.len())].clone()
}

/// a paragraph-ish piece of prose: 1–3 sentences
pub fn prose(rng: &mut Rng) -> String {
    let n = rng.range(1, 3);
    let mut out = String::new();
    for i in 0..n {
        if i > 0 {
            out.push_str(if rng.chance(1, 6) { "\n\n" } else if rng.chance(1, 6) { "\n" } else { " " });
        }
        out.push_str(&sentence(rng));
    }
    out
}

fn long_word(rng: &mut Rng) -> String {
    let n = rng.range(40, 300);
    (0..n).map(|_| (b'a' + rng.below(26) as u8) as char).collect()
}

/// mutate `text` in place with editor-like damage and hostile splices
pub fn mutate(rng: &mut Rng, text: &str) -> String {
    let mut cs: Vec<char> = text.chars().collect();
    let nmut = rng.range(0, 3);
    for _ in 0..nmut {
        match rng.below(11) {
            0 => {
                // truncate (a document while being typed)
                let at = rng.below(cs.len() + 1);
                cs.truncate(at);
            }
            1 => {
                // splice a spice token (or markup soup) at a random position
                let at = rng.below(cs.len() + 1);
                let sp: Vec<char> = if rng.chance(1, 3) { soup(rng).chars().collect() } else { rng.pick(SPICE).chars().collect() };
                let tail = cs.split_off(at);
                cs.extend(sp);
                cs.extend(tail);
            }
            2 => {
                // splice with surrounding spaces
                let at = rng.below(cs.len() + 1);
                let sp: Vec<char> = format!(" {} ", rng.pick(SPICE)).chars().collect();
                let tail = cs.split_off(at);
                cs.extend(sp);
                cs.extend(tail);
            }
            3 => {
                // drop a character (often a delimiter)
                if !cs.is_empty() {
                    let at = rng.below(cs.len());
                    cs.remove(at);
                }
            }
            4 => {
                // duplicate a character
                if !cs.is_empty() {
                    let at = rng.below(cs.len());
                    let c = cs[at];
                    cs.insert(at, c);
                }
            }
            5 => {
                // append spice / soup at the end (end-of-text look-ahead bugs)
                if rng.chance(1, 3) { cs.extend(soup(rng).chars()); } else { cs.extend(rng.pick(SPICE).chars()); }
            }
            6 => {
                // trailing whitespace
                cs.extend(rng.pick(&[" ", "  ", "\n", "\t", "\n\n", " \n"]).chars());
            }
            7 => {
                let at = rng.below(cs.len() + 1);
                let w: Vec<char> = long_word(rng).chars().collect();
                let tail = cs.split_off(at);
                cs.extend(w);
                cs.extend(tail);
            }
            9 | 10 => {
                // turn a single space into whitespace made of several tokens
                let spaces: Vec<usize> = cs.iter().enumerate().filter(|(_, c)| **c == ' ').map(|(i, _)| i).collect();
                if !spaces.is_empty() {
                    let at = *rng.pick(&spaces);
                    let rep: Vec<char> = rng.pick(&[" \n", "\n ", "\t ", " \t ", "  ", " \n ", "\n"]).chars().collect();
                    cs.splice(at..at + 1, rep);
                }
            }
            _ => {
                // digits glued to letters
                let at = rng.below(cs.len() + 1);
                let d: Vec<char> = if rng.chance(1, 5) { format!("{}{}", rng.next() % 10_000_000_000, rng.next() % 10_000_000_000) } else { format!("{}", rng.below(100000)) }.chars().collect();
                let tail = cs.split_off(at);
                cs.extend(d);
                cs.extend(tail);
            }
        }
    }
    cs.into_iter().collect()
}

/// the malformed stream: random code points from hostile ranges
pub fn malformed(rng: &mut Rng, max_len: usize) -> String {
    let n = rng.range(0, max_len);
    let mut s = String::new();
    for _ in 0..n {
        let c = match rng.below(12) {
            0 => char::from_u32(rng.below(0x80) as u32),
            1 => char::from_u32(0x80 + rng.below(0x780) as u32),
            2 => char::from_u32(0x2000 + rng.below(0x70) as u32),
            3 => char::from_u32(0x1F300 + rng.below(0x400) as u32),
            4 => char::from_u32(0x300 + rng.below(0x70) as u32),
            5 => char::from_u32(0x4E00 + rng.below(0x100) as u32),
            6 => Some(*rng.pick(&['.', ',', '\'', '"', '@', ':', '/', '-', '[', ']', '{', '}', '>', '#', '\\', '`', '*', '_', '<', '$'])),
            7 => Some(*rng.pick(&[' ', ' ', '\n', '\t', '\r'])),
            8 => Some((b'0' + rng.below(10) as u8) as char),
            9 => char::from_u32(rng.below(0x110000) as u32),
            _ => Some((b'a' + rng.below(26) as u8) as char),
        };
        if let Some(c) = c {
            s.push(c);
        }
    }
    s
}

/// markup soup: short runs of structural characters and words in combinations nobody listed
pub fn soup(rng: &mut Rng) -> String {
    const PARTS: &[&str] = &["[", "]", "[[", "]]", "|", "(", ")", "\\", "`", "*", "**", "_", "<", ">", "#", "!", "{", "}", "@", ":", "/", "-", "=", "~", "$", "^", "&", ";", "'", "\"", ".", ",", " ", " ", "\n", "a", "b", "word", "x1", "1", "é"];
    let n = rng.range(2, 12);
    (0..n).map(|_| *rng.pick(PARTS)).collect()
}

/// one generated plain text (structured 85 %, malformed 15 %)
pub fn text(rng: &mut Rng) -> String {
    if rng.chance(15, 100) {
        malformed(rng, 60)
    } else {
        let p = prose(rng);
        mutate(rng, &p)
    }
}
