//! C04 K — the Lean glue models (`Harper.Model.Mask`) against the real glue.
//!
//! Private glue is reached either through the smallest public wrapper (`TreeSitterMasker`,
//! `harper_core::Mask`, `parsers::Mask`, `GitCommitParser`) or by compiling the real source file
//! from /repo into the harness (`#[path]`, as for harper-ls): the comment parsers `Unit`/`JsDoc`,
//! the Literate Haskell masker, the Typst `OffsetCursor`. Third-party outputs (tree-sitter node
//! byte ranges, pulldown-cmark event ranges, inner-parser tokens) are passed to the model as data.
use crate::common::*;
use crate::tokfmt::*;
use harper_core::parsers::{Markdown, Parser, PlainEnglish};
use harper_core::{Lrc, Mask, Masker, Span, Token, TokenKind};
use serde_json::{Value, json};
use std::sync::Mutex;

#[path = "/repo/harper-comments/src/comment_parsers/mod.rs"]
mod comment_parsers;
#[path = "/repo/harper-literate-haskell/src/masker.rs"]
mod lhs_masker;
#[path = "/repo/harper-typst/src/offset_cursor.rs"]
mod offset_cursor;
// `CommentMasker` is private to harper-comments (`mod masker;`): the real source file is compiled in
#[path = "/repo/harper-comments/src/masker.rs"]
#[allow(dead_code)]
mod comment_masker;

use super::cgen;
use comment_masker::CommentMasker;
use comment_parsers::{Go, JavaDoc, JsDoc, Unit};
use lhs_masker::LiterateHaskellMasker;
use offset_cursor::OffsetCursor;

// ---------------------------------------------------------------------------------------------
// helpers
// ---------------------------------------------------------------------------------------------

/// `cp` / `cp:w` words (w = `char::is_whitespace`)
fn ws_text_field(cs: &[char]) -> String {
    let mut s = String::with_capacity(cs.len() * 5);
    for (i, c) in cs.iter().enumerate() {
        if i > 0 {
            s.push(' ');
        }
        s.push_str(&(*c as u32).to_string());
        if c.is_whitespace() {
            s.push_str(":w");
        }
    }
    s
}

fn bytes_field(s: &str) -> String {
    s.bytes().map(|b| b.to_string()).collect::<Vec<_>>().join(" ")
}

fn spans_field(v: &[(usize, usize)]) -> String {
    v.iter().map(|(a, b)| format!("{}:{}", a, b)).collect::<Vec<_>>().join(" ")
}

fn ok_spans(v: &[(usize, usize)]) -> String {
    format!("ok {}", spans_field(v)).trim_end().to_string()
}

fn ok_toks(ts: &[Token]) -> String {
    format!("ok {}", toks_show(ts)).trim_end().to_string()
}

/// an inner parser that records what it was given and what it answered
struct Recorder<P: Parser> {
    inner: P,
    log: Mutex<Vec<(Vec<char>, Vec<Token>)>>,
}
impl<P: Parser> Recorder<P> {
    fn new(inner: P) -> Self {
        Recorder { inner, log: Mutex::new(vec![]) }
    }
    /// ` | chunk ; toks | …` (deduplicated by chunk: a parser is a function of its input)
    fn runs_field(&self) -> String {
        let log = self.log.lock().unwrap();
        let mut seen: Vec<&Vec<char>> = vec![];
        let mut s = String::new();
        for (c, t) in log.iter() {
            if seen.contains(&c) {
                continue;
            }
            seen.push(c);
            s.push_str(" | ");
            s.push_str(&chars_field(c));
            s.push_str(" ; ");
            s.push_str(&toks_show(t));
        }
        s
    }
    fn calls(&self) -> usize {
        self.log.lock().unwrap().len()
    }
    /// every call in order: (chunk, answer)
    fn log_clone(&self) -> Vec<(Vec<char>, Vec<Token>)> {
        self.log.lock().unwrap().clone()
    }
}
impl<P: Parser> Parser for Recorder<P> {
    fn parse(&self, source: &[char]) -> Vec<Token> {
        let t = self.inner.parse(source);
        self.log.lock().unwrap().push((source.to_vec(), t.clone()));
        t
    }
}

/// one `Word` token over the whole chunk: shows exactly which characters the glue hands over
struct Spy;
impl Parser for Spy {
    fn parse(&self, source: &[char]) -> Vec<Token> {
        if source.is_empty() { vec![] } else { vec![Token::new(Span::new(0, source.len()), TokenKind::Word(None))] }
    }
}

pub struct KOut {
    pub op: String,
    pub imp: String,
    pub counts: Vec<String>,
    pub nontrivial: bool,
    /// (class, description): the REAL code's output violates the property clause the op is about
    pub fails: Vec<(String, String)>,
}

fn kout(op: String, imp: String) -> KOut {
    KOut { op, imp, counts: vec![], nontrivial: false, fails: vec![] }
}

// ---------------------------------------------------------------------------------------------
// (a) byte_spans_to_char_spans + push_allowed + merge_whitespace_sep through TreeSitterMasker
// ---------------------------------------------------------------------------------------------

fn cond_text(n: &tree_sitter::Node) -> bool {
    n.kind() == "text"
}
fn cond_comment(n: &tree_sitter::Node) -> bool {
    n.kind().contains("comment")
}
fn cond_all(_n: &tree_sitter::Node) -> bool {
    true
}
fn cond_named(n: &tree_sitter::Node) -> bool {
    n.is_named()
}
fn cond_leaf(n: &tree_sitter::Node) -> bool {
    n.child_count() == 0
}
fn cond_e(n: &tree_sitter::Node) -> bool {
    n.kind().contains('e') && n.child_count() <= 2
}
fn cond_string(n: &tree_sitter::Node) -> bool {
    n.kind().contains("string") || n.kind().contains("attribute") || n.kind().contains("element")
}

const CONDS: &[(&str, fn(&tree_sitter::Node) -> bool)] = &[
    ("text", cond_text),
    ("comment", cond_comment),
    ("all", cond_all),
    ("named", cond_named),
    ("leaf", cond_leaf),
    ("e", cond_e),
    ("string", cond_string),
];

fn ts_language(lang: &str) -> tree_sitter::Language {
    match lang {
        "rust" => tree_sitter_rust::language(),
        _ => tree_sitter_html::language(),
    }
}

/// the walk of `TreeSitterMasker::visit_nodes` (pre-order, root excluded), collecting byte ranges
fn walk(cursor: &mut tree_sitter::TreeCursor, cond: fn(&tree_sitter::Node) -> bool, out: &mut Vec<(usize, usize)>) {
    if !cursor.goto_first_child() {
        return;
    }
    loop {
        let node = cursor.node();
        if cond(&node) {
            let r = node.byte_range();
            out.push((r.start, r.end));
        }
        walk(cursor, cond, out);
        if !cursor.goto_next_sibling() {
            break;
        }
    }
    cursor.goto_parent();
}

pub fn eval_tsmask(lang: &str, cond_ix: usize, text: &str) -> KOut {
    let (cname, cond) = CONDS[cond_ix % CONDS.len()];
    let language = ts_language(lang);
    let src: Vec<char> = text.chars().collect();
    // data: the node byte ranges tree-sitter reports for this text
    let mut ranges = vec![];
    let mut parser = tree_sitter::Parser::new();
    parser.set_language(language).unwrap();
    if let Some(tree) = parser.parse(text, None) {
        walk(&mut tree.walk(), cond, &mut ranges);
    }
    let op = format!("tsmask | {} | {} | {}", bytes_field(text), ws_text_field(&src), spans_field(&ranges));
    let masker = harper_tree_sitter::TreeSitterMasker::new(language, cond);
    let imp = match guarded(|| {
        let m = masker.create_mask(&src);
        m.iter_allowed(&src).map(|(s, _)| (s.start, s.end)).collect::<Vec<_>>()
    }) {
        Ok(v) => ok_spans(&v),
        Err(_) => "panic".into(),
    };
    let mut o = kout(op, imp);
    o.counts.push(format!("tsmask:{}:{}", lang, cname));
    if o.imp == "panic" {
        o.counts.push("tsmask:panic".into());
    }
    let nested = ranges.windows(2).any(|w| w[1].0 < w[0].1);
    if nested {
        o.counts.push("tsmask:nested-ranges".into());
    }
    o.nontrivial = !text.is_ascii() && ranges.len() >= 2;
    o
}

// ---------------------------------------------------------------------------------------------
// (a2) CommentMasker::create_mask: the tree-sitter mask, then the ignore-marker filter, then
//      Mask::from_iter (model: `commentMask ignoreCondition`)
// ---------------------------------------------------------------------------------------------

/// the ignore condition as the PROPERTY states it (marker table regenerated from masker.rs ∪ the
/// committed list; `#!` at the start of the span)
fn span_is_ignored(text: &str, markers: &[String]) -> bool {
    markers.iter().any(|m| text.contains(m.as_str())) || text.starts_with("#!")
}

pub fn eval_cmask(lang: &str, cond_ix: usize, text: &str, markers: &[String]) -> KOut {
    let (cname, cond) = CONDS[cond_ix % CONDS.len()];
    let language = ts_language(lang);
    let src: Vec<char> = text.chars().collect();
    // data: the node byte ranges tree-sitter reports for this text (BEFORE byte→char, merging, filter)
    let mut ranges = vec![];
    let mut parser = tree_sitter::Parser::new();
    parser.set_language(language).unwrap();
    if let Some(tree) = parser.parse(text, None) {
        walk(&mut tree.walk(), cond, &mut ranges);
    }
    let op = format!("cmask | {} | {} | {}", bytes_field(text), ws_text_field(&src), spans_field(&ranges));
    let masker = CommentMasker::new(language, cond);
    let real = guarded(|| {
        let m = masker.create_mask(&src);
        m.iter_allowed(&src).map(|(s, _)| (s.start, s.end)).collect::<Vec<_>>()
    });
    let imp = match &real {
        Ok(v) => ok_spans(v),
        Err(_) => "panic".into(),
    };
    let mut o = kout(op, imp);
    o.counts.push(format!("cmask:{}:{}", lang, cname));
    // O: the clauses of `ignoreMarker_drops` on the REAL masks (inner tree-sitter mask vs comment mask)
    let inner = harper_tree_sitter::TreeSitterMasker::new(language, cond);
    let before = guarded(|| {
        let m = inner.create_mask(&src);
        m.iter_allowed(&src).map(|(s, _)| (s.start, s.end)).collect::<Vec<_>>()
    });
    match (&before, &real) {
        (Ok(b), Ok(k)) => {
            let txt = |sp: &(usize, usize)| src[sp.0..sp.1].iter().collect::<String>();
            let want: Vec<(usize, usize)> = b.iter().filter(|sp| !span_is_ignored(&txt(sp), markers)).cloned().collect();
            if &want != k {
                o.fails.push((
                    "ignore-filter".into(),
                    format!("CommentMasker kept {:?}; the spans of the tree-sitter mask {:?} without an ignore marker / leading #! are {:?}", k, b, want),
                ));
            }
            let dropped = b.len() - want.len().min(b.len());
            o.counts.push(format!("cmask:dropped:{}", dropped.min(3)));
            if dropped > 0 && !want.is_empty() {
                o.counts.push("cmask:some-dropped-some-kept".into());
            }
            if b.iter().any(|sp| txt(sp).starts_with("#!")) {
                o.counts.push("cmask:shebang-span".into());
            }
            // a dropped span that holds more than one node range: comments merged over white space
            if b.iter().any(|sp| span_is_ignored(&txt(sp), markers) && ranges.iter().filter(|r| text.is_char_boundary(r.0) && text[..r.0].chars().count() >= sp.0 && text[..r.0].chars().count() < sp.1).count() >= 2) {
                o.counts.push("cmask:marker-drops-merged-neighbours".into());
            }
            o.nontrivial = dropped > 0 && b.len() >= 2;
        }
        (Err(_), Ok(_)) | (Ok(_), Err(_)) => {
            o.fails.push(("ignore-filter".into(), "TreeSitterMasker and CommentMasker disagree on panicking".into()));
        }
        (Err(_), Err(_)) => o.counts.push("cmask:panic".into()),
    }
    o
}

// ---------------------------------------------------------------------------------------------
// (b) Mask::push_allowed / merge_whitespace_sep, parsers::Mask::parse
// ---------------------------------------------------------------------------------------------

pub fn eval_mws(text: &str, spans: &[(usize, usize)]) -> KOut {
    let src: Vec<char> = text.chars().collect();
    let op = format!("mws | {} | {}", ws_text_field(&src), spans_field(spans));
    let imp = match guarded(|| {
        let mut m = Mask::new_blank();
        for (a, b) in spans {
            m.push_allowed(Span::new(*a, *b));
        }
        m.merge_whitespace_sep(&src);
        m.iter_allowed(&src).map(|(s, _)| (s.start, s.end)).collect::<Vec<_>>()
    }) {
        Ok(v) => ok_spans(&v),
        Err(_) => "panic".into(),
    };
    let mut o = kout(op, imp);
    o.counts.push(if o.imp == "panic" { "mws:panic".into() } else { "mws:ok".into() });
    o.nontrivial = spans.len() >= 2 && o.imp != "panic";
    o
}

struct FixedMasker(Vec<(usize, usize)>);
impl Masker for FixedMasker {
    fn create_mask(&self, _source: &[char]) -> Mask {
        let mut m = Mask::new_blank();
        for (a, b) in &self.0 {
            m.push_allowed(Span::new(*a, *b));
        }
        m
    }
}

pub fn eval_maskparse(text: &str, spans: &[(usize, usize)]) -> KOut {
    let src: Vec<char> = text.chars().collect();
    let p = harper_core::parsers::Mask::new(FixedMasker(spans.to_vec()), Recorder::new(PlainEnglish));
    let r = guarded(|| p.parse(&src));
    let op = format!("maskparse | {} | {}{}", chars_field(&src), spans_field(spans), p.parser.runs_field());
    let imp = match r {
        Ok(t) => ok_toks(&t),
        Err(_) => "panic".into(),
    };
    let mut o = kout(op, imp);
    o.counts.push(if o.imp == "panic" { "maskparse:panic".into() } else { "maskparse:ok".into() });
    if o.imp.contains("parbreak") {
        o.counts.push("maskparse:paragraph-break".into());
    }
    o.nontrivial = spans.len() >= 2 && o.imp != "panic" && !text.is_ascii();
    o
}

// ---------------------------------------------------------------------------------------------
// (c) Unit / JsDoc (line splitting, leader stripping, inline tags)
// ---------------------------------------------------------------------------------------------

/// `InnerOK` of the Lean side: tokens inside `0..len`, well-formed, in order
fn inner_ok(len: usize, ts: &[Token]) -> bool {
    ts.iter().all(|t| t.span.start <= t.span.end && t.span.end <= len) && ts.windows(2).all(|w| w[0].span.end <= w[1].span.start)
}

/// (start, end) of `without_initiators` (re-implemented: this is the oracle's side)
fn woi_range(src: &[char]) -> (usize, usize) {
    let skip = |c: &char| matches!(*c, '#' | '-' | '/' | '*' | '!') || c.is_whitespace();
    let start = src.iter().position(|c| !skip(c)).unwrap_or(src.len());
    let end = src.len() - src.iter().rev().position(|c| !skip(c)).unwrap_or(0);
    (start, end)
}

/// `JsDocLines` (Lemmas/Mask.lean) as a decidable predicate on the real output: line by line, the
/// recorded inner tokens of the stripped line — same spans, same order, kind kept or Unlintable —
/// shifted by Σ(len+1) + leader, then the line break unless it is the last line
fn jsdoc_span_oracle(src: &[char], log: &[(Vec<char>, Vec<Token>)], out: &[Token]) -> Result<(), String> {
    let lines: Vec<&[char]> = src.split(|c| *c == '\n').collect();
    let mut exp: Vec<(usize, usize, Option<TokenKind>)> = vec![];
    let (mut trav, mut call) = (0usize, 0usize);
    for (j, line) in lines.iter().enumerate() {
        let (s, e) = woi_range(line);
        if s > e {
            return Err(format!("line {}: leader stripping gives the inverted range {}..{}", j, s, e));
        }
        if e > s {
            let Some((chunk, toks)) = log.get(call) else {
                return Err(format!("line {}: no inner-parser call for a non-empty stripped line", j));
            };
            call += 1;
            if chunk[..] != line[s..e] {
                return Err(format!("line {}: the inner parser was handed {:?}, the stripped line is {:?}", j, chunk.iter().collect::<String>(), line[s..e].iter().collect::<String>()));
            }
            for t in toks {
                exp.push((trav + s + t.span.start, trav + s + t.span.end, Some(t.kind.clone())));
            }
        }
        if j + 1 < lines.len() {
            exp.push((trav + line.len(), trav + line.len() + 1, None));
        }
        trav += line.len() + 1;
    }
    if call != log.len() {
        return Err(format!("{} inner-parser calls for {} non-empty stripped lines", log.len(), call));
    }
    if exp.len() != out.len() {
        return Err(format!("{} tokens, expected {} (inner tokens + line breaks)", out.len(), exp.len()));
    }
    for (i, ((a, b, k), y)) in exp.iter().zip(out.iter()).enumerate() {
        let kind_ok = match k {
            None => y.kind == TokenKind::Newline(1),
            Some(k) => y.kind == *k || y.kind == TokenKind::Unlintable,
        };
        if y.span.start != *a || y.span.end != *b || !kind_ok {
            return Err(format!("token {} is {}, expected span {}-{} with the inner kind or Unlintable", i, tok_show(y), a, b));
        }
    }
    Ok(())
}

/// `javadocParse_span_faithful` as a decidable predicate on the real output: a subsequence of the
/// HTML parser's tokens (shifted by the opening delimiter) with kind kept or Unlintable; only `*` and
/// space tokens are lost
fn javadoc_span_oracle(off: usize, html: &[Token], out: &[Token]) -> Result<(), String> {
    let mut i = 0usize;
    for (n, y) in out.iter().enumerate() {
        loop {
            let Some(x) = html.get(i) else {
                return Err(format!("token {} {} is not (in order) the shifted image of an HTML-parser token", n, tok_show(y)));
            };
            i += 1;
            if x.span.start + off == y.span.start && x.span.end + off == y.span.end && (y.kind == x.kind || y.kind == TokenKind::Unlintable) {
                break;
            }
            if !(x.kind.is_space() || matches!(x.kind, TokenKind::Punctuation(harper_core::Punctuation::Star))) {
                return Err(format!("HTML-parser token {} (not a leader) is missing before output token {}", tok_show(x), n));
            }
        }
    }
    for x in &html[i.min(html.len())..] {
        if !(x.kind.is_space() || matches!(x.kind, TokenKind::Punctuation(harper_core::Punctuation::Star))) {
            return Err(format!("HTML-parser token {} (not a leader) is missing at the end", tok_show(x)));
        }
    }
    Ok(())
}

#[derive(Clone, Copy, PartialEq)]
pub enum InnerKind {
    Spy,
    Plain,
    Markdown,
}

pub fn eval_unit(jsdoc: bool, inner: InnerKind, text: &str) -> KOut {
    let src: Vec<char> = text.chars().collect();
    let opname = if jsdoc { "jsdoc" } else { "unit" };
    type Log = Vec<(Vec<char>, Vec<Token>)>;
    fn go<P: Parser + 'static>(jsdoc: bool, rec: Lrc<Recorder<P>>, src: &[char]) -> (Result<Vec<Token>, String>, String, Log) {
        let r = if jsdoc {
            let p = JsDoc::new(rec.clone());
            guarded(|| p.parse(src))
        } else {
            let p = Unit::new(rec.clone());
            guarded(|| p.parse(src))
        };
        (r, rec.runs_field(), rec.log_clone())
    }
    let (r, runs, log) = match inner {
        InnerKind::Spy => go(jsdoc, Lrc::new(Recorder::new(Spy)), &src),
        InnerKind::Plain => go(jsdoc, Lrc::new(Recorder::new(PlainEnglish)), &src),
        InnerKind::Markdown => go(jsdoc, Lrc::new(Recorder::new(Markdown::default())), &src),
    };
    let op = format!("{} | {}{}", opname, ws_text_field(&src), runs);
    let imp = match &r {
        Ok(t) => ok_toks(t),
        Err(_) => "panic".into(),
    };
    let mut o = kout(op, imp);
    if jsdoc {
        // O: `jsdocParse_span_faithful` / `jsdocParse_inbounds` on the REAL parser's output
        match &r {
            Ok(t) => {
                if let Err(e) = jsdoc_span_oracle(&src, &log, t) {
                    o.fails.push(("jsdoc-span-unfaithful".into(), e));
                }
                if log.iter().all(|(c, ts)| inner_ok(c.len(), ts)) {
                    if !inner_ok(src.len(), t) {
                        o.fails.push(("jsdoc-span-unfaithful".into(), format!("tokens out of bounds / out of order although the inner parser's were not: {}", toks_show(t))));
                    }
                } else {
                    o.counts.push("jsdoc:inner-parser-not-InnerOK".into());
                }
                o.counts.push("jsdoc:span-oracle".into());
            }
            Err(e) => o.fails.push(("jsdoc-span-unfaithful".into(), format!("JsDoc::parse panicked: {}", trunc(e, 160)))),
        }
    }
    o.counts.push(format!("{}:{}", opname, match inner { InnerKind::Spy => "spy", InnerKind::Plain => "plain", InnerKind::Markdown => "markdown" }));
    if o.imp.contains("unl@") {
        o.counts.push(format!("{}:unlintable-marked", opname));
    }
    if text.contains("```") {
        o.counts.push(format!("{}:code-fence", opname));
    }
    o.nontrivial = text.contains('\n') && o.imp.len() > 12;
    o
}


// ---------------------------------------------------------------------------------------------
// (c2) JavaDoc (block-tag loop) and Go (directive handling)
// ---------------------------------------------------------------------------------------------

/// Which characters `JavaDoc::parse` hands to its (private, not injectable) HTML parser: the
/// comment without its delimiters. Only used to tell the model WHICH chunk the recorded HTML
/// tokens belong to; the model computes the chunk itself (`withoutInitiators`) and finds no tokens
/// (a disagreement, never a masked bug) if the two differ.
fn chunk_without_initiators(src: &[char]) -> &[char] {
    let skip = |c: &char| matches!(*c, '#' | '-' | '/' | '*' | '!') || c.is_whitespace();
    let start = src.iter().position(|c| !skip(c)).unwrap_or(src.len());
    let end = src.len() - src.iter().rev().position(|c| !skip(c)).unwrap_or(0);
    if start <= end { &src[start..end] } else { &src[0..0] }
}

pub fn eval_javadoc(text: &str) -> KOut {
    let src: Vec<char> = text.chars().collect();
    let chunk = chunk_without_initiators(&src);
    // data: what harper-html (tree-sitter-html text nodes + PlainEnglish) makes of the chunk
    let html = guarded(|| harper_html::HtmlParser::default().parse(chunk));
    let run = match &html {
        Ok(t) => format!(" | {} ; {}", chars_field(chunk), toks_show(t)),
        Err(_) => String::new(),
    };
    let op = format!("javadoc | {}{}", ws_text_field(&src), run);
    let p = JavaDoc::default();
    let real = guarded(|| p.parse(&src));
    let imp = match &real {
        Ok(t) => ok_toks(t),
        Err(_) => "panic".into(),
    };
    let mut o = kout(op, imp);
    // O: `javadocParse_span_faithful` / `javadocParse_inbounds` on the REAL parser's output
    match (&html, &real) {
        (Ok(h), Ok(t)) => {
            let (a, _) = woi_range(&src);
            if let Err(e) = javadoc_span_oracle(a, h, t) {
                o.fails.push(("javadoc-span-unfaithful".into(), e));
            }
            if inner_ok(chunk.len(), h) {
                if !inner_ok(src.len(), t) {
                    o.fails.push(("javadoc-span-unfaithful".into(), format!("tokens out of bounds / out of order although the HTML parser's were not: {}", toks_show(t))));
                }
            } else {
                o.counts.push("javadoc:html-parser-not-InnerOK".into());
            }
            o.counts.push("javadoc:span-oracle".into());
        }
        (Ok(_), Err(e)) => o.fails.push(("javadoc-span-unfaithful".into(), format!("JavaDoc::parse panicked although the HTML parser did not: {}", trunc(e, 160)))),
        _ => o.counts.push("javadoc:html-parser-panicked".into()),
    }
    o.counts.push("javadoc".into());
    if o.imp.contains("unl@") {
        o.counts.push("javadoc:unlintable-marked".into());
    }
    // the last four tokens are a block tag: the window the loop must not forget
    if let Ok(t) = &html {
        let n = t.len();
        if n >= 4 && t[n - 4].kind.is_at() && t[n - 3].kind.is_word() && t[n - 2].kind.is_space() && t[n - 1].kind.is_word() {
            o.counts.push("javadoc:block-tag-in-last-window".into());
        }
    }
    o.nontrivial = o.imp.contains("unl@") && o.imp.contains("word@");
    o
}

pub fn eval_gopar(inner: InnerKind, text: &str) -> KOut {
    let src: Vec<char> = text.chars().collect();
    fn go<P: Parser + 'static>(rec: Lrc<Recorder<P>>, src: &[char]) -> (Result<Vec<Token>, String>, String) {
        let p = Go::new(rec.clone());
        let r = guarded(|| p.parse(src));
        (r, rec.runs_field())
    }
    let (r, runs) = match inner {
        InnerKind::Spy => go(Lrc::new(Recorder::new(Spy)), &src),
        InnerKind::Plain => go(Lrc::new(Recorder::new(PlainEnglish)), &src),
        InnerKind::Markdown => go(Lrc::new(Recorder::new(Markdown::default())), &src),
    };
    let op = format!("gopar | {}{}", ws_text_field(&src), runs);
    let imp = match r {
        Ok(t) => ok_toks(&t),
        Err(_) => "panic".into(),
    };
    let mut o = kout(op, imp);
    o.counts.push("gopar".into());
    if text.contains("go:") {
        o.counts.push(if o.imp == "panic" { "gopar:directive-panic".into() } else if o.imp == "ok" { "gopar:directive-no-tokens".into() } else { "gopar:directive-tokens".into() });
    }
    o.nontrivial = text.contains("go:") && text.contains('\n');
    o
}

// ---------------------------------------------------------------------------------------------
// (d) Literate Haskell masker
// ---------------------------------------------------------------------------------------------

pub fn eval_lhs(code: bool, text: &str) -> KOut {
    let src: Vec<char> = text.chars().collect();
    let op = format!("lhs {} | {}", if code { "code" } else { "text" }, ws_text_field(&src));
    let masker = if code { LiterateHaskellMasker::code_only() } else { LiterateHaskellMasker::text_only() };
    let imp = match guarded(|| {
        let m = masker.create_mask(&src);
        m.iter_allowed(&src).map(|(s, _)| (s.start, s.end)).collect::<Vec<_>>()
    }) {
        Ok(v) => ok_spans(&v),
        Err(_) => "panic".into(),
    };
    let mut o = kout(op, imp);
    o.counts.push(if code { "lhs:code".into() } else { "lhs:text".into() });
    if o.imp == "panic" {
        o.counts.push("lhs:panic".into());
    }
    o.nontrivial = text.contains('>') || text.contains("\\begin");
    o
}

// ---------------------------------------------------------------------------------------------
// (e) git commit cut
// ---------------------------------------------------------------------------------------------

pub fn eval_gitcut(text: &str) -> KOut {
    let src: Vec<char> = text.chars().collect();
    let op = format!("gitcut | {}", chars_field(&src));
    let rec = Lrc::new(Recorder::new(Spy));
    let p = crate::git_commit_parser::GitCommitParser::new(rec.clone());
    let imp = match guarded(|| p.parse(&src)) {
        Ok(_) => {
            let log = rec.log.lock().unwrap();
            format!("ok {}", log.first().map(|(c, _)| c.len()).unwrap_or(usize::MAX))
        }
        Err(_) => "panic".into(),
    };
    let mut o = kout(op, imp);
    o.counts.push("gitcut".into());
    o.nontrivial = text.contains('#');
    o
}

// ---------------------------------------------------------------------------------------------
// (f) OffsetCursor::push_to, Markdown traversed_bytes / traversed_chars
// ---------------------------------------------------------------------------------------------

pub fn eval_cursor(text: &str, pushes: &[usize]) -> KOut {
    let op = format!("cursor | {} | {}", bytes_field(text), pushes.iter().map(|p| p.to_string()).collect::<Vec<_>>().join(" "));
    let doc = typst_syntax::Source::detached(text.to_string());
    let imp = match guarded(|| {
        let mut c = OffsetCursor::new(&doc);
        let mut out = vec![];
        for p in pushes {
            c = c.push_to(*p);
            out.push(format!("{}:{}", c.char, c.byte));
        }
        out
    }) {
        Ok(v) => format!("ok {}", v.join(" ")).trim_end().to_string(),
        Err(_) => "panic".into(),
    };
    let mut o = kout(op, imp);
    o.counts.push(if o.imp == "panic" { "cursor:panic".into() } else { "cursor:ok".into() });
    o.nontrivial = !text.is_ascii() && !pushes.is_empty();
    o
}

/// The model is given every pulldown-cmark event's `range.start`; for the events the Markdown
/// parser turns into one `Unlintable` token at `traversed_chars` (inline code, math, html, text of
/// a code block) the model's span is compared with the real parser's Unlintable tokens.
pub fn eval_mdtrav(text: &str) -> KOut {
    use pulldown_cmark::{Event, Options, Tag};
    let src: Vec<char> = text.chars().collect();
    let mut evs: Vec<String> = vec![];
    let mut stack: Vec<Tag> = vec![];
    let md = pulldown_cmark::Parser::new_ext(text, Options::all().difference(Options::ENABLE_SMART_PUNCTUATION));
    let mut monotone = true;
    let mut boundary = true;
    let mut last = 0usize;
    for (event, range) in md.into_offset_iter() {
        boundary &= text.is_char_boundary(range.start) && text.is_char_boundary(range.end);
        let (len, sel) = match &event {
            Event::Start(t) => {
                stack.push(t.clone());
                (0, 0)
            }
            Event::End(_) => {
                stack.pop();
                (0, 0)
            }
            Event::InlineMath(c) | Event::DisplayMath(c) | Event::Code(c) => (c.chars().count(), 1),
            Event::Html(c) | Event::InlineHtml(c) => (c.chars().count(), 1),
            Event::Text(c) => {
                if matches!(stack.last(), Some(Tag::CodeBlock(..))) { (c.chars().count(), 1) } else { (0, 0) }
            }
            _ => (0, 0),
        };
        if range.start < last {
            monotone = false;
        }
        last = last.max(range.start);
        evs.push(format!("{}:{}:{}", range.start, len, sel));
    }
    let op = format!("mdtrav | {} | {}", bytes_field(text), evs.join(" "));
    let imp = match guarded(|| Markdown::default().parse(&src)) {
        Ok(toks) => {
            let v: Vec<String> = toks.iter().filter(|t| t.kind == TokenKind::Unlintable).map(|t| format!("{}-{}", t.span.start, t.span.end)).collect();
            format!("ok {}", v.join(" ")).trim_end().to_string()
        }
        Err(_) => "panic".into(),
    };
    let mut o = kout(op, imp);
    o.counts.push("mdtrav".into());
    o.counts.push(format!("monitor:pulldown ranges on char boundaries:{}", boundary));
    let _ = monotone;
    o.nontrivial = !text.is_ascii() && o.imp.len() > 3;
    o
}

// ---------------------------------------------------------------------------------------------
// streams
// ---------------------------------------------------------------------------------------------

enum Job {
    CMask(&'static str, usize, String),
    TsMask(&'static str, usize, String),
    Mws(String, Vec<(usize, usize)>),
    MaskParse(String, Vec<(usize, usize)>),
    Unit(bool, InnerKind, String),
    JavaDoc(String),
    GoPar(InnerKind, String),
    Lhs(bool, String),
    GitCut(String),
    Cursor(String, Vec<usize>),
    MdTrav(String),
}

fn run_job(j: &Job, markers: &[String]) -> KOut {
    match j {
        Job::CMask(l, c, t) => eval_cmask(l, *c, t, markers),
        Job::TsMask(l, c, t) => eval_tsmask(l, *c, t),
        Job::Mws(t, s) => eval_mws(t, s),
        Job::MaskParse(t, s) => eval_maskparse(t, s),
        Job::Unit(js, k, t) => eval_unit(*js, *k, t),
        Job::JavaDoc(t) => eval_javadoc(t),
        Job::GoPar(k, t) => eval_gopar(*k, t),
        Job::Lhs(c, t) => eval_lhs(*c, t),
        Job::GitCut(t) => eval_gitcut(t),
        Job::Cursor(t, p) => eval_cursor(t, p),
        Job::MdTrav(t) => eval_mdtrav(t),
    }
}

fn job_json(j: &Job) -> Value {
    match j {
        Job::CMask(l, c, t) => json!({"kop": "cmask", "lang": l, "cond": c, "text": t}),
        Job::TsMask(l, c, t) => json!({"kop": "tsmask", "lang": l, "cond": c, "text": t}),
        Job::Mws(t, s) => json!({"kop": "mws", "text": t, "spans": s}),
        Job::MaskParse(t, s) => json!({"kop": "maskparse", "text": t, "spans": s}),
        Job::Unit(js, k, t) => json!({"kop": if *js { "jsdoc" } else { "unit" }, "inner": match k { InnerKind::Spy => "spy", InnerKind::Plain => "plain", InnerKind::Markdown => "markdown" }, "text": t}),
        Job::JavaDoc(t) => json!({"kop": "javadoc", "text": t}),
        Job::GoPar(_, t) => json!({"kop": "gopar", "text": t}),
        Job::Lhs(c, t) => json!({"kop": "lhs", "code": c, "text": t}),
        Job::GitCut(t) => json!({"kop": "gitcut", "text": t}),
        Job::Cursor(t, p) => json!({"kop": "cursor", "text": t, "pushes": p}),
        Job::MdTrav(t) => json!({"kop": "mdtrav", "text": t}),
    }
}

/// all strings of length 0..=maxlen over `alpha` (pieces may be multi-character)
fn all_strings(alpha: &[&str], maxlen: usize) -> Vec<String> {
    let mut out = vec![String::new()];
    let mut frontier = vec![String::new()];
    for _ in 0..maxlen {
        let mut next = vec![];
        for s in &frontier {
            for a in alpha {
                next.push(format!("{}{}", s, a));
            }
        }
        out.extend(next.iter().cloned());
        frontier = next;
    }
    out
}

/// all lists of ≤ `maxn` well-formed spans with endpoints ≤ `maxe`
fn all_span_lists(maxe: usize, maxn: usize) -> Vec<Vec<(usize, usize)>> {
    let mut spans = vec![];
    for a in 0..=maxe {
        for b in a..=maxe {
            spans.push((a, b));
        }
    }
    let mut out: Vec<Vec<(usize, usize)>> = vec![vec![]];
    let mut frontier: Vec<Vec<(usize, usize)>> = vec![vec![]];
    for _ in 0..maxn {
        let mut next = vec![];
        for l in &frontier {
            for s in &spans {
                let mut l2 = l.clone();
                l2.push(*s);
                next.push(l2);
            }
        }
        out.extend(next.iter().cloned());
        frontier = next;
    }
    out
}

fn random_spans(rng: &mut Rng, len: usize, sorted: bool) -> Vec<(usize, usize)> {
    let n = rng.range(0, 5);
    let mut pts: Vec<usize> = (0..2 * n).map(|_| rng.below(len + 1)).collect();
    if sorted || rng.chance(4, 5) {
        pts.sort();
    }
    let mut v = vec![];
    for k in 0..n {
        let (a, b) = (pts[2 * k], pts[2 * k + 1]);
        v.push((a.min(b), a.max(b)));
    }
    v
}

fn hostile_text(rng: &mut Rng, maxlen: usize) -> String {
    let n = rng.range(0, maxlen);
    let mut s = String::new();
    for _ in 0..n {
        match rng.below(8) {
            0 => s.push_str(*rng.pick(cgen::HOSTILE)),
            1 => s.push('\n'),
            2 | 3 => s.push(' '),
            4 => s.push(*rng.pick(&['/', '*', '#', '-', '!', '`', '>', '{', '}', '@', '\t', '\r', '\u{a0}'])),
            _ => s.push_str(*rng.pick(cgen::WORDS)),
        }
    }
    s
}

fn comment_text(rng: &mut Rng) -> String {
    // the text of one (merged) comment as the comment parsers receive it
    let lines = rng.range(1, 5);
    let mut s = String::new();
    for i in 0..lines {
        if i > 0 {
            s.push_str(if rng.chance(1, 6) { "\r\n" } else { "\n" });
        }
        s.push_str(*rng.pick(&["", " ", "  ", "\t", "   "]));
        s.push_str(*rng.pick(&["//", "///", "//!", "/*", "/**", " *", "*", "#", "--", "", "*/", "##"]));
        s.push_str(*rng.pick(&["", " ", "  "]));
        match rng.below(10) {
            0 => s.push_str("```"),
            1 => s.push_str("```rust"),
            2 => s.push_str(&format!("{{@link {}}} {}", rng.pick(&["Fóo", "Bar"]), rng.pick(cgen::WORDS))),
            3 => s.push_str(&format!("@param {} {}", rng.pick(&["zqé", "x"]), rng.pick(cgen::WORDS))),
            4 => s.push_str(&format!("{} {{@link", rng.pick(cgen::WORDS))),
            5 => s.push_str(&format!("`{}` {}", cgen::codeish(rng), rng.pick(cgen::WORDS))),
            6 => {}
            _ => {
                let n = rng.range(1, 4);
                for k in 0..n {
                    if k > 0 {
                        s.push(' ');
                    }
                    s.push_str(*rng.pick(cgen::WORDS));
                }
                if rng.chance(1, 4) {
                    s.push_str(&format!(" {}", cgen::hostile(rng)));
                }
            }
        }
        if rng.chance(1, 5) {
            s.push_str(*rng.pick(&[" */", "*/", " ", " -", " #"]));
        }
    }
    s
}

/// the text of one Java doc comment: block tags and inline tags at every position
fn javadoc_text(rng: &mut Rng) -> String {
    let mut s = String::from(*rng.pick(&["/**", "/** ", "/*", "//", ""]));
    let lines = rng.range(1, 4);
    for i in 0..lines {
        if i > 0 || rng.chance(1, 2) {
            s.push_str(*rng.pick(&["\n * ", "\n   * ", "\n", "\r\n * ", "\n *"]));
        }
        let items = rng.range(1, 3);
        for k in 0..items {
            if k > 0 {
                s.push(' ');
            }
            match rng.below(9) {
                0 | 1 => s.push_str(&format!("{} {}", rng.pick(&["@param", "@throws", "@see", "@return"]), rng.pick(&["zqx", "IOException", "Reader", "fóo"]))),
                2 => s.push_str(*rng.pick(&["@deprecated", "@", "@ x", "@return"])),
                3 => s.push_str(&format!("{{@link {}}}", rng.pick(&["Fóo", "Bar#baz"]))),
                4 => s.push_str(*rng.pick(&["{@code x}", "{@link Foo", "{@", "}"])),
                5 => s.push_str(*rng.pick(&["<p>", "</p>", "<b>x</b>", "&amp;", "<code>é</code>"])),
                6 => s.push_str(&cgen::hostile(rng)),
                _ => {
                    let n = rng.range(1, 3);
                    for j in 0..n {
                        if j > 0 {
                            s.push(' ');
                        }
                        s.push_str(*rng.pick(cgen::WORDS));
                    }
                }
            }
        }
    }
    s.push_str(*rng.pick(&["\n */", " */", "*/", "", "\n"]));
    s
}

/// the text of one (merged) Go comment block, often starting with a directive
fn go_text(rng: &mut Rng) -> String {
    let mut s = String::from(*rng.pick(&["//go:", "// go:", "//go:generate ", "/*go:", "//go:build linux", "//"]));
    s.push_str(*rng.pick(&["", "x", "zqtool -x wörd", " "]));
    let lines = rng.range(0, 3);
    for _ in 0..lines {
        s.push_str(*rng.pick(&["\n", "\r\n"]));
        s.push_str(*rng.pick(&["//", "// ", "", "//\t", " * "]));
        match rng.below(4) {
            0 => {}
            1 => s.push_str(&cgen::hostile(rng)),
            _ => {
                s.push_str(*rng.pick(cgen::WORDS));
                s.push(' ');
                s.push_str(*rng.pick(cgen::WORDS));
            }
        }
    }
    s.push_str(*rng.pick(&["", "", "\n", " */"]));
    s
}

fn lhs_text(rng: &mut Rng) -> String {
    let lines = rng.range(0, 8);
    let mut s = String::new();
    for i in 0..lines {
        if i > 0 {
            s.push_str(if rng.chance(1, 8) { "\r\n" } else { "\n" });
        }
        match rng.below(10) {
            0 | 1 => {}
            2 => s.push_str("\\begin{code}"),
            3 => s.push_str("\\end{code}"),
            4 => s.push_str(*rng.pick(&[">", "> ", ">x", " >", ">  é"])),
            5 => s.push_str(&format!("> {} = \"{}\"", cgen::ident(rng), cgen::hostile(rng))),
            6 => s.push_str(*rng.pick(&[" ", "\t", "  \\begin{code}  ", "\\end{code} ", "\u{a0}"])),
            _ => s.push_str(&format!("{} {}", rng.pick(cgen::WORDS), cgen::hostile(rng))),
        }
    }
    s
}

pub fn replay(sess: &mut Session, v: &Value) {
    let text = v["text"].as_str().unwrap_or("").to_string();
    let spans: Vec<(usize, usize)> = v["spans"].as_array().map(|a| a.iter().map(|p| (p[0].as_u64().unwrap_or(0) as usize, p[1].as_u64().unwrap_or(0) as usize)).collect()).unwrap_or_default();
    let inner = match v["inner"].as_str() {
        Some("plain") => InnerKind::Plain,
        Some("markdown") => InnerKind::Markdown,
        _ => InnerKind::Spy,
    };
    let job = match v["kop"].as_str().unwrap_or("") {
        "cmask" => Job::CMask(if v["lang"].as_str() == Some("rust") { "rust" } else { "html" }, v["cond"].as_u64().unwrap_or(0) as usize, text),
        "tsmask" => Job::TsMask(if v["lang"].as_str() == Some("rust") { "rust" } else { "html" }, v["cond"].as_u64().unwrap_or(0) as usize, text),
        "mws" => Job::Mws(text, spans),
        "maskparse" => Job::MaskParse(text, spans),
        "unit" => Job::Unit(false, inner, text),
        "jsdoc" => Job::Unit(true, inner, text),
        "javadoc" => Job::JavaDoc(text),
        "gopar" => Job::GoPar(inner, text),
        "lhs" => Job::Lhs(v["code"].as_bool().unwrap_or(false), text),
        "gitcut" => Job::GitCut(text),
        "cursor" => Job::Cursor(text, v["pushes"].as_array().map(|a| a.iter().map(|p| p.as_u64().unwrap_or(0) as usize).collect()).unwrap_or_default()),
        _ => Job::MdTrav(text),
    };
    let o = run_job(&job, &cgen::ignore_markers());
    let case = sess.k(&o.op, &o.imp);
    for (class, desc) in o.fails {
        sess.fail(&class, desc, job_json(&job), Some(case));
    }
}

pub fn run(ctx: &Ctx, sess: &mut Session, rng: &mut Rng) {
    let thorough = ctx.tier == Tier::Thorough;
    let mut jobs: Vec<Job> = vec![];

    // ---- corpus ---------------------------------------------------------------------------
    for t in ["<p>héllo <b>wörld</b> 😀</p>", "<a title=\"é\">x</a>\n\n<i>y</i>", "a<b>c", "😀", ""] {
        for c in 0..CONDS.len() {
            jobs.push(Job::TsMask("html", c, t.to_string()));
        }
    }
    for t in ["// é one\n// two\nfn f() { let s = \"😀\"; } // three\n", "/* a /* b */ c */ fn g() {}", "fn f() {} /// é"] {
        for c in 0..CONDS.len() {
            jobs.push(Job::TsMask("rust", c, t.to_string()));
        }
    }
    // CommentMasker: every marker spelling (regenerated from masker.rs ∪ committed list) and near-misses,
    // in line / block / doc comments, merged and unmerged neighbours, HTML text and comments; `#!` spans
    let markers = cgen::ignore_markers();
    let near: Vec<String> = [
        "spellchecker :ignore", "Harper:ignore", "harper:Ignore", "harper:  ignore", "harper:\tignore", "harper:\u{a0}ignore", "spell-check:ignore",
        "spell-check: ignore", "harper-ignore", "harper:ignor", "arper:ignore", "harper:ign ore", "spellchecker:ignoré", "ｈarper:ignore", "harper;ignore",
        "spellcheck ignore", "harper:", "ignore", "harper:\nignore",
    ]
    .iter()
    .map(|s| s.to_string())
    .collect();
    for m in markers.iter().chain(near.iter()) {
        for t in [
            format!("// {} zqx\nfn f() {{}}\n// kept wörd\n", m),
            format!("/* é {} */ fn f() {{}} /* kept */", m),
            format!("// a\n// {}\n// b\nfn f() {{}}\n// c 😀", m),
            format!("fn f() {{}} // x{}y\n\n/// doc é\nfn g() {{}}", m),
            format!("//{}", m),
            format!("let s = \"{}\"; // kept", m),
        ] {
            for c in [1usize, 2, 3, 4] {
                jobs.push(Job::CMask("rust", c, t.clone()));
            }
        }
        for t in [format!("<p>{} é</p><b>kept</b>", m), format!("<!-- {} --><p>x</p>", m), format!("{}", m), format!("<p>a</p> {} <i>b</i>", m)] {
            for c in [0usize, 1, 2, 4] {
                jobs.push(Job::CMask("html", c, t.clone()));
            }
        }
    }
    for t in ["#![allow(x)]\n// a", "#!/usr/bin/env zqrun\n// a\nfn f() {}", "//#!x", "// #!x", "#![a]", "# ![a]\n//b", "#!", "fn f() {} //! x\n#!"] {
        for c in 1..CONDS.len() {
            jobs.push(Job::CMask("rust", c, t.to_string()));
        }
    }
    for t in ["#!é <b>x</b>", "<p>#!x</p>", "<p> #!x</p>", "#", "!#x", "#!", "a #!x", "<p>#</p><p>!x</p>", "<!--#!x--><p>y</p>"] {
        for c in 0..CONDS.len() {
            jobs.push(Job::CMask("html", c, t.to_string()));
        }
    }
    jobs.push(Job::Mws("word word\nword".into(), vec![(0, 4), (5, 9), (10, 14)]));
    jobs.push(Job::Mws("ab".into(), vec![(0, 1), (0, 1)]));
    jobs.push(Job::Mws("ab".into(), vec![(1, 2), (0, 1)]));
    jobs.push(Job::MaskParse("é one\ncode 😀\ntwo".into(), vec![(0, 5), (14, 17)]));
    for t in ["///", "///   ", "/** This should _not_cause an infinite loop: {@ */", "/** See {@link MyClass} and [MyClass's foo property]{@link MyClass#foo}. */", "/** @class Circle representing a circle. */", "{@link", "{@link a", "{@a}{@b c}", "// a\n// ```\n// code\n// ```\n// b"] {
        for k in [InnerKind::Spy, InnerKind::Plain, InnerKind::Markdown] {
            jobs.push(Job::Unit(false, k, t.to_string()));
            jobs.push(Job::Unit(true, k, t.to_string()));
        }
    }
    for t in [
        "/** @see Reader */", "/**\n * the fox\n * @throws IOException\n */", "/**\n * @param zqx the value\n * @return the value\n */", "/** @deprecated */",
        "/**\n * {@code x} the {@link Foo} fox\n * see {@link Foo\n */", "@a b", "@a b c", "x @a b", "@a b @c d", "@a  b", "@a\n * b", "/** <p>the @see Reader</p> */",
    ] {
        jobs.push(Job::JavaDoc(t.to_string()));
    }
    for t in ["//go:x\n//", "//go:generate zq", "//go:build linux\n// the fox", "// the fox\n//go:generate x", "/* go:x\n y */", "//go:x\n", "//go:\n\n//", "go:x\ny"] {
        for k in [InnerKind::Spy, InnerKind::Plain, InnerKind::Markdown] {
            jobs.push(Job::GoPar(k, t.to_string()));
        }
    }
    for t in [
        ">", "> ", ">\n", "a\n\n>\n\nb", "Text here\n\n> fact :: Integer -> Integer\n> fact 0 = 1\n\nText here\n",
        "Text here\n\\begin{code}\nmain :: IO ()\n\\end{code}\nText here\n", "\\begin{code}\na\n\nb\n\\end{code}\n", "é\n\n> 😀\n",
    ] {
        jobs.push(Job::Lhs(false, t.to_string()));
        jobs.push(Job::Lhs(true, t.to_string()));
    }
    for t in ["", "#", "abc", "a#b#c", "é😀#x", "no hash é"] {
        jobs.push(Job::GitCut(t.to_string()));
    }
    jobs.push(Job::Cursor("aé😀".into(), vec![1, 3, 3, 7]));
    jobs.push(Job::Cursor("aé".into(), vec![2]));
    jobs.push(Job::Cursor("aé".into(), vec![3, 1]));
    jobs.push(Job::Cursor("aé".into(), vec![4]));
    for t in ["é `x😀` y `z`\n\n```\ncödé\n```\n", "$é$ a <b>ü</b> `c`", "- é\n  - `😀`\n\n> q `é`\n", "a&amp;é `c`"] {
        jobs.push(Job::MdTrav(t.to_string()));
    }
    let n_corpus = jobs.len();

    // ---- exhaustive small scope -----------------------------------------------------------
    // Mask: every list of ≤3 well-formed spans with endpoints ≤4 (any order) over two texts
    for l in all_span_lists(4, if thorough { 3 } else { 3 }) {
        jobs.push(Job::Mws("a b\n".into(), l.clone()));
        if l.len() <= 2 {
            jobs.push(Job::Mws("é  x".into(), l.clone()));
            jobs.push(Job::MaskParse("a\n é".into(), l));
        }
    }
    // CommentMasker: a few comment pieces × marker pieces — every Rust text of ≤5 (quick) / ≤6 (thorough)
    // pieces, node condition `comment`; every HTML text of ≤4 / ≤5 pieces, node condition `text`
    for t in all_strings(&["//", "harper:", "ignore", " ", "\n", "a", "x;"], if thorough { 6 } else { 5 }) {
        jobs.push(Job::CMask("rust", 1, t));
    }
    for t in all_strings(&["#!", "harper:", " ignore", "<b>", "a", "\n", " "], if thorough { 5 } else { 4 }) {
        jobs.push(Job::CMask("html", 0, t));
    }
    // Unit / JsDoc with the spy: every text of ≤5 (quick) / ≤6 (thorough) pieces
    let unit_alpha = ["a", "/", "*", " ", "\n", "```"];
    for t in all_strings(&unit_alpha, if thorough { 6 } else { 5 }) {
        jobs.push(Job::Unit(false, InnerKind::Spy, t));
    }
    // JsDoc inline tags with the real plain-English inner parser
    let js_alpha = ["{", "@", "a", "}", " ", "\n", "*"];
    for t in all_strings(&js_alpha, if thorough { 6 } else { 5 }) {
        jobs.push(Job::Unit(true, InnerKind::Plain, t));
    }
    // JavaDoc block tags: every text of ≤5 (quick) / ≤6 (thorough) pieces over `@ a space newline * { }`
    // — every position of an `@a a` window, the last one included
    for t in all_strings(&["@", "a", " ", "\n", "*", "{", "}"], if thorough { 6 } else { 5 }) {
        jobs.push(Job::JavaDoc(t));
    }
    // Go directives: every text of ≤5 (quick) / ≤6 (thorough) pieces
    for t in all_strings(&["//", "go:", "a", " ", "\n", "*"], if thorough { 6 } else { 5 }) {
        jobs.push(Job::GoPar(InnerKind::Spy, t));
    }
    // Literate Haskell: every list of ≤4 (quick) / ≤5 (thorough) lines
    let lhs_lines = ["", ">", "> x", "x", "\\begin{code}", "\\end{code}", " ", ">é"];
    {
        let mut lists: Vec<Vec<&str>> = vec![vec![]];
        let mut frontier: Vec<Vec<&str>> = vec![vec![]];
        for _ in 0..(if thorough { 5 } else { 4 }) {
            let mut next = vec![];
            for l in &frontier {
                for a in lhs_lines {
                    let mut l2 = l.clone();
                    l2.push(a);
                    next.push(l2);
                }
            }
            lists.extend(next.iter().cloned());
            frontier = next;
        }
        for l in lists {
            let t = l.join("\n");
            jobs.push(Job::Lhs(false, t.clone()));
            jobs.push(Job::Lhs(true, t));
        }
    }
    // OffsetCursor: every text of ≤3 characters over {a, é, 😀} × every sequence of ≤2 pushes
    for t in all_strings(&["a", "é", "😀"], 3) {
        let n = t.len();
        for p1 in 0..=n + 1 {
            jobs.push(Job::Cursor(t.clone(), vec![p1]));
            for p2 in 0..=n + 1 {
                jobs.push(Job::Cursor(t.clone(), vec![p1, p2]));
            }
        }
    }
    for t in all_strings(&["a", "#", "é", "\n"], 4) {
        jobs.push(Job::GitCut(t));
    }
    let n_exh = jobs.len();

    // ---- structured random ------------------------------------------------------------------
    let n = if thorough { 20000 } else { 3000 };
    let rust = cgen::comment_lang("rust").unwrap();
    // (its own generator, derived from the seed: the draws of the streams below — and of the O part,
    // which forks from `rng` after K — stay what they were before this stream existed)
    let rng_main = rng;
    let mut rng_cm = Rng::new(ctx.seed ^ 0x636d_6173_6b);
    let rng = &mut rng_cm;
    for i in 0..n / 2 {
        // CommentMasker: generated Rust files (the generator plants ignore markers) / HTML with a marker
        // or a near-miss planted at a random character boundary; every node condition
        let (lang, mut text) = if i % 3 != 0 { ("rust", cgen::gen_comment_file(rng, &rust, &markers).text) } else { ("html", cgen::gen_html(rng).text) };
        if lang == "html" || rng.chance(1, 3) {
            let m = if rng.chance(2, 3) { rng.pick(&markers).clone() } else if rng.chance(1, 2) { rng.pick(&near).clone() } else { "#!".to_string() };
            let mut at = rng.below(text.len() + 1);
            while !text.is_char_boundary(at) {
                at -= 1;
            }
            text.insert_str(at, &m);
        }
        let text = if rng.chance(1, 6) { crate::textgen::mutate(rng, &text) } else { text };
        jobs.push(Job::CMask(lang, if rng.chance(1, 2) { 1 } else { i % CONDS.len() }, text));
    }
    let rng = rng_main;
    for i in 0..n {
        // tree-sitter: generated HTML / Rust files (multi-byte content), every node condition
        let (lang, text) = if i % 2 == 0 { ("html", cgen::gen_html(rng).text) } else { ("rust", cgen::gen_comment_file(rng, &rust, &markers).text) };
        let text = if rng.chance(1, 5) { crate::textgen::mutate(rng, &text) } else { text };
        jobs.push(Job::TsMask(lang, i % CONDS.len(), text));
    }
    for _ in 0..n {
        let t = hostile_text(rng, 12);
        let len = t.chars().count();
        jobs.push(Job::Mws(t.clone(), random_spans(rng, len, false)));
        jobs.push(Job::MaskParse(t, random_spans(rng, len, true)));
    }
    for i in 0..n {
        let t = comment_text(rng);
        let k = match i % 3 { 0 => InnerKind::Markdown, 1 => InnerKind::Plain, _ => InnerKind::Spy };
        jobs.push(Job::Unit(i % 2 == 0, k, t));
    }
    for i in 0..n {
        jobs.push(Job::Lhs(i % 3 == 0, lhs_text(rng)));
    }
    for i in 0..n {
        jobs.push(Job::JavaDoc(javadoc_text(rng)));
        let t = if i % 2 == 0 { go_text(rng) } else { comment_text(rng) };
        jobs.push(Job::GoPar(match i % 3 { 0 => InnerKind::Markdown, 1 => InnerKind::Plain, _ => InnerKind::Spy }, t));
    }
    for _ in 0..n / 4 {
        jobs.push(Job::GitCut(cgen::gen_git_commit(rng, false).text));
        let t = hostile_text(rng, 8);
        let len = t.len();
        let k = rng.range(0, 5);
        let mut ps: Vec<usize> = (0..k).map(|_| rng.below(len + 2)).collect();
        if rng.chance(3, 4) {
            ps.sort();
        }
        jobs.push(Job::Cursor(t, ps));
    }
    for _ in 0..n {
        jobs.push(Job::MdTrav(cgen::gen_markdown(rng, false).text));
    }

    let outs = par_map(jobs.len(), 16, |i| run_job(&jobs[i], &markers));
    for (i, o) in outs.into_iter().enumerate() {
        let case = sess.k(&o.op, &o.imp);
        for (class, desc) in &o.fails {
            sess.fail(class, desc.clone(), job_json(&jobs[i]), Some(case));
        }
        sess.count(if i < n_corpus { "k-stream:corpus" } else if i < n_exh { "k-stream:exhaustive" } else { "k-stream:random" });
        for c in &o.counts {
            if let Some(rest) = c.strip_prefix("monitor:") {
                let (name, held) = rest.rsplit_once(':').unwrap_or((rest, "true"));
                sess.monitor(name, held == "true");
            } else {
                sess.count(c);
            }
        }
        if o.nontrivial {
            sess.nontrivial(&o.op);
        }
    }
}
