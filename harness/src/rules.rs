//! Concrete rules against `lean/Harper/Model/Rules.lean` (called from c12.rs and c03.rs).
//!
//! Each REAL rule is run ALONE (the rule struct itself) on `Document::new(text, &PlainEnglish, curated)`.
//! K: op `rule <Name> | text | ext | numbers | words | chars` — the model computes its own `document`
//!    and the rule; lints are compared exactly (order, span, message code + argument, suggestions).
//!    `rulemo`: `ModalOf::match_to_lint` directly on every match of the real pattern.
//! O: every lint `start ≤ end ≤ len`; no rule panics; paragraph locality of every modelled rule on
//!    (P, D) pairs: `lint(P+D) = lint(P) ++ shift(lint(D), |P|)`, exactly and in order.
//! What the model takes as data besides the text: per distinct Number token text its `to_string()` and
//! value, per distinct Word token text its metadata bits, per distinct character its case data
//! (monitor: these are functions of the token TEXT — the same text never carries two different data).
use crate::common::*;
use crate::corpus;
use crate::tokfmt::*;
use harper_core::linting::{
    AnA, CorrectNumberSuffix, CurrencyPlacement, EllipsisLength, Lint, LintKind, Linter, LongSentences, ModalOf, NumberSuffixCapitalization, PatternLinter,
    RepeatedWords, SentenceCapitalization, Spaces, Suggestion, UnclosedQuotes,
};
use harper_core::parsers::{Markdown, PlainEnglish};
use harper_core::{Document, FstDictionary, Token, TokenKind, TokenStringExt};
use serde_json::{Value, json};
use std::cell::RefCell;
use std::collections::BTreeMap;

pub const RULES: [(&str, &str); 11] = [
    ("CurrencyPlacement", "currency_placement.rs"),
    ("LongSentences", "long_sentences.rs"),
    ("Spaces", "spaces.rs"),
    ("RepeatedWords", "repeated_words.rs"),
    ("UnclosedQuotes", "unclosed_quotes.rs"),
    ("EllipsisLength", "ellipsis_length.rs"),
    ("NumberSuffixCapitalization", "number_suffix_capitalization.rs"),
    ("CorrectNumberSuffix", "correct_number_suffix.rs"),
    ("ModalOf", "modal_of.rs"),
    ("AnA", "an_a.rs"),
    ("SentenceCapitalization", "sentence_capitalization.rs"),
];

thread_local! { static MODAL: RefCell<Option<ModalOf>> = RefCell::new(None); }

fn with_modal<T>(f: impl FnOnce(&mut ModalOf) -> T) -> T {
    MODAL.with(|m| {
        let mut m = m.borrow_mut();
        if m.is_none() {
            *m = Some(ModalOf::default());
        }
        f(m.as_mut().unwrap())
    })
}

/// the real rule, alone
pub fn run_rule(rule: &str, doc: &Document) -> Vec<Lint> {
    match rule {
        "LongSentences" => LongSentences.lint(doc),
        "CurrencyPlacement" => CurrencyPlacement::default().lint(doc),
        "Spaces" => Spaces.lint(doc),
        "RepeatedWords" => RepeatedWords::default().lint(doc),
        "EllipsisLength" => EllipsisLength.lint(doc),
        "NumberSuffixCapitalization" => NumberSuffixCapitalization.lint(doc),
        "CorrectNumberSuffix" => CorrectNumberSuffix.lint(doc),
        "UnclosedQuotes" => UnclosedQuotes.lint(doc),
        "ModalOf" => with_modal(|m| m.lint(doc)),
        "AnA" => AnA.lint(doc),
        "SentenceCapitalization" => SentenceCapitalization::new(dict(), harper_core::Dialect::American).lint(doc),
        _ => panic!("unknown rule {}", rule),
    }
}

fn cps(cs: &[char]) -> String {
    if cs.is_empty() { "-".to_string() } else { cs.iter().map(|c| (*c as u32).to_string()).collect::<Vec<_>>().join(".") }
}

/// message code + numeric argument; lint kind and priority are part of the code (0 = not a lint the model knows)
fn msg_code(l: &Lint) -> (u32, u64) {
    let m = l.message.as_str();
    let k = l.lint_kind;
    let p = l.priority;
    if k == LintKind::Readability && p == 127 {
        if let Some(n) = m.strip_prefix("This sentence is ").and_then(|r| r.strip_suffix(" words long.")).and_then(|n| n.parse::<u64>().ok()) {
            return (1, n);
        }
    }
    if k == LintKind::Formatting && p == 63 && m == "The position of the currency symbol matters." {
        return (2, 0);
    }
    if k == LintKind::Formatting && p == 15 {
        if let Some(n) = m.strip_prefix("There are ").and_then(|r| r.strip_suffix(" spaces where there should be only one.")).and_then(|n| n.parse::<u64>().ok()) {
            return (3, n);
        }
    }
    if k == LintKind::Formatting && p == 63 && m == "Unnecessary space at the end of the sentence." {
        return (4, 0);
    }
    if k == LintKind::Repetition && p == 127 && m == "Did you mean to repeat this word?" {
        return (5, 0);
    }
    if k == LintKind::Formatting && p == 31 && m == "Horizontal ellipsis must have 3 dots." {
        return (6, 0);
    }
    if k == LintKind::Capitalization && p == 127 && m == "This suffix should be lowercase" {
        return (7, 0);
    }
    if k == LintKind::Formatting && p == 255 && m == "This quote has no termination." {
        return (8, 0);
    }
    if k == LintKind::Miscellaneous && p == 127 && m == "This number needs a different suffix to sound right." {
        return (9, 0);
    }
    if k == LintKind::WordChoice && p == 126 && m == "Use `have` rather than `of` here." {
        return (10, 0);
    }
    if k == LintKind::Miscellaneous && p == 31 && m == "Incorrect indefinite article." {
        return (11, 0);
    }
    if k == LintKind::Capitalization && p == 31 && m == "This sentence does not start with a capital letter" {
        return (12, 0);
    }
    (0, 0)
}

fn show_lint(l: &Lint) -> String {
    let (code, arg) = msg_code(l);
    let sg = if l.suggestions.is_empty() {
        "-".to_string()
    } else {
        l.suggestions
            .iter()
            .map(|s| match s {
                Suggestion::ReplaceWith(cs) => format!("R{}", cps(cs)),
                Suggestion::Remove => "X".to_string(),
                Suggestion::InsertAfter(cs) => format!("I{}", cps(cs)),
            })
            .collect::<Vec<_>>()
            .join(",")
    };
    format!("{}:{}:{}:{}:{}", l.span.start, l.span.end, code, arg, sg)
}

fn show_lints(ls: &[Lint]) -> String {
    let mut s = String::from("ok");
    for l in ls {
        s.push(' ');
        s.push_str(&show_lint(l));
    }
    s
}

fn word_flags(k: &TokenKind) -> u32 {
    (k.is_preposition() as u32)
        | (k.is_conjunction() as u32) << 1
        | (k.is_likely_homograph() as u32) << 2
        | (k.is_adjective() as u32) << 3
        | (k.is_determiner() as u32) << 4
        | (k.is_proper_noun() as u32) << 5
        | (matches!(k, TokenKind::Word(Some(m)) if m.is_nominal()) as u32) << 6
        | (matches!(k, TokenKind::Word(Some(m)) if m.is_verb()) as u32) << 7
}

/// the three data groups; `Err` = the data is not a function of the token text (monitor)
fn env_fields(doc: &Document) -> (String, String, String, bool) {
    let src = doc.get_source();
    let mut nums: BTreeMap<Vec<char>, String> = BTreeMap::new();
    let mut words: BTreeMap<Vec<char>, (u32, Option<Vec<char>>)> = BTreeMap::new();
    let d = dict();
    let mut extra_chars: Vec<char> = vec![];
    let mut functional = true;
    for t in doc.get_tokens() {
        let (s, e) = (t.span.start.min(src.len()), t.span.end.min(src.len()));
        if s > e {
            continue;
        }
        let text: Vec<char> = src[s..e].to_vec();
        match &t.kind {
            TokenKind::Number(n) => {
                let disp: Vec<char> = n.to_string().chars().collect();
                let v: f64 = n.value.into();
                let val = if v < 0.0 || v - v.floor() > f64::EPSILON || v > u64::MAX as f64 || v.is_nan() { "x".to_string() } else { format!("i{}", v as u64) };
                let entry = format!("{}/{}/{}", cps(&text), cps(&disp), val);
                if let Some(old) = nums.get(&text) {
                    // the suffix is part of the text, so equal texts have equal data
                    if *old != entry {
                        functional = false;
                    }
                } else {
                    nums.insert(text, entry);
                }
            }
            TokenKind::Word(_) => {
                let f = word_flags(&t.kind);
                if let Some(old) = words.get(&text) {
                    if old.0 != f {
                        functional = false;
                    }
                } else {
                    use harper_core::Dictionary;
                    let canon = d.get_correct_capitalization_of(&text).map(|c| c.to_vec());
                    if let Some(c) = &canon {
                        extra_chars.extend(c.iter().copied());
                    }
                    words.insert(text, (f, canon));
                }
            }
            _ => {}
        }
    }
    let mut chars: Vec<char> = src.iter().copied().chain(extra_chars.into_iter()).filter(|c| c.is_whitespace() || c.is_lowercase() || c.is_uppercase() || c.is_alphabetic() || c.is_alphanumeric() || c.to_lowercase().ne([*c])).collect();
    chars.sort();
    chars.dedup();
    let cf = chars
        .iter()
        .map(|c| {
            let mut f = String::new();
            if c.is_lowercase() {
                f.push('l');
            }
            if c.is_uppercase() {
                f.push('u');
            }
            if c.is_alphabetic() {
                f.push('a');
            }
            if c.is_alphanumeric() {
                f.push('n');
            }
            if c.is_whitespace() {
                f.push('w');
            }
            if f.is_empty() {
                f.push('-');
            }
            format!("{}/{}/{}", *c as u32, f, cps(&c.to_lowercase().collect::<Vec<_>>()))
        })
        .collect::<Vec<_>>()
        .join(" ");
    (
        nums.values().cloned().collect::<Vec<_>>().join(" "),
        words
            .iter()
            .filter(|(_, f)| f.0 != 0 || f.1.is_some())
            .map(|(t, f)| match &f.1 {
                Some(c) => format!("{}/{}/{}", cps(t), f.0, cps(c)),
                None => format!("{}/{}", cps(t), f.0),
            })
            .collect::<Vec<_>>()
            .join(" "),
        cf,
        functional,
    )
}

pub struct RuleOut {
    k: Vec<(String, String)>,
    fails: Vec<(String, String, Value)>,
    counts: Vec<String>,
    monitors: Vec<(String, bool)>,
    nontrivial: bool,
}

impl RuleOut {
    fn new() -> Self {
        RuleOut { k: vec![], fails: vec![], counts: vec![], monitors: vec![], nontrivial: false }
    }
}

fn dict() -> harper_core::Lrc<FstDictionary> {
    FstDictionary::curated()
}

/// one text × the given rules: K lines and the in-range oracle
pub fn eval_text(text: &str, rules: &[&str], out: &mut RuleOut) {
    let Ok(doc) = guarded(|| Document::new(text, &PlainEnglish, &dict())) else {
        out.counts.push("rules:document-panicked(C01's business)".into());
        return;
    };
    let src: Vec<char> = text.chars().collect();
    let (nf, wf, cf, functional) = env_fields(&doc);
    out.monitors.push(("rules: number display/value and word metadata are functions of the token's text (same text, same data within a document)".into(), functional));
    let head = format!("| {} | {} | {} | {} | {}", text_field(&src), ext_field(doc.get_tokens()), nf, wf, cf);
    for r in rules {
        let res = guarded(|| run_rule(r, &doc));
        match &res {
            Ok(ls) => {
                out.k.push((format!("rule {} {}", r, head), show_lints(ls)));
                if !ls.is_empty() {
                    out.nontrivial = true;
                    out.counts.push(format!("rules:lints:{}", r));
                }
                for l in ls {
                    if !(l.span.start <= l.span.end && l.span.end <= src.len()) {
                        out.fails.push((
                            format!("rule-span-out-of-range-{}", r),
                            format!("{} alone reports span {}..{} on a text of {} characters", r, l.span.start, l.span.end, src.len()),
                            json!({"kind": "rule", "rule": r, "text": text}),
                        ));
                    }
                    if msg_code(l).0 == 0 {
                        out.counts.push(format!("rules:unknown-message:{}", r));
                    }
                }
            }
            Err(e) => {
                out.k.push((format!("rule {} {}", r, head), "panic".to_string()));
                out.nontrivial = true;
                out.fails.push((format!("rule-panic-{}", r), format!("{} alone panics on plain English: {}", r, e), json!({"kind": "rule", "rule": r, "text": text})));
            }
        }
    }
}

/// one Markdown text × the given rules: the real Markdown `Document`'s tokens are handed to the model as data
pub fn eval_markdown(text: &str, rules: &[&str], out: &mut RuleOut) {
    let Ok(doc) = guarded(|| Document::new(text, &Markdown::default(), &dict())) else {
        out.counts.push("rules:markdown-document-panicked(C01's business)".into());
        return;
    };
    let src: Vec<char> = text.chars().collect();
    let (nf, wf, cf, functional) = env_fields(&doc);
    out.monitors.push(("rules: number display/value and word metadata are functions of the token's text (same text, same data within a document)".into(), functional));
    let head = format!("| {} | {} | {} | {} | {}", chars_field(&src), toks_show(doc.get_tokens()), nf, wf, cf);
    if doc.get_tokens().iter().any(|t| t.span.start == t.span.end) {
        out.counts.push("rules:markdown-with-zero-width-token".into());
    }
    for r in rules {
        let res = guarded(|| run_rule(r, &doc));
        match &res {
            Ok(ls) => {
                out.k.push((format!("ruletoks {} {}", r, head), show_lints(ls)));
                if !ls.is_empty() {
                    out.nontrivial = true;
                    out.counts.push(format!("rules:markdown-lints:{}", r));
                }
                for l in ls {
                    if !(l.span.start <= l.span.end && l.span.end <= src.len()) {
                        out.fails.push((
                            format!("rule-span-out-of-range-{}", r),
                            format!("{} alone (Markdown) reports span {}..{} on a text of {} characters", r, l.span.start, l.span.end, src.len()),
                            json!({"kind": "rule-md", "rule": r, "text": text}),
                        ));
                    }
                }
            }
            Err(e) => {
                out.k.push((format!("ruletoks {} {}", r, head), "panic".to_string()));
                out.nontrivial = true;
                out.fails.push((format!("rule-panic-{}", r), format!("{} alone panics on a Markdown document: {}", r, e), json!({"kind": "rule-md", "rule": r, "text": text})));
            }
        }
    }
}

/// `ModalOf::match_to_lint` on every match of the real pattern at every position of every chunk
pub fn eval_modal_matches(text: &str, out: &mut RuleOut) {
    let Ok(doc) = guarded(|| Document::new(text, &PlainEnglish, &dict())) else { return };
    let src: Vec<char> = text.chars().collect();
    let toks: Vec<Token> = doc.get_tokens().to_vec();
    let mut slices = vec![];
    let mut results = vec![];
    let mut lens = vec![];
    for i in 0..toks.len() {
        let Ok(n) = guarded(|| with_modal(|m| m.pattern().matches(&toks[i..], &src))) else { continue };
        if n == 0 || i + n > toks.len() {
            continue;
        }
        let r = guarded(|| with_modal(|m| m.match_to_lint(&toks[i..i + n], &src)));
        slices.push(format!("{}:{}", i, n));
        lens.push(n);
        results.push(match r {
            Ok(Some(l)) => {
                if !(l.span.start <= l.span.end && l.span.end <= src.len()) {
                    out.fails.push(("rule-span-out-of-range-ModalOf".into(), format!("match_to_lint span {}..{}", l.span.start, l.span.end), json!({"kind": "rule", "rule": "ModalOf", "text": text})));
                }
                show_lint(&l)
            }
            Ok(None) => "none".to_string(),
            Err(e) => {
                out.fails.push(("rule-panic-ModalOf".into(), format!("ModalOf::match_to_lint panics on a {}-token match: {}", n, e), json!({"kind": "rule", "rule": "ModalOf", "text": text})));
                "panic".to_string()
            }
        });
    }
    if slices.is_empty() {
        return;
    }
    for n in lens {
        out.counts.push(format!("rules:modal-match-len:{}", n));
    }
    out.nontrivial = true;
    let (nf, wf, cf, _) = env_fields(&doc);
    out.k.push((
        format!("rulemo | {} | {} | {} | {} | {} | {}", text_field(&src), ext_field(&toks), slices.join(" "), nf, wf, cf),
        format!("ok {}", results.join(" ; ")),
    ));
}

type LKey = (usize, usize, String);

fn lkey(l: &Lint, by: usize) -> LKey {
    (l.span.start + by, l.span.end + by, format!("{:?}|{}|{:?}|{}", l.lint_kind, l.message, l.suggestions, l.priority))
}

/// paragraph locality of each rule alone on (P, D), exactly and in order
pub fn eval_pair(p: &str, d: &str, rules: &[&str], out: &mut RuleOut) {
    let whole = format!("{}{}", p, d);
    let plen = p.chars().count();
    let docs: Vec<Option<Document>> = [p, d, whole.as_str()].iter().map(|t| guarded(|| Document::new(t, &PlainEnglish, &dict())).ok()).collect();
    let (Some(dp), Some(dd), Some(dw)) = (&docs[0], &docs[1], &docs[2]) else { return };
    for r in rules {
        let (Ok(lp), Ok(ld), Ok(lw)) = (guarded(|| run_rule(r, dp)), guarded(|| run_rule(r, dd)), guarded(|| run_rule(r, dw))) else {
            continue; // reported by eval_text
        };
        let want: Vec<LKey> = lp.iter().map(|l| lkey(l, 0)).chain(ld.iter().map(|l| lkey(l, plen))).collect();
        let got: Vec<LKey> = lw.iter().map(|l| lkey(l, 0)).collect();
        if !lp.is_empty() && !ld.is_empty() {
            out.counts.push(format!("rules:pair-with-lints-in-both:{}", r));
        }
        if want != got {
            out.fails.push((
                format!("c12-rule-{}", r),
                format!(
                    "{} alone: lint(P+D) ≠ lint(P) ++ shift(lint(D)): got {:?}, want {:?}",
                    r,
                    got.iter().filter(|k| !want.contains(k)).take(3).collect::<Vec<_>>(),
                    want.iter().filter(|k| !got.contains(k)).take(3).collect::<Vec<_>>()
                ),
                json!({"kind": "rule-pair", "rule": r, "P": p, "D": d}),
            ));
        }
    }
}

fn merge(sess: &mut Session, o: RuleOut, key: &str) {
    let mut case = None;
    for (op, imp) in &o.k {
        case = Some(sess.k(op, imp));
    }
    sess.o();
    for c in &o.counts {
        sess.count(c);
    }
    for (m, held) in &o.monitors {
        sess.monitor(m, *held);
    }
    if o.nontrivial {
        sess.nontrivial(key);
    }
    for (class, desc, input) in o.fails {
        sess.fail(&class, desc, input, case);
    }
}

/// all concatenations of 0..=n pieces
fn concats(pieces: &[&str], n: usize) -> Vec<String> {
    let mut out = vec![String::new()];
    let mut layer = vec![String::new()];
    for _ in 0..n {
        let mut next = Vec::with_capacity(layer.len() * pieces.len());
        for s in &layer {
            for p in pieces {
                next.push(format!("{}{}", s, p));
            }
        }
        out.extend(next.iter().cloned());
        layer = next;
    }
    out.sort();
    out.dedup();
    out
}

/// the rule's own unit-test strings
fn harvest(file: &str) -> Vec<String> {
    let path = format!("/repo/harper-core/src/linting/{}", file);
    let Ok(src) = std::fs::read_to_string(path) else { return vec![] };
    let mut v: Vec<String> = corpus::string_literals(&src).into_iter().filter(|s| !s.is_empty() && s.len() < 400 && !s.contains('{')).collect();
    v.sort();
    v.dedup();
    v
}

fn long_sentence(rng: &mut Rng, words: usize) -> String {
    let pool = ["a", "the", "cat", "sat", "on", "it", "and", "we", "ran", "far", "to", "see", "1st", "$5", "don't", "e.g."];
    let mut s = String::new();
    for i in 0..words {
        if i > 0 {
            s.push_str(if rng.chance(1, 12) { ", " } else if rng.chance(1, 20) { "  " } else { " " });
        }
        s.push_str(pool[rng.below(pool.len())]);
    }
    let ends = [".", "!", "?", "", " .", "\n\n"];
    s.push_str(ends[rng.below(ends.len())]);
    s
}

const TRIGGERS: &[&str] = &[
    "4$", "$4", "$ 20", "20 $", "25   $", "€ 5", "5 €", "¥5", "5¥", "5 ₽", "₽5", "7.00$", "20th$", "0x1F$", "5 $ 3", "$ 25$", "1e3$", "007$",
    "the the", "The the", "is  is", "this this", "address address", "a\na", "to, to", "and and", "on\ton",
    "  ", " \t", "   ", " .", "  !", " ?", "word ,",
    "..", "....", ".....", "...", "…",
    "2ND", "3Rd", "1sT", "4th", "2nd", "1st", "2st", "101nd", "1012rd", "11st", "12nd", "13rd", "21th", "3.5th", "0st",
    "\"", "“", "”", "\"x\"",
    "there is no way she is not guilty.", "it is a long sentence that goes on and on.", "the cat sat on the mat and then it ran away.", "iPhone users love it when it works well enough.", "macOS is a system that people use every day.",
    "an mule", "a apple", "a hour", "an unicorn", "A HTML", "An 8", "a `x` apple", "an\tcat", "a, apple", "an ML-based", "a e-mail",
    "could of", "might of", "Mustn't of", "should of course", "the might of", "great might of", "we might of", "could  of", "could \nof", "I might of course", "It might \nof been",
];

fn inject(rng: &mut Rng, text: &str, item: &str) -> String {
    let cs: Vec<char> = text.chars().collect();
    let spaces: Vec<usize> = cs.iter().enumerate().filter(|(_, c)| **c == ' ').map(|(i, _)| i).collect();
    if spaces.is_empty() {
        return format!("{} {}", item, text);
    }
    let at = spaces[rng.below(spaces.len())];
    let mut out: String = cs[..at].iter().collect();
    out.push(' ');
    out.push_str(item);
    out.extend(cs[at..].iter());
    out
}

enum Job {
    Md(String),
    Text(String, Vec<&'static str>),
    Modal(String),
    Pair(String, String),
}

fn run_jobs(sess: &mut Session, jobs: Vec<Job>, origin: &str) {
    let all: Vec<&str> = RULES.iter().map(|r| r.0).collect();
    let outs = par_map(jobs.len(), 16, |i| {
        let mut o = RuleOut::new();
        match &jobs[i] {
            Job::Md(t) => eval_markdown(t, &all, &mut o),
            Job::Text(t, rs) => eval_text(t, rs, &mut o),
            Job::Modal(t) => eval_modal_matches(t, &mut o),
            Job::Pair(p, d) => {
                eval_pair(p, d, &all, &mut o);
                eval_text(&format!("{}{}", p, d), &all, &mut o);
            }
        }
        o
    });
    for (i, o) in outs.into_iter().enumerate() {
        sess.count(&format!("rules:origin:{}", origin));
        let key = match &jobs[i] {
            Job::Text(t, rs) => format!("rules\u{0}{}\u{0}{}", rs.first().copied().unwrap_or(""), t),
            Job::Md(t) => format!("rulemd\u{0}{}", t),
            Job::Modal(t) => format!("rulemo\u{0}{}", t),
            Job::Pair(p, d) => format!("rules-pair\u{0}{}\u{0}{}", p, d),
        };
        merge(sess, o, &key);
    }
}

pub fn replay(sess: &mut Session, v: &Value) -> bool {
    let all: Vec<&str> = RULES.iter().map(|r| r.0).collect();
    let rule = v["rule"].as_str().unwrap_or("");
    let rules: Vec<&str> = all.iter().copied().filter(|r| *r == rule).collect();
    match v["kind"].as_str().unwrap_or("") {
        "rule" => {
            let mut o = RuleOut::new();
            let t = v["text"].as_str().unwrap_or("");
            eval_text(t, &rules, &mut o);
            if rule == "ModalOf" {
                eval_modal_matches(t, &mut o);
            }
            merge(sess, o, "replay");
            true
        }
        "rule-md" => {
            let mut o = RuleOut::new();
            eval_markdown(v["text"].as_str().unwrap_or(""), &rules, &mut o);
            merge(sess, o, "replay");
            true
        }
        "rule-pair" => {
            let mut o = RuleOut::new();
            let (p, d) = (v["P"].as_str().unwrap_or(""), v["D"].as_str().unwrap_or(""));
            eval_pair(p, d, &rules, &mut o);
            eval_text(&format!("{}{}", p, d), &rules, &mut o);
            merge(sess, o, "replay");
            true
        }
        _ => false,
    }
}

pub const RULE: &str = "RULES (each real rule ALONE on plain English; model: Harper.Rules): corpus = every string literal of the rule's own source file × all eleven rules; EXHAUSTIVE per rule: all concatenations of ≤N pieces of a rule-specific piece list (CurrencyPlacement ≤5 of {$,20,space,€,a,.,¶¶} and ≤4 of {¥,₽,¢,5,space,3.50,1st}; Spaces ≤5/6 of {space,tab,a,.,newline} and ≤4/5 of {space,2 spaces,a,.,\",comma}; RepeatedWords ≤4/5 of {the,The,space,2 spaces,a,.,newline} and ≤4 of {this,This,address,to,space,comma}; UnclosedQuotes ≤4/5 of {\",“,”,a,space,¶¶}; EllipsisLength ≤4/5 of {.,..,…,a,space,comma}; NumberSuffixCapitalization and CorrectNumberSuffix ≤3/4 of {1,2,11,st,ND,Th,rd,space,.,a}; AnA ≤4 of {a,an,A,An,space,hour,cat,HTML,1,-,comma,x} and `a W an W` for every distinct word W of the rule tests (as is, capitalised, in capitals) plus a list aimed at every arm of starts_with_vowel; SentenceCapitalization ≤4 of 8 pieces (lower-case full sentences, a short one, a proper-noun opening, terminators, paragraph break); ModalOf ≤4 of 11 pieces and all w1·ws·w2·ws·w3[·ws·w4] templates incl. two-token whitespace, each also through match_to_lint directly); LongSentences: generated sentences of 35–50 words; MARKDOWN: every trigger construct, 41/44-word sentences and rule-test sentences in ten Markdown templates (heading, list, `First. <long>`, emphasis, quote, three paragraphs, code + link, ordered list, table), the real Markdown parser's tokens handed to the model as data (op `ruletoks`); RANDOM: (P, D) pairs of rule-test sentences with a trigger construct of the rules injected into BOTH paragraphs — K on P+D for all eleven rules, O locality of every rule alone.";

pub fn run_into(sess: &mut Session, ctx: &Ctx, rng: &mut Rng) {
    let thorough = ctx.tier == Tier::Thorough;
    let all: Vec<&'static str> = RULES.iter().map(|r| r.0).collect();
    // ---- 1. corpus ---------------------------------------------------------------------------
    let mut jobs = vec![];
    for (r, file) in RULES {
        for s in harvest(file) {
            jobs.push(Job::Text(s.clone(), all.clone()));
            if r == "ModalOf" {
                jobs.push(Job::Modal(s));
            }
        }
    }
    for t in [
        "", " ", "\n\n", "$", "4$", "$ 20 ", "20 $ ", "5 $ 3", "$ 25$", "a $ 25$", "They were either 25$ 24$ or 23$.", "1e999$", "0x1F$", "$0x1F", "3.50 €", "¥ 5", "¥5", "5 ₽", "₽5",
        "There is a space at the end of this sentence .", "a  b", "a \t b", "a .", "a . ", "a ,", "a \"", " .", "a  .",
        "the the", "The the the.", "the\nthe", "the, the", "this this", "address address", "İ i̇", "ǅ ǆ", "ß SS",
        "..", "...", "....", "…", ". .", "a.. b.....",
        "2ND", "2nD", "2nd", "2ǅd", "1st 2st 3st", "101nd", "1012rd", "111st", "3.5th", "12345678901234567890th", "0x1Fst", "1St", "2", "st",
        "\"", "\"a\"", "\"a\" \"", "“a”", "“a", "a”",
        "could of", "mightn't of", "Mustn't of", "should of course", "the might of", "great might of", "I might of course", "we might of", "could  of", "could \nof", "we might \nof", "we might of \ncourse", "COULD OF", "Could Of", "ÉÉ might of",
    ] {
        jobs.push(Job::Text(t.to_string(), all.clone()));
        jobs.push(Job::Modal(t.to_string()));
    }
    for n in [39, 40, 41, 42, 45, 50] {
        for _ in 0..6 {
            jobs.push(Job::Text(long_sentence(rng, n), all.clone()));
        }
        jobs.push(Job::Text(format!("{}.", vec!["a"; n].join(" ")), vec!["LongSentences"]));
        jobs.push(Job::Text(format!("Ok. {}!  Next one.", vec!["be"; n].join(" ")), vec!["LongSentences", "Spaces", "RepeatedWords"]));
    }
    // Markdown: the same rules on the real Markdown parser's token vector (handed to the model as data):
    // zero-width structural tokens positioned at earlier offsets, list items, emphasis, headings
    let md_templates: [&dyn Fn(&str) -> String; 10] = [
        &|t| t.to_string(),
        &|t| format!("# {}\n\n{}\n", t, t),
        &|t| format!("- {}\n- {}\n", t, t),
        &|t| format!("First. {}\n", t),
        &|t| format!("*{}* and **{}**\n", t, t),
        &|t| format!("> {}\n\nAfter.\n", t),
        &|t| format!("{}\n\n{}\n\n{}", t, t, t),
        &|t| format!("`code` {} [{}](http://x.y)\n", t, t),
        &|t| format!("1. {}\n2. {}\n\n{}\n", t, t, t),
        &|t| format!("a\n{}\n| x | {} |\n", t, t),
    ];
    let mut md_items: Vec<String> = TRIGGERS.iter().map(|s| s.to_string()).collect();
    for n in [41, 44] {
        md_items.push(format!("{}.", vec!["be"; n].join(" ")));
        md_items.push(vec!["so"; n].join(" "));
        md_items.push(long_sentence(rng, n));
    }
    for _ in 0..(if thorough { 400 } else { 60 }) {
        md_items.push(crate::textgen::sentence(rng));
    }
    for it in &md_items {
        for f in md_templates.iter() {
            jobs.push(Job::Md(f(it)));
        }
    }
    run_jobs(sess, std::mem::take(&mut jobs), "markdown");
    // ---- 2. exhaustive small scope -------------------------------------------------------------
    let ex = |jobs: &mut Vec<Job>, rules: &[&'static str], pieces: &[&str], n: usize| {
        for t in concats(pieces, n) {
            jobs.push(Job::Text(t, rules.to_vec()));
        }
    };
    let d = if thorough { 1 } else { 0 };
    ex(&mut jobs, &["CurrencyPlacement"], &["$", "20", " ", "€", "a", ".", "\n\n"], 5);
    ex(&mut jobs, &["CurrencyPlacement"], &["¥", "₽", "¢", "5", " ", "3.50", "1st"], 4);
    ex(&mut jobs, &["Spaces"], &[" ", "\t", "a", ".", "\n"], 5 + d);
    ex(&mut jobs, &["Spaces"], &[" ", "  ", "a", ".", "\"", ","], 4 + d);
    ex(&mut jobs, &["RepeatedWords"], &["the", "The", " ", "  ", "a", ".", "\n"], 4 + d);
    ex(&mut jobs, &["RepeatedWords"], &["this", "This", "address", "to", " ", ","], 4);
    ex(&mut jobs, &["UnclosedQuotes"], &["\"", "“", "”", "a", " ", "\n\n"], 4 + d);
    ex(&mut jobs, &["EllipsisLength"], &[".", "..", "…", "a", " ", ","], 4 + d);
    ex(&mut jobs, &["NumberSuffixCapitalization", "CorrectNumberSuffix"], &["1", "2", "11", "st", "ND", "Th", "rd", " ", ".", "a"], 3 + d);
    ex(&mut jobs, &["AnA"], &["a", "an", "A", "An", " ", "hour", "cat", "HTML", "1", "-", ",", "x"], 4);
    // `starts_with_vowel` on the vocabulary of the rule tests (every distinct word, as is, capitalised and in capitals)
    {
        let mut words: Vec<String> = vec![];
        for s in corpus::sentences().iter() {
            for w in s.split(|c: char| !(c.is_alphanumeric() || c == '-' || c == '\'')) {
                if !w.is_empty() && w.chars().count() <= 14 {
                    words.push(w.to_string());
                }
            }
        }
        for w in [
            "uk", "euphoria", "eugene", "eulogy", "eucalyptus", "one", "once", "hour", "honest", "honor", "uninformed", "unimportant", "unanimous", "unused", "herb", "urban", "internet",
            "unique", "usual", "usage", "unicorn", "under", "urge", "utensil", "uranium", "unit", "european", "uwu", "user", "oneal", "oneida", "oneself", "one-off", "ones", "sos", "rzeszow",
            "ngo", "nvidia", "x", "xbox", "heir", "honorable", "june", "jonas", "jury", "jurist", "x-ray", "x's", "x.org", "xo", "xs", "xylophone", "apple", "egg", "ice", "owl", "umbrella",
            "HTML", "FBI", "NASA", "UFO", "URL", "XML", "SQL", "MP3", "ÉCOLE", "école", "Ünder", "a", "I", "8", "1st",
        ] {
            words.push(w.to_string());
        }
        words.sort();
        words.dedup();
        let cap = |w: &str| -> String {
            let mut cs = w.chars();
            match cs.next() {
                Some(c) => c.to_uppercase().collect::<String>() + cs.as_str(),
                None => String::new(),
            }
        };
        let limit = if thorough { words.len() } else { words.len().min(2500) };
        for w in words.iter().take(limit) {
            for v in [w.clone(), cap(w), w.to_uppercase()] {
                jobs.push(Job::Text(format!("a {} an {}", v, v), vec!["AnA"]));
            }
        }
    }
    ex(&mut jobs, &["SentenceCapitalization"], &["there is no way she is not guilty", "it runs", "iPhone is what she has and it works", ".", " ", "\n\n", ", ", "The dog"], 4);
    let modal_pieces = ["could", "might", "of", "course", "the", "great", " ", "\n", "I", "Of", "shouldn't"];
    for t in concats(&modal_pieces, 4) {
        jobs.push(Job::Text(t.clone(), vec!["ModalOf"]));
        jobs.push(Job::Modal(t));
    }
    for w1 in ["I", "the", "great", "could", "we"] {
        for ws1 in [" ", "  ", " \n", "\n"] {
            for w2 in ["might", "could", "Might"] {
                for ws2 in [" ", "  ", " \n", "\t"] {
                    for w3 in ["of", "Of", "course"] {
                        let base = format!("{}{}{}{}{}", w1, ws1, w2, ws2, w3);
                        jobs.push(Job::Text(base.clone(), vec!["ModalOf"]));
                        jobs.push(Job::Modal(base.clone()));
                        for ws3 in [" ", "  ", " \n", "\n"] {
                            for w4 in ["course", "Course", "it"] {
                                let t = format!("{}{}{}", base, ws3, w4);
                                jobs.push(Job::Text(t.clone(), vec!["ModalOf"]));
                                jobs.push(Job::Modal(t));
                            }
                        }
                    }
                }
            }
        }
    }
    run_jobs(sess, std::mem::take(&mut jobs), "small-scope");
    // ---- 3. structured random: (P, D) pairs with triggers in both paragraphs ----------------------
    let pool: Vec<&String> = corpus::sentences()
        .iter()
        .filter(|s| !s.chars().any(|c| ['"', '“', '”'].contains(&c)) && s.trim_end().ends_with(['.', '!', '?']) && s.trim_end().len() == s.len())
        .collect();
    let seps = ["\n\n", "\n\n\n", " \n\n", "\t\n\n", "\n\n\n\n"];
    let npairs = if thorough { 12000 } else { 1500 };
    for i in 0..npairs {
        let mut p = pool[rng.below(pool.len())].clone();
        if rng.chance(1, 3) {
            p = format!("{} {}", p, pool[rng.below(pool.len())]);
        }
        let mut dd = crate::textgen::sentence(rng);
        let trig: Vec<&&str> = TRIGGERS.iter().filter(|t| !t.contains(['"', '“', '”'])).collect();
        let a = **rng.pick(&trig);
        let b = if rng.chance(1, 2) { a } else { *rng.pick(TRIGGERS) };
        p = inject(rng, &p, a);
        dd = match i % 4 {
            0 => format!("{} {}", b, dd),
            1 => format!("{}{}", b, dd),
            _ => inject(rng, &dd, b),
        };
        if i % 9 == 0 {
            let n = 41 + rng.below(5);
            dd = format!("{} {}", long_sentence(rng, n), dd);
        }
        if i % 11 == 0 {
            let n = 41 + rng.below(5);
            p = format!("{} {}", p, long_sentence(rng, n).trim_end_matches(['\n', ' ']));
            if !p.ends_with(['.', '!', '?']) {
                p.push('.');
            }
        }
        jobs.push(Job::Pair(format!("{}{}", p, seps[rng.below(seps.len())]), dd));
    }
    // openings of D that rules look behind from, on a fixed first paragraph
    for o in ["$ 20 ", "20 $ ", "€ 5 ", "5 € ", "the", "The the", " the", "  x", " .", "..", "st", "ND", "2ND", "of", " of", "of course", "\"", "a\""] {
        for p in ["It cost 20 $.\n\n", "He saw the\n\n", "I could\n\n", "We might \n\n", "It was the 2\n\n", "Dots..\n\n", "A  b .\n\n"] {
            jobs.push(Job::Pair(p.to_string(), format!("{}bill was paid.", o)));
            jobs.push(Job::Pair(p.to_string(), o.to_string()));
        }
    }
    run_jobs(sess, std::mem::take(&mut jobs), "random-pairs");
}
