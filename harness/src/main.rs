mod common;
mod corpus;
mod c13;

use common::*;
use std::path::PathBuf;

fn main() {
    let args: Vec<String> = std::env::args().collect();
    if args.len() < 2 {
        eprintln!("usage: hv <prop> [--tier quick|thorough] [--seed N] [--out DIR] [--replay FILE]");
        std::process::exit(2);
    }
    let prop = args[1].clone();
    let mut tier = Tier::Quick;
    let mut seed = 1u64;
    let mut out = PathBuf::from(format!("/verif/work/{}", prop));
    let mut replay = None;
    let mut i = 2;
    while i < args.len() {
        match args[i].as_str() {
            "--tier" => {
                tier = if args[i + 1] == "thorough" { Tier::Thorough } else { Tier::Quick };
                i += 1;
            }
            "--seed" => {
                seed = args[i + 1].parse().unwrap_or(1);
                i += 1;
            }
            "--out" => {
                out = PathBuf::from(&args[i + 1]);
                i += 1;
            }
            "--replay" => {
                replay = Some(PathBuf::from(&args[i + 1]));
                i += 1;
            }
            _ => {}
        }
        i += 1;
    }
    let ctx = Ctx { prop: prop.clone(), tier, seed, out, replay };
    quiet_panics();
    match prop.as_str() {
        "C13" => c13::run(&ctx),
        _ => {
            eprintln!("unknown property {}", prop);
            std::process::exit(2);
        }
    }
}
