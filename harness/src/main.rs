#![allow(dead_code, unused)]
// --- harper-ls is a bin-only crate: its modules are compiled into the harness from /repo ---
#[path = "/repo/harper-ls/src/backend.rs"]
mod backend;
#[path = "/repo/harper-ls/src/config.rs"]
mod config;
#[path = "/repo/harper-ls/src/diagnostics.rs"]
mod diagnostics;
#[path = "/repo/harper-ls/src/dictionary_io.rs"]
mod dictionary_io;
#[path = "/repo/harper-ls/src/document_state.rs"]
mod document_state;
#[path = "/repo/harper-ls/src/git_commit_parser.rs"]
mod git_commit_parser;
#[path = "/repo/harper-ls/src/pos_conv.rs"]
mod pos_conv;
// --- harness ---
mod common;
// mrules.rs compiles the child structs of the four `merge_linters!` rules (private modules of harper-core) from their real source
// files; those files say `crate::{CharString, CharStringExt, Lint, Lrc, Token, TokenStringExt}`, `crate::linting::…`,
// `crate::patterns::…` and `crate::char_string::char_string!` (a `pub(crate)` three-line macro of harper-core, repeated here)
mod mrules;
pub(crate) use harper_core::linting::Lint;
pub(crate) use harper_core::{CharString, CharStringExt, Lrc, Token, TokenStringExt};
pub(crate) mod linting {
    pub use harper_core::linting::*;
}
pub(crate) mod patterns {
    pub use harper_core::patterns::*;
}
pub(crate) mod char_string {
    pub use harper_core::CharString;
    macro_rules! char_string {
        ($string:literal) => {{
            use crate::char_string::CharString;

            $string.chars().collect::<CharString>()
        }};
    }
    pub(crate) use char_string;
}
mod rules2;
mod prules;
mod leaves;
mod c02typst;
mod rules;
mod c02md;
mod c12;
mod c10;
mod c09;
mod lsclient;
mod c16;
mod c07;
mod c04;
mod c05;
mod c11;
mod lg;
mod lexdirect; use harper_core::TokenKind; // (one line on purpose) `crate::TokenKind` is what the lexer sources compiled in by lexdirect.rs refer to
mod c15;
mod c01_pattern;
mod c18;
mod c14;
mod c08;
mod c19;
mod c17;
mod c03;
mod corpus;
mod frontends;
mod textgen;
mod tokfmt;
mod probe;
mod c01;
mod c02;
mod c06;
mod c13;

use common::*;
use std::path::PathBuf;

fn main() {
    let args: Vec<String> = std::env::args().collect();
    if args.len() < 2 {
        eprintln!("usage: hv <prop> [--tier quick|thorough] [--seed N] [--out DIR] [--replay FILE]");
        std::process::exit(2);
    }
    if args[1] == "probe" {
        probe::run(&args[2..]);
        return;
    }
    if args[1] == "mdprobe" {
        quiet_panics();
        c02md::probe(&args[2..]);
        return;
    }
    if args[1] == "typprobe" {
        quiet_panics();
        c02typst::probe(&args[2..]);
        return;
    }
    let prop = args[1].clone();
    let mut tier = Tier::Quick;
    let mut seed = 1u64;
    let mut out = PathBuf::from(format!("/verif/work/{}", prop));
    let mut replay = None;
    let mut i = 2;
    while i < args.len() {
        match args[i].as_str() {
            "--tier" => {
                tier = if args[i + 1] == "thorough" { Tier::Thorough } else { Tier::Quick };
                i += 1;
            }
            "--seed" => {
                seed = args[i + 1].parse().unwrap_or(1);
                i += 1;
            }
            "--out" => {
                out = PathBuf::from(&args[i + 1]);
                i += 1;
            }
            "--replay" => {
                replay = Some(PathBuf::from(&args[i + 1]));
                i += 1;
            }
            _ => {}
        }
        i += 1;
    }
    let ctx = Ctx { prop: prop.clone(), tier, seed, out, replay };
    quiet_panics();
    match prop.as_str() {
        "C01" => c01::run(&ctx),
        "C02" => c02::run(&ctx),
        "C06" => c06::run(&ctx),
        "C13" => c13::run(&ctx),
        "C03" => c03::run(&ctx),
        "C17" => c17::run(&ctx),
        "C19" => c19::run(&ctx),
        "C08" => c08::run(&ctx),
        "C14" => c14::run(&ctx),
        "C18" => c18::run(&ctx),
        "C01P" => c01_pattern::run(&ctx),
        "C15" => c15::run(&ctx),
        "C11" => c11::run(&ctx),
        "C05" => c05::run(&ctx),
        "C04" => c04::run(&ctx),
        "C07" => c07::run(&ctx),
        "C16" => c16::run(&ctx),
        "C09" => c09::run(&ctx),
        "C10" => c10::run(&ctx),
        "C10-child" => c10::run(&ctx),
        "C12" => c12::run(&ctx),
        "LEAVES" => leaves::run(&ctx),
        "PRULES" => prules::run(&ctx),
        "RULES2" => rules2::run(&ctx),
        "MRULES" => mrules::run(&ctx),
        _ => {
            eprintln!("unknown property {}", prop);
            std::process::exit(2);
        }
    }
}
