//! C02 / C01 — the Markdown parser's own logic and the two wrapper parsers, K streams.
//!
//! `mdparse` / `wikiclean`: pulldown-cmark's REAL events (same `Options` as markdown.rs) are handed
//! to the Lean model (`Harper.Model.Markdown.mdParseSrc`) as data — variant name, byte range, number
//! of characters of the event's text — together with the text; the model computes the tokens of
//! `Markdown::new(opts).parse`, which are compared with the real ones. The hypotheses of the
//! theorems of `Props/C02d.lean` about the event list (`EventsOK`) are evaluated as monitors on
//! every event list. `collapse` / `isolate` / `isolatev`: the real wrappers against the model, the
//! inner parser's tokens and the dictionary's answers handed over as data.
use crate::c02::{Out, check_tokens, merge};
use crate::common::*;
use crate::frontends::md_opts;
use crate::textgen;
use crate::tokfmt::*;
use harper_core::parsers::{CollapseIdentifiers, IsolateEnglish, Markdown, Parser, PlainEnglish};
use harper_core::{Dictionary, FstDictionary, MergedDictionary, MutableDictionary, Token, TokenKind, TokenStringExt, WordMetadata};
use serde_json::{Value, json};
use std::sync::Arc;

fn new_out() -> Out {
    Out { k: vec![], fails: vec![], counts: vec![], monitors: vec![], nontrivial: None }
}

/// leading identifier of a `Debug` rendering: `Heading { level: H1, … }` → `Heading`
fn variant_name<T: std::fmt::Debug>(t: &T) -> String {
    format!("{:?}", t).chars().take_while(|c| c.is_ascii_alphanumeric()).collect()
}

#[derive(Clone, Debug, PartialEq)]
pub enum EvK {
    Soft,
    Hard,
    Start(String),
    End,
    /// Code | InlineMath | DisplayMath
    Code(usize),
    Text(usize),
    /// Html | InlineHtml
    Html(usize),
    Other,
}

pub struct Ev {
    pub word: String,
    pub rs: usize,
    pub re: usize,
    pub kind: EvK,
    /// `Start(Link | Image)` whose `link_type` is `WikiLink { .. }`
    pub wiki: bool,
}

/// pulldown-cmark's events for `text`, with the options markdown.rs uses
pub fn events_of(text: &str) -> Vec<Ev> {
    use pulldown_cmark::{Event, Options};
    let md = pulldown_cmark::Parser::new_ext(text, Options::all().difference(Options::ENABLE_SMART_PUNCTUATION));
    let mut out = vec![];
    for (event, range) in md.into_offset_iter() {
        let n = |c: &pulldown_cmark::CowStr| c.chars().count();
        let wiki = match &event {
            Event::Start(pulldown_cmark::Tag::Link { link_type, .. }) | Event::Start(pulldown_cmark::Tag::Image { link_type, .. }) => matches!(link_type, pulldown_cmark::LinkType::WikiLink { .. }),
            _ => false,
        };
        let (name, len, kind) = match &event {
            Event::Start(t) => (format!("Start.{}", variant_name(t)), 0, EvK::Start(variant_name(t))),
            Event::End(t) => (format!("End.{}", variant_name(t)), 0, EvK::End),
            Event::Text(c) => ("Text".to_string(), n(c), EvK::Text(n(c))),
            Event::Code(c) => ("Code".to_string(), n(c), EvK::Code(n(c))),
            Event::InlineMath(c) => ("InlineMath".to_string(), n(c), EvK::Code(n(c))),
            Event::DisplayMath(c) => ("DisplayMath".to_string(), n(c), EvK::Code(n(c))),
            Event::Html(c) => ("Html".to_string(), n(c), EvK::Html(n(c))),
            Event::InlineHtml(c) => ("InlineHtml".to_string(), n(c), EvK::Html(n(c))),
            Event::SoftBreak => ("SoftBreak".to_string(), 0, EvK::Soft),
            Event::HardBreak => ("HardBreak".to_string(), 0, EvK::Hard),
            other => (variant_name(other), 0, EvK::Other),
        };
        out.push(Ev { word: format!("{}:{}:{}:{}", name, range.start, range.end, len), rs: range.start, re: range.end, kind, wiki });
    }
    out
}

/// pulldown-cmark 0.13.0, `handle_wikilink`: for `[[name|]]` (a pipe and then NO display text)
/// `scan_nodes_to_ix` returns the closing-bracket node itself as the link's body, so the closing
/// brackets and the rest of the paragraph become children of the link AND stay its siblings: they
/// are emitted twice, the first time "inside" a link whose range ended before them. Recognised on
/// the event list alone: a Text / Code / Html / break event between `Start(Link | Image)` and its
/// `End` that starts at or after the END of that link's own range.
pub fn link_child_escapes(evs: &[Ev]) -> bool {
    let mut stack: Vec<Option<usize>> = vec![]; // range end of an open Link / Image
    for e in evs {
        match &e.kind {
            EvK::Start(t) if t == "Link" || t == "Image" => stack.push(Some(e.re)),
            EvK::Start(_) => stack.push(None),
            EvK::End => {
                stack.pop();
            }
            EvK::Other => {}
            _ => {
                if stack.iter().any(|x| matches!(x, Some(end) if e.rs >= *end)) {
                    return true;
                }
            }
        }
    }
    false
}

/// an event whose `Unlintable` token would be empty (`$$$$`: DisplayMath with no content)
pub fn has_empty_solid(evs: &[Ev]) -> bool {
    evs.iter().any(|e| matches!(e.kind, EvK::Code(0) | EvK::Html(0)))
}

/// pulldown-cmark expands a tab at the start of a line of an INDENTED fenced code block into
/// spaces and emits them as a `Text` event with an EMPTY range; markdown.rs gives the Unlintable
/// token the length of the event's text at the range start. Recognised on the event list: a `Text`
/// event directly under `CodeBlock` with `start == end` and a non-empty text.
pub fn has_synthetic_text(evs: &[Ev]) -> bool {
    let mut stack: Vec<&str> = vec![];
    for e in evs {
        match &e.kind {
            EvK::Start(t) => stack.push(t.as_str()),
            EvK::End => {
                stack.pop();
            }
            EvK::Text(n) if *n > 0 && e.rs == e.re && stack.last() == Some(&"CodeBlock") => return true,
            _ => {}
        }
    }
    false
}

/// mirror of `textAct` (Model/Markdown.lean): 0 = parse, 1 = unlintable, 2 = skip. Only used to
/// label the clauses below; its agreement with the model is itself a K case (op `evok`).
fn text_act(ilt: bool, top: Option<&String>) -> u8 {
    match top.map(|s| s.as_str()) {
        None => 0,
        Some("CodeBlock") => 1,
        Some("Link") => if ilt { 1 } else { 0 },
        Some("Paragraph") | Some("Heading") | Some("Item") | Some("TableCell") | Some("Emphasis") | Some("Strong") | Some("Strikethrough") => 0,
        Some(_) => 2,
    }
}

/// The hypotheses of `mdParse_inbounds` / `mdParse_sorted_covering` / `mdParse_total` (`EventsOK`,
/// `solidOK` of Model/Markdown.lean), clause by clause, on a real event list. Returns the two
/// verdicts and `StartsOK` (the hypothesis of `mdParse_total`); the same three are computed by the
/// model from its own definitions (op `evok`).
pub fn events_monitors(text: &str, ilt: bool, evs: &[Ev], out: &mut Out) -> (bool, bool, bool) {
    let mut boundaries = true;
    let mut monotone = true;
    let mut disjoint = true;
    let mut fits = true;
    let mut solid = true;
    let mut starts = true; // StartsOK: an event start ahead of the cursor can be sliced
    let mut cur = 0usize; // traversed_bytes
    let mut le = 0usize; // range end of the last token-producing event
    let mut stack: Vec<String> = vec![];
    for e in evs {
        let leaf: Option<usize> = match &e.kind {
            EvK::Soft | EvK::Hard => Some(1),
            EvK::Code(n) | EvK::Html(n) => Some(*n),
            EvK::Text(n) => if text_act(ilt, stack.last()) == 2 { None } else { Some(*n) },
            _ => None,
        };
        match &e.kind {
            EvK::Code(n) | EvK::Html(n) => solid &= *n >= 1,
            EvK::Text(n) => solid &= text_act(ilt, stack.last()) != 1 || *n >= 1,
            _ => {}
        }
        match leaf {
            Some(n) => {
                let ok_range = e.rs <= e.re && e.re <= text.len() && text.is_char_boundary(e.rs) && text.is_char_boundary(e.re);
                boundaries &= ok_range;
                monotone &= cur <= e.rs;
                disjoint &= le <= e.rs;
                fits &= ok_range && n <= text[e.rs..e.re].chars().count();
                le = e.re;
            }
            None => {
                // an event that pushes no covering token only moves the cursor: its start must be
                // sliceable when it is ahead of the cursor
                boundaries &= e.rs <= cur || (e.rs <= text.len() && text.is_char_boundary(e.rs));
            }
        }
        starts &= e.rs <= cur || (e.rs <= text.len() && text.is_char_boundary(e.rs));
        cur = cur.max(e.rs);
        match &e.kind {
            EvK::Start(t) => stack.push(t.clone()),
            EvK::End => {
                stack.pop();
            }
            _ => {}
        }
    }
    out.monitors.push(("EventsOK: ranges on char boundaries, start ≤ end ≤ len".into(), boundaries));
    out.monitors.push(("EventsOK: a token-producing event starts at or after every earlier event's start".into(), monotone));
    out.monitors.push(("EventsOK: token-producing events have disjoint, increasing ranges".into(), disjoint));
    out.monitors.push(("EventsOK: text length ≤ range length (chars); a break's range has ≥ 1 char".into(), fits));
    out.monitors.push(("solidOK: Code / Math / Html / unlintable Text events are not empty".into(), solid));
    (boundaries && monotone && disjoint && fits, solid, starts)
}

/// Which recorded pulldown-cmark findings apply to an event list (decided on the events alone).
pub struct Findings {
    /// pulldown-cmark recognised a wikilink AND the event list breaks `EventsOK`: the display-text
    /// splitting of `handle_wikilink` (0.13.0) produces children outside the link's range
    /// (`[[name|]]`: `link_child_escapes`) or a Code event whose range was cut at the pipe but whose
    /// text was not (a code span straddling the pipe)
    pub wikilink: bool,
    /// tab expansion under an indented fenced code block AND the event list breaks `EventsOK`
    pub synthetic: bool,
    /// an empty Code / Math / Html event
    pub empty_solid: bool,
    pub eok: bool,
    pub sok: bool,
    pub stok: bool,
}

/// evaluates the assumption monitors and sets the finding-matching lists aside
pub fn findings_and_monitors(text: &str, ilt: bool, evs: &[Ev], out: &mut Out) -> Findings {
    let mut scratch = new_out();
    let (eok, sok, stok) = events_monitors(text, ilt, evs, &mut scratch);
    let f = Findings { wikilink: evs.iter().any(|e| e.wiki) && !eok, synthetic: has_synthetic_text(evs) && !eok, empty_solid: has_empty_solid(evs), eok, sok, stok };
    // the hypothesis of `mdParse_total` is a monitor on EVERY event list, set-aside ones included
    out.monitors.push(("StartsOK: an event start ahead of the cursor is a char boundary inside the text".into(), stok));
    // an event list that matches a recorded pulldown-cmark finding and breaks the hypothesis is set
    // aside (counted; property failures on it are classed under the finding); on every other event
    // list the hypothesis is a monitor
    if f.wikilink {
        out.counts.push(format!("EventsOK set aside: pulldown-cmark wikilink event list ({})", if link_child_escapes(evs) { "`[[name|]]`: link children outside the link" } else { "other shape, e.g. a code span straddling the pipe" }));
    } else if f.synthetic {
        out.counts.push("EventsOK set aside: pulldown-cmark Text event with an empty range and a non-empty text under CodeBlock (tab expansion)".into());
    } else if f.empty_solid {
        out.counts.push("solidOK set aside: pulldown-cmark empty math event (`$$$$`)".into());
        scratch.monitors.pop();
        out.monitors.extend(scratch.monitors);
    } else {
        if std::env::var("HV_MD_DEBUG").is_ok() && scratch.monitors.iter().any(|m| !m.1) {
            eprintln!("EVENTSOK-FAIL {:?} {:?}", text, scratch.monitors.iter().filter(|m| !m.1).map(|m| &m.0[10..30]).collect::<Vec<_>>());
        }
        out.monitors.extend(scratch.monitors);
    }
    f
}

/// class the property failures found on an event list that matches a recorded finding
pub fn reclass(fails: &mut [(String, String, Value)], f: &Findings) {
    for x in fails.iter_mut() {
        if x.0.starts_with("c02-") {
            continue;
        }
        // since the repairs in markdown.rs (slice clamp, final clamp pass) no token can be out of
        // bounds: that class is never covered by a finding
        if x.0 == "out-of-bounds" {
            continue;
        }
        if f.wikilink {
            x.0 = "c02-md-wikilink-events".into();
        } else if f.synthetic && x.0 == "unordered-or-overlapping" {
            x.0 = "c02-md-synthetic-text".into();
        } else if f.empty_solid && x.0 == "zero-width-nonstructural" {
            x.0 = "c02-md-empty-math".into();
        }
    }
}

/// K (+ the property's clauses on the parser's own tokens) for one Markdown text
pub fn eval_md(opname: &str, ilt: bool, text: &str) -> Out {
    let mut out = new_out();
    let src: Vec<char> = text.chars().collect();
    let evs = match guarded(|| events_of(text)) {
        Ok(e) => e,
        Err(_) => {
            out.counts.push("md:pulldown-panicked".into());
            return out;
        }
    };
    let evline = evs.iter().map(|e| e.word.as_str()).collect::<Vec<_>>().join(" ");
    let fnd = findings_and_monitors(text, ilt, &evs, &mut out);
    // the harness's reading of the clauses against the model's own definitions
    out.k.push((format!("evok | {} | {} | {}", if ilt { 1 } else { 0 }, chars_field(&src), evline), format!("ok {} {} {}", fnd.eok as u8, fnd.sok as u8, fnd.stok as u8)));
    let op = format!("{} | {} | {} | {}", opname, if ilt { 1 } else { 0 }, text_field(&src), evline);
    let front = format!("markdown{}(parser)", if ilt { "+ilt" } else { "" });
    match guarded(|| Markdown::new(md_opts(ilt)).parse(&src)) {
        Ok(toks) => {
            let imp = format!("ok {}", toks_show(&toks)).trim_end().to_string();
            let mut kinds: std::collections::BTreeSet<&str> = std::collections::BTreeSet::new();
            for e in &evs {
                kinds.insert(e.word.split(':').next().unwrap_or(""));
            }
            for k in &kinds {
                out.counts.push(format!("{}:event:{}", opname, k));
            }
            if toks.iter().any(|t| t.span.start == t.span.end) {
                out.counts.push(format!("{}:zero-width-break", opname));
            }
            if kinds.len() >= 5 || (opname == "wikiclean" && text.contains("[[") && text.contains("]]")) {
                out.nontrivial = Some(op.clone());
            }
            out.k.push((op, imp));
            let nf = out.fails.len();
            check_tokens(&front, text, &src, &toks, false, &mut out);
            reclass(&mut out.fails[nf..], &fnd);
        }
        Err(e) => {
            // `mdParse_total`: with sliceable starts (monitored above) the parser's own code cannot
            // panic — a crash here is a failing input for that theorem and for C01
            out.k.push((op, "panic".into()));
            out.fails.push(("md-parser-panic".into(), format!("Markdown::parse panicked (StartsOK = {}): {}", fnd.stok, e), json!({"frontend": front, "text": text})));
        }
    }
    out.counts.push(format!("{}:ilt={}", opname, ilt));
    out
}

// ---------------------------------------------------------------------------------------------
// wrappers
// ---------------------------------------------------------------------------------------------

#[derive(Clone, Copy, PartialEq, Eq, Debug)]
pub enum InnerP {
    Plain,
    Md,
}

fn inner_parser(k: InnerP) -> Box<dyn Parser> {
    match k {
        InnerP::Plain => Box::new(PlainEnglish),
        InnerP::Md => Box::new(Markdown::new(md_opts(false))),
    }
}

pub const IDENT_WORDS: &[&str] = &[
    "snake_case", "kebab-case", "snake_case_foo", "case_foo", "foo-snake", "a_a", "a-b_c", "separated_identifier", "separated-identifier", "identifier_token",
    "separated_identifier_token", "foo_1", "x-ray", "well-known", "é_ü", "foo__bar", "a_", "_a",
];

/// curated dictionary + the identifiers above
pub fn ident_dict() -> Arc<dyn Dictionary> {
    use std::sync::OnceLock;
    static D: OnceLock<Arc<MergedDictionary>> = OnceLock::new();
    let d = D.get_or_init(|| {
        let mut user = MutableDictionary::new();
        for w in IDENT_WORDS {
            user.append_word_str(w, WordMetadata::default());
        }
        let mut m = MergedDictionary::new();
        m.add_dictionary(FstDictionary::curated());
        m.add_dictionary(Arc::new(user));
        Arc::new(m)
    });
    d.clone()
}

fn content(src: &[char], s: usize, e: usize) -> Option<Vec<char>> {
    if s <= e && e <= src.len() { Some(src[s..e].to_vec()) } else { None }
}

fn dict_groups(entries: &[(Vec<char>, bool)]) -> String {
    let mut seen: std::collections::HashSet<Vec<char>> = std::collections::HashSet::new();
    let mut s = String::new();
    for (w, b) in entries {
        if !seen.insert(w.clone()) {
            continue;
        }
        s.push_str(&format!(" | {} ; {}", chars_field(w), if *b { 1 } else { 0 }));
    }
    s
}

fn is_case_sep(k: &TokenKind) -> bool {
    matches!(k, TokenKind::Punctuation(harper_core::Punctuation::Underscore) | TokenKind::Punctuation(harper_core::Punctuation::Hyphen))
}

/// `CollapseIdentifiers` over `inner` with `ident_dict()`
pub fn eval_collapse(kind: InnerP, text: &str) -> Out {
    let mut out = new_out();
    let src: Vec<char> = text.chars().collect();
    let Ok(inner_toks) = guarded(|| inner_parser(kind).parse(&src)) else {
        out.counts.push("collapse:inner-panicked".into());
        return out;
    };
    let fnd = if kind == InnerP::Md { guarded(|| events_of(text)).ok().map(|evs| findings_and_monitors(text, false, &evs, &mut out)) } else { None };
    let dict = ident_dict();
    // membership of every word-to-word stretch of every run `word (sep word)*` (what the model may ask)
    let mut entries: Vec<(Vec<char>, bool)> = vec![];
    let mut i = 0;
    while i < inner_toks.len() {
        if inner_toks[i].kind.is_word() {
            let mut words = vec![i];
            let mut j = i;
            while j + 2 < inner_toks.len() && is_case_sep(&inner_toks[j + 1].kind) && inner_toks[j + 2].kind.is_word() {
                j += 2;
                words.push(j);
            }
            for a in 0..words.len() {
                for b in a + 1..words.len() {
                    if let Some(c) = content(&src, inner_toks[words[a]].span.start, inner_toks[words[b]].span.end) {
                        let m = dict.contains_word(&c);
                        entries.push((c, m));
                    }
                }
            }
            i = j + 1;
        } else {
            i += 1;
        }
    }
    let op = format!("collapse | {} | {}{}", chars_field(&src), toks_show(&inner_toks), dict_groups(&entries));
    let front = format!("{}+collapse(parser)", if kind == InnerP::Md { "markdown" } else { "plaintext" });
    let d2: Arc<dyn Dictionary> = dict.clone();
    match guarded(|| CollapseIdentifiers::new(inner_parser(kind), Box::new(d2)).parse(&src)) {
        Ok(toks) => {
            let merged = inner_toks.len() - toks.len();
            out.counts.push(format!("collapse:{:?}:removed={}", kind, merged.min(4)));
            if merged > 0 {
                out.nontrivial = Some(op.clone());
            }
            out.k.push((op, format!("ok {}", toks_show(&toks)).trim_end().to_string()));
            let nf = out.fails.len();
            check_tokens(&front, text, &src, &toks, false, &mut out);
            if let Some(f) = &fnd {
                reclass(&mut out.fails[nf..], f);
            }
        }
        Err(e) => {
            out.k.push((op, "panic".into()));
            out.fails.push(("collapse-panic".into(), format!("CollapseIdentifiers::parse panicked: {}", e), json!({"frontend": front, "text": text})));
        }
    }
    out
}

/// `IsolateEnglish` over `inner` with the curated dictionary: op `isolate` (the model computes
/// `is_likely_english` from the membership of every word) and op `isolatev` (the real verdict of
/// every chunk handed over)
pub fn eval_isolate(kind: InnerP, text: &str) -> Out {
    let mut out = new_out();
    let src: Vec<char> = text.chars().collect();
    let Ok(inner_toks) = guarded(|| inner_parser(kind).parse(&src)) else {
        out.counts.push("isolate:inner-panicked".into());
        return out;
    };
    let fnd = if kind == InnerP::Md { guarded(|| events_of(text)).ok().map(|evs| findings_and_monitors(text, false, &evs, &mut out)) } else { None };
    let dict = FstDictionary::curated();
    let mut entries: Vec<(Vec<char>, bool)> = vec![];
    for t in &inner_toks {
        if t.kind.is_word() {
            if let Some(c) = content(&src, t.span.start, t.span.end) {
                let m = dict.contains_word(&c);
                entries.push((c, m));
            }
        }
    }
    let op = format!("isolate | {} | {}{}", chars_field(&src), toks_show(&inner_toks), dict_groups(&entries));
    let verdicts = guarded(|| {
        inner_toks
            .iter_chunks()
            .map(|ch| if harper_core::language_detection::is_likely_english(ch, &src, &dict) { "1" } else { "0" })
            .collect::<Vec<_>>()
    });
    let front = format!("{}+isolate(parser)", if kind == InnerP::Md { "markdown" } else { "plaintext" });
    match guarded(|| IsolateEnglish::new(inner_parser(kind), FstDictionary::curated()).parse(&src)) {
        Ok(toks) => {
            let imp = format!("ok {}", toks_show(&toks)).trim_end().to_string();
            let dropped = inner_toks.len() - toks.len();
            out.counts.push(format!("isolate:{:?}:{}", kind, if dropped == 0 { "all-kept" } else if toks.is_empty() { "all-dropped" } else { "some-dropped" }));
            if dropped > 0 && !toks.is_empty() {
                out.nontrivial = Some(op.clone());
            }
            out.k.push((op, imp.clone()));
            if let Ok(v) = verdicts {
                out.k.push((format!("isolatev | {} | {}", toks_show(&inner_toks), v.join(" ")), imp));
            }
            // the property itself: kept tokens are the inner parser's tokens, untouched, in order
            let mut j = 0;
            for t in &toks {
                while j < inner_toks.len() && &inner_toks[j] != t {
                    j += 1;
                }
                if j == inner_toks.len() {
                    out.fails.push(("isolate-not-sublist".into(), format!("IsolateEnglish returned {} which is not (in order) among the inner parser's tokens", tok_show(t)), json!({"frontend": front, "text": text})));
                    break;
                }
                j += 1;
            }
            let nf = out.fails.len();
            check_tokens(&front, text, &src, &toks, false, &mut out);
            if let Some(f) = &fnd {
                reclass(&mut out.fails[nf..], f);
            }
        }
        Err(e) => {
            out.k.push((op, "panic".into()));
            out.fails.push(("isolate-panic".into(), format!("IsolateEnglish::parse panicked: {}", e), json!({"frontend": front, "text": text})));
        }
    }
    out
}

// ---------------------------------------------------------------------------------------------
// streams
// ---------------------------------------------------------------------------------------------

/// all concatenations of 0..=maxlen pieces
pub fn all_piece_strings(pieces: &[&str], maxlen: usize) -> Vec<String> {
    let mut out = vec![String::new()];
    let mut frontier = vec![String::new()];
    for _ in 0..maxlen {
        let mut next = Vec::with_capacity(frontier.len() * pieces.len());
        for f in &frontier {
            for p in pieces {
                let mut s = f.clone();
                s.push_str(p);
                next.push(s);
            }
        }
        out.extend(next.iter().cloned());
        frontier = next;
    }
    out.sort();
    out.dedup();
    out
}

pub const WIKI_PIECES: [&str; 7] = ["[[", "]]", "|", "a", " ", "\\", "[b](x)"];
pub const MD_PIECES: [&str; 16] = ["a", " ", "\n", "*", "`", "[", "]", "(x)", "#", "- ", "é", "|", "> ", "<b>", "$", "\\"];

fn wiki_random(rng: &mut Rng) -> String {
    const P: &[&str] = &["[[", "]]", "|", "a", " ", "\\", "[b](x)", "\n", "[", "]", "b c", "é", "||", "![[", "`c`", "*", "\n\n", "- ", "| ", "😀", "[[a|b]]", "[[|b|c]]"];
    let n = rng.range(5, 16);
    let mut s = String::new();
    for _ in 0..n {
        s.push_str(*rng.pick::<&str>(P));
    }
    s
}

fn md_random(rng: &mut Rng) -> String {
    match rng.below(6) {
        0 | 1 => {
            let ilt = rng.chance(1, 2);
            crate::c04::cgen::gen_markdown(rng, ilt).text
        }
        2 => {
            let p = textgen::prose(rng);
            let t = crate::frontends::embed("markdown", &p, rng.below(4));
            if rng.chance(1, 2) { textgen::mutate(rng, &t) } else { t }
        }
        3 => textgen::text(rng),
        4 => {
            // markup soup with multi-byte characters
            const P: &[&str] = &[
                "a", "word ", " ", "\n", "\n\n", "  \n", "\\\n", "*", "**", "_", "~~", "`", "``", "```\n", "~~~\n", "[", "]", "(", ")", "](http://x.y \"t\")", "![", "<b>", "</b>", "<!-- c -->", "<div>\n", "$", "$$", "#", "## ", "- ", "1. ",
                "* ", "> ", "|", "|---|---|\n", "| a | b |\n", "[^1]", "[^1]: ", "---\n", "- [ ] ", "é", "😀", "中", "e\u{301}", "\t", "    ", "\r\n", "&amp;", "\\*", "\\[", "[[", "]]", "<http://a.b>", "http://a.b/c", ": def\n", "{#id}", "H~2~O", "x^2^",
            ];
            let n = rng.range(2, 24);
            let mut s = String::new();
            for _ in 0..n {
                s.push_str(*rng.pick::<&str>(P));
            }
            s
        }
        _ => {
            let t = crate::c04::cgen::gen_markdown(rng, false).text;
            textgen::mutate(rng, &t)
        }
    }
}

fn ident_random(rng: &mut Rng) -> String {
    const W: &[&str] = &["snake", "case", "kebab", "foo", "separated", "identifier", "token", "a", "b", "c", "x", "ray", "well", "known", "é", "ü", "1", "The", "is"];
    const S: &[&str] = &["_", "-", "_", "-", " ", " ", ". ", ", ", "__", "--", " - ", "_ ", "\n", "**", "`", ": ", "\"", "'"];
    let n = rng.range(2, 14);
    let mut s = String::new();
    for i in 0..n {
        if i > 0 {
            s.push_str(*rng.pick::<&str>(S));
        }
        if rng.chance(1, 6) {
            s.push_str(*rng.pick::<&str>(IDENT_WORDS));
        } else {
            s.push_str(*rng.pick::<&str>(W));
        }
    }
    s
}

/// every `IDENT_WORDS` entry cut at every separator, with skipped Markdown markup at the cut
pub fn split_identifiers() -> Vec<String> {
    let mut v = vec![];
    for w in IDENT_WORDS {
        let cs: Vec<char> = w.chars().collect();
        for (i, c) in cs.iter().enumerate() {
            if *c != '_' && *c != '-' {
                continue;
            }
            let l: String = cs[..i].iter().collect();
            let r: String = cs[i + 1..].iter().collect();
            if l.is_empty() || r.is_empty() {
                continue;
            }
            let sep = *c;
            for t in [
                format!("[{l}](http://example.com \"the title\"){sep}{r}"),
                format!("[{l}](url){sep}{r}"),
                format!("{l}{sep}[{r}](url \"a title\")"),
                format!("[{l}{sep}](<a b> 'some words'){r}"),
                format!("![{l}](img.png \"picture of it\"){sep}{r}"),
                format!("**{l}**{sep}{r}"),
                format!("{l}{sep}**{r}**"),
                format!("*{l}{sep}*{r}"),
                format!("~~{l}~~{sep}{r}"),
                format!("[[some page|{l}]]{sep}{r}"),
                format!("{l}<!-- a comment -->{sep}{r}"),
                format!("{l}<b>{sep}</b>{r}"),
                format!("[{l}][ref]{sep}{r}\n\n[ref]: http://example.com \"ref title\""),
                format!("{l}\\\n{sep}{r}"),
                format!("Use [{l}](url \"x y\"){sep}{r} here, and {w} there."),
            ] {
                v.push(t);
            }
        }
    }
    v
}

pub const FOREIGN: &[&str] = &[
    "En la mañana, como a dish de los huevos, un poquito of tocino, y a lot of leche.",
    "No estoy of acuerdo con the politics de Los estados unidos ahora; pienso que we need mas diversidad in el gobierno.",
    "如果你渴了，就喝水。",
    "jeśli jesteś spragniony, napij się wody.",
    "Esto es español. Harper no debería marcarlo como inglés.",
    "C'est du français. Il ne devrait pas être marqué comme anglais par Harper.",
    "#! /bin/bash",
    "def fibIter(n):\n    if n < 2:\n        return n\n    fibPrev = 1",
    "Je voudrais promener au the park a huit heures with ma voisine",
    "Je buy une robe nouveau chaque Tuesday, mais aujourd'hui, je don't have temps",
    "fibPrev, fib = fib, fib + fibPrev",
    "zxq vbn qwp: lkj mnb, poi uyt! rew \"asd fgh\" jkl.",
    "let x = foo(bar, baz); // qux",
    "Das ist ein Satz, der nicht englisch ist: wirklich nicht.",
];

fn mixed_random(rng: &mut Rng) -> String {
    const ENGLISH: &[&str] = &[
        "I have a simple motto in life: ",
        "This is English!",
        "This is perfectly valid English, evn if it has a cople typos.",
        "Look above! That is real English! So is this: bippity bop!",
        "The quick brown fox jumps over the lazy dog, and then it rests.",
        "She said \"hello there\" to all of us.",
        "We saw one, two, three.",
    ];
    let n = rng.range(1, 5);
    let mut s = String::new();
    for i in 0..n {
        if i > 0 {
            s.push_str(*rng.pick::<&str>(&[" ", "\n\n", "\n", " ", ", ", ": ", ". "]));
        }
        match rng.below(5) {
            0 | 1 => s.push_str(*rng.pick::<&str>(ENGLISH)),
            2 => s.push_str(*rng.pick::<&str>(FOREIGN)),
            3 => s.push_str(&textgen::sentence(rng)),
            _ => {
                // a chunk with a controlled number of words / unknown words / punctuation / code
                let words = rng.range(0, 12);
                for w in 0..words {
                    if w > 0 {
                        s.push(' ');
                    }
                    s.push_str(if rng.chance(1, 3) { *rng.pick::<&str>(&["zxq", "vbn", "qwp", "mañana", "huevos"]) } else { *rng.pick::<&str>(&["the", "dog", "runs", "fast", "a", "simple", "life"]) });
                    if rng.chance(1, 6) {
                        s.push_str(*rng.pick::<&str>(&[";", " -", " (", ")", " /", " `x`", " <b>", "%", "…"]));
                    }
                }
                s.push_str(*rng.pick::<&str>(&[".", "!", "?", ",", ":", "", " \"", "\n\n"]));
            }
        }
    }
    if rng.chance(1, 5) { textgen::mutate(rng, &s) } else { s }
}

enum Job {
    Md(&'static str, bool, String),
    Collapse(InnerP, String),
    Isolate(InnerP, String),
}

fn run_job(j: &Job) -> Out {
    match j {
        Job::Md(op, ilt, t) => eval_md(op, *ilt, t),
        Job::Collapse(k, t) => eval_collapse(*k, t),
        Job::Isolate(k, t) => eval_isolate(*k, t),
    }
}

/// re-evaluate one recorded input of this module (`frontend` ends in `(parser)`)
pub fn replay(front: &str, text: &str) -> Option<Out> {
    let kind = if front.starts_with("markdown") { InnerP::Md } else { InnerP::Plain };
    if front.contains("+collapse(parser)") {
        Some(eval_collapse(kind, text))
    } else if front.contains("+isolate(parser)") {
        Some(eval_isolate(kind, text))
    } else if front.starts_with("markdown") && front.ends_with("(parser)") {
        Some(eval_md("mdparse", front.contains("+ilt"), text))
    } else {
        None
    }
}

pub fn run_into(sess: &mut Session, ctx: &Ctx, rng: &mut Rng) {
    let thorough = ctx.tier == Tier::Thorough;
    let mut jobs: Vec<Job> = vec![];
    // 1. corpus: the parser's own tests, wikilink witnesses, the repo's Markdown fixtures
    let corpus: Vec<String> = [
        "🤷.", "This is a test.", r"$\Katex$ $\text{is}$ $\text{great}$.", "[[this is hidden|this is not]]", "|", "[[|]]", "this is shown|this is also shown]]", "[[Wikilink]]",
        "The range of inputs from <ctrl-g> to ctrl-z", "[elijah-potter/harper](https://github.com/elijah-potter/harper)", "<http://localhost:9093>",
        "\nParagraph.\n\n```\nCode block\n```\nParagraph.\n        ", "[[||]]", "See [[|alias|extra]]", "\\[[target|alias|extra]]", "Notes: [[|b|c]]", "[[a|[b](x)|c]]", "[[a|b|c]]\\]", "[[a|b|c]\\]",
        "[[a|b]] and [[c]] and [[d|e|f]]", "[[a\n|b]]", "[[a|b\n]]", "x [[ y ]] z [[", "]] [[ ]]", "| a | b |\n|---|---|\n| c | [[d|e]] |\n", "a  \nb\\\nc\nd", "- one\n- two\n\n1. three\n   - four\n", "# Title é😀\n\ntext *emph* **strong** ~~strike~~ `code` $x$\n",
        "Setext\n===\n\n> quote\n> more\n", "<div>\nhtml block\n</div>\n\nafter", "[^1] note\n\n[^1]: the note\n", "- [ ] task\n- [x] done\n", "term\n: definition\n", "---\ntitle: x\n---\n\nbody", "line one\r\nline two\r\n\r\npara\r\n", "![img](a.png \"title\") [ref][r]\n\n[r]: http://x.y\n",
        "&amp; &#65; \\* \\[", "    indented code\n\nafter", "$$\nx^2\n$$\n", "`` ` ``", "a<!-- c -->b", "H~2~O x^2^", "", " ", "\n", "\n\n", "a", "a\n", "*", "**", "`", "``",
    ]
    .iter()
    .map(|s| s.to_string())
    .collect();
    for t in &corpus {
        for ilt in [false, true] {
            jobs.push(Job::Md("mdparse", ilt, t.clone()));
        }
    }
    for s in textgen::SPICE {
        for ilt in [false, true] {
            jobs.push(Job::Md("mdparse", ilt, s.to_string()));
            jobs.push(Job::Md("mdparse", ilt, format!("a {} b\n", s)));
        }
    }
    for (ext, content) in crate::corpus::fixtures() {
        if ext == "md" {
            for ilt in [false, true] {
                jobs.push(Job::Md("mdparse", ilt, content.clone()));
            }
        }
    }
    // 2. exhaustive small scope
    //    (a) Markdown: all concatenations of ≤ 4 (quick) / ≤ 5 (thorough) of 16 markup pieces with
    //        ignore_link_title off, ≤ 3 / ≤ 4 with the option on
    let md_all = all_piece_strings(&MD_PIECES, if thorough { 5 } else { 4 });
    for t in &md_all {
        jobs.push(Job::Md("mdparse", false, t.clone()));
    }
    let md_ilt = all_piece_strings(&MD_PIECES, if thorough { 4 } else { 3 });
    for t in &md_ilt {
        jobs.push(Job::Md("mdparse", true, t.clone()));
    }
    //    (b) wikilink clean-up: all concatenations of ≤ 6 of the 7 pieces (ignore_link_title off),
    //        ≤ 5 (quick) / ≤ 6 (thorough) with the option on
    let wiki6 = all_piece_strings(&WIKI_PIECES, 6);
    for t in &wiki6 {
        jobs.push(Job::Md("wikiclean", false, t.clone()));
    }
    let wiki5 = all_piece_strings(&WIKI_PIECES, if thorough { 6 } else { 5 });
    for t in &wiki5 {
        jobs.push(Job::Md("wikiclean", true, t.clone()));
    }
    //    (c) wrappers: all concatenations of ≤ 5 of 9 identifier pieces, plain inner parser
    let ident_all = all_piece_strings(&["snake", "case", "foo", "_", "-", " ", "a", "1", "."], if thorough { 6 } else { 5 });
    for t in &ident_all {
        jobs.push(Job::Collapse(InnerP::Plain, t.clone()));
    }
    for w in IDENT_WORDS {
        for k in [InnerP::Plain, InnerP::Md] {
            jobs.push(Job::Collapse(k, w.to_string()));
            jobs.push(Job::Collapse(k, format!("This is a {}, wow! {}", w, w)));
            jobs.push(Job::Collapse(k, format!("**{}** `{}` {}-{}_{}", w, w, w, w, w)));
        }
    }
    //    (c') identifiers whose tokens are NOT contiguous in the source: Markdown markup that the
    //         parser skips (link destination and title, emphasis markers, wikilink target, inline
    //         HTML) sits between the words and the separator, so the source stretch is not the
    //         dictionary's identifier although the concatenated token texts are
    for t in split_identifiers() {
        for k in [InnerP::Plain, InnerP::Md] {
            jobs.push(Job::Collapse(k, t.clone()));
        }
    }
    for f in FOREIGN {
        for k in [InnerP::Plain, InnerP::Md] {
            jobs.push(Job::Isolate(k, f.to_string()));
            jobs.push(Job::Isolate(k, format!("I have a simple motto in life: {}", f)));
            jobs.push(Job::Isolate(k, format!("{}\n\nThis is English!", f)));
        }
    }
    //    (d) isolate: all chunks of ≤ 9 words over {known, unknown} × terminator, so that every
    //        threshold of is_likely_english (≤ 7 words, 70 %, punctuation × 1.25) is crossed
    for n in 0..=9usize {
        for mask in 0..(1usize << n) {
            if n > 6 && mask.count_ones() > 4 {
                continue;
            }
            for tail in [".", ",;;", " `x` `y`"] {
                let mut s = String::new();
                for i in 0..n {
                    if i > 0 {
                        s.push(' ');
                    }
                    s.push_str(if mask >> i & 1 == 1 { "zxq" } else { "dog" });
                }
                s.push_str(tail);
                jobs.push(Job::Isolate(if tail.contains('`') { InnerP::Md } else { InnerP::Plain }, format!("{} The dog runs fast.", s)));
            }
        }
    }
    let n_exh = jobs.len();
    // 3. structured random
    let n_md = if thorough { 60000 } else { 7000 };
    for i in 0..n_md {
        let t = md_random(rng);
        jobs.push(Job::Md("mdparse", i % 2 == 1, t));
    }
    let n_wiki = if thorough { 60000 } else { 8000 };
    for i in 0..n_wiki {
        let t = wiki_random(rng);
        jobs.push(Job::Md("wikiclean", i % 2 == 1, t));
    }
    let n_wrap = if thorough { 30000 } else { 4000 };
    let sp = split_identifiers();
    for i in 0..n_wrap {
        let mut t = ident_random(rng);
        if i % 5 == 0 {
            t = format!("{} {} {}", t, rng.pick(&sp), ident_random(rng));
        }
        jobs.push(Job::Collapse(if i % 3 == 0 || i % 5 == 0 { InnerP::Md } else { InnerP::Plain }, t));
        let m = mixed_random(rng);
        jobs.push(Job::Isolate(if i % 3 == 0 { InnerP::Md } else { InnerP::Plain }, m));
        if i % 4 == 0 {
            let t = md_random(rng);
            jobs.push(Job::Collapse(InnerP::Md, t.clone()));
            jobs.push(Job::Isolate(InnerP::Md, t));
        }
    }
    sess.add("c02md:jobs", jobs.len() as u64);
    sess.add("c02md:exhaustive+corpus jobs", n_exh as u64);
    let outs = par_map(jobs.len(), 16, |i| run_job(&jobs[i]));
    for (i, o) in outs.into_iter().enumerate() {
        if i % 20011 == 7 {
            if let Job::Md(op, ilt, t) = &jobs[i] {
                sess.sample(json!({"kop": op, "ilt": ilt, "text": trunc(t, 120)}));
            }
        }
        merge(sess, o);
    }
}

/// `hv mdprobe <file> [ilt]`: events, monitors and tokens of one Markdown text
pub fn probe(args: &[String]) {
    let text = std::fs::read_to_string(&args[0]).unwrap();
    let ilt = args.len() > 1;
    let evs = events_of(&text);
    for e in &evs {
        println!("{}", e.word);
    }
    let o = eval_md("mdparse", ilt, &text);
    for (m, h) in &o.monitors {
        println!("monitor {} = {}", m, h);
    }
    for (op, imp) in &o.k {
        println!("OP   {}", op);
        println!("IMPL {}", imp);
    }
    for f in &o.fails {
        println!("FAIL {} {}", f.0, f.1);
    }
}
