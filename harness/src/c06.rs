//! C06 — misspelt exactly when not in the dictionary.
//! K: the accept / contains_word / contains_exact_word decision vs the Lean model, fed with the
//!    slice of the real word list whose lower-cased normalized spelling equals the query's.
//! O: exhaustive pass over the real word list × 4 dialects (alone and embedded), capitalised and
//!    upper-case forms, non-words, suggestions.
//! K `sugg` (w24): the suggestion list of the lint a REAL `SpellCheck` instance reports on a flagged word vs
//!    `Spell.lintSuggestions` (back-off, dialect filter with its `unwrap`, at most three, first letters upper-cased), fed
//!    with what `suggest_correct_spelling` returns and the entries of the real word list the candidates name.
use crate::c01::DIALECTS;
use crate::common::*;
use harper_core::linting::{Lint, LintGroup, LintKind, Linter, SpellCheck, Suggestion};
use harper_core::parsers::PlainEnglish;
use harper_core::spell::{FuzzyMatchResult, suggest_correct_spelling};
use harper_core::{CharStringExt, Dialect, Dictionary, Document, FstDictionary, MutableDictionary, TokenKind, WordId, WordMetadata};
use serde_json::{Value, json};
use std::collections::HashMap;

fn only_spellcheck(dialect: Dialect) -> LintGroup {
    let mut lg = LintGroup::new_curated(FstDictionary::curated(), dialect);
    lg.config.clear();
    lg.set_all_rules_to(Some(false));
    lg.config.set_rule_enabled("SpellCheck", true);
    lg
}

fn cs(s: &str) -> Vec<char> {
    s.chars().collect()
}

fn lownorm(w: &[char]) -> String {
    w.normalized().to_lower().iter().collect()
}

struct Words {
    all: Vec<Vec<char>>,
    by_key: HashMap<String, Vec<usize>>,
}

fn spelling_lints(lg: &mut LintGroup, text: &str) -> Result<(Document, Vec<Lint>), String> {
    let dict = FstDictionary::curated();
    guarded(|| {
        let doc = Document::new(text, &PlainEnglish, &dict);
        let l: Vec<Lint> = lg.lint(&doc).into_iter().filter(|l| l.lint_kind == LintKind::Spelling).collect();
        (doc, l)
    })
}

/// does `w` come out of the lexer + condense passes as exactly one Word token?
fn one_word_token(doc: &Document, len: usize) -> bool {
    let t = doc.get_tokens();
    t.len() == 1 && matches!(t[0].kind, TokenKind::Word(_)) && t[0].span.start == 0 && t[0].span.end == len
}

/// narrow matcher of the recorded finding: the entry contains a character the lexer never puts
/// inside a single Word token, or an apostrophe pattern `condense_contractions` does not join
fn unlexable_shape(w: &[char]) -> bool {
    let apos = w.iter().filter(|c| matches!(**c, '\'' | '’')).count();
    // a character `lex_word` does not take: not English-lingual (e.g. the modifier letter `ʻ` of `Nukuʻalofa`, a
    // letter of another script), not an ASCII digit, not an apostrophe
    let odd_char = w.iter().any(|c| !(crate::tokfmt::is_english_lingual(*c) || c.is_ascii_digit() || matches!(*c, '\'' | '’')));
    let edge_apos = matches!(w.first(), Some('\'' | '’')) || matches!(w.last(), Some('\'' | '’'));
    let digit_lead = w.first().is_some_and(|c| c.is_ascii_digit()) || w.iter().any(|c| c.is_ascii_digit());
    let dotted = w.contains(&'.');
    odd_char || apos >= 2 || edge_apos || digit_lead || dotted
}

fn field(s: &[char]) -> String {
    chars_field(s)
}

fn k_case(sess: &mut Session, words: &Words, dict: &FstDictionary, dialect: usize, w: &[char], rng: &mut Rng, real_accept: Option<bool>) {
    // closure of the strings the model touches under lower / normalize
    let mut strs: Vec<Vec<char>> = vec![w.to_vec()];
    let key = lownorm(w);
    let mut entries: Vec<usize> = words.by_key.get(&key).cloned().unwrap_or_default();
    for _ in 0..2 {
        entries.push(rng.below(words.all.len()));
    }
    entries.sort();
    entries.dedup();
    // entries whose key equals the query's come from an independent index (to_lower ∘ normalized),
    // not from WordId
    for e in &entries {
        strs.push(words.all[*e].clone());
    }
    let mut i = 0;
    while i < strs.len() && strs.len() < 64 {
        let s = strs[i].clone();
        for img in [s.to_lower().to_vec(), s.normalized().to_vec()] {
            if !strs.contains(&img) {
                strs.push(img);
            }
        }
        i += 1;
    }
    let ent = entries
        .iter()
        .map(|e| {
            let c = &words.all[*e];
            let ok = dict.get_word_metadata(c).map(|m| m.dialect.is_none_or(|d| d == DIALECTS[dialect])).unwrap_or(false);
            format!("{} {}", if ok { 1 } else { 0 }, field(c))
        })
        .collect::<Vec<_>>()
        .join(" ; ");
    let tab = strs.iter().map(|s| format!("{} , {} , {}", field(s), field(&s.to_lower()), field(&s.normalized()))).collect::<Vec<_>>().join(" ; ");
    let op = format!("acc | {} | {} | {}", field(w), ent, tab);
    let Some(acc) = real_accept else { return };
    let imp = format!("ok {} {} {}", acc as u8, dict.contains_word(w) as u8, dict.contains_exact_word(w) as u8);
    sess.k(&op, &imp);
    // law monitors of the theorems
    let n = w.normalized();
    sess.monitor("Laws.norm_idem (normalized is idempotent)", n.normalized() == n);
    sess.monitor("Laws.key_lower (lower∘normalize∘lower = lower∘normalize)", lownorm(&w.to_lower()) == lownorm(w));
}


// ------------------------------------------------------------------------------------------------
// K `sugg`: what SpellCheck offers for one flagged word (model: Spell.lintSuggestions)
// ------------------------------------------------------------------------------------------------

const HF: &str = "sugg: hf — every candidate suggest_correct_spelling returns is the listed spelling of an entry of the word list (hypothesis of suggestions_are_words_strong / lintSuggestions_are_words)";
const SUGG_UNIQUE: &str = "sugg: UniqueKeys on the entries handed to the model";

/// misspellings of the unit tests of spell_check.rs / spell/mod.rs, dialect words, words whose suggestions are of another dialect
/// only, a word with more than three candidates, words with none within distance 2, non-ASCII first letters
const SUGG_CORPUS: [&str; 44] = [
    "markdown", "harper", "automattic", "color", "colour", "labor", "labour", "organise", "organize", "centre", "center", "punctation", "youre", "thats", "weve", "ths",
    "semantical", "im", "hvllo", "aout", "adviced", "aknowledged", "alcaholic", "slaves", "conciousness", "teh", "recieve", "adress", "wich", "definately", "seperate",
    "thier", "colr", "colur", "favourit", "neighbr", "xqzvyk", "qqqqqqqq", "dont", "alot", "ärger", "élan", "ǆungla", "ßtreet",
];

#[derive(Default)]
struct SuggOut {
    k: Option<(String, String)>,
    fails: Vec<(String, String, Value)>,
    counts: Vec<&'static str>,
    monitors: Vec<(&'static str, bool)>,
    nontrivial: bool,
}

fn words_line(ws: &[Vec<char>]) -> String {
    let mut parts: Vec<String> = vec!["ok".into()];
    for (i, w) in ws.iter().enumerate() {
        if i > 0 {
            parts.push(",".into());
        }
        parts.push(field(w));
    }
    parts.join(" ")
}

fn cap_first_form(w: &[char]) -> Option<Vec<char>> {
    let mut v = w.to_vec();
    let c = v.first_mut()?;
    let up: Vec<char> = c.to_uppercase().collect();
    if up.len() != 1 || up[0] == *c {
        return None;
    }
    *c = up[0];
    Some(v)
}

/// One flagged word `w` under dialect `dialect` and dictionary `dict` (the real curated one, or a small one).
/// `entries_for(s)` = the listed spellings whose lower-cased normalized spelling equals that of `s`, from an index that does
/// not go through `WordId`; `all_rounds` = hand the model the three searches even when the loop stops earlier;
/// `real` = the dictionary is the curated one (oracles and the hf monitor apply).
fn sugg_case<D: Dictionary + Clone>(dict: &D, entries_for: &dyn Fn(&[char]) -> Vec<Vec<char>>, decoys: &[Vec<char>], dialect: Dialect, w: &[char], all_rounds: bool, real: bool, input: Value) -> SuggOut {
    let mut out = SuggOut::default();
    let text: String = w.iter().collect();
    let Ok(doc) = guarded(|| Document::new(&text, &PlainEnglish, dict)) else {
        out.counts.push("sugg:document-panicked(C01's business)");
        return out;
    };
    if !one_word_token(&doc, w.len()) {
        out.counts.push("sugg:not-one-word-token");
        return out;
    }
    // ---- the real SpellCheck, a fresh instance
    let imp = match guarded(|| SpellCheck::new(dict.clone(), dialect).lint(&doc)) {
        Err(e) => {
            if real {
                out.fails.push(("sugg-panic".into(), format!("SpellCheck panics on {:?}: {}", text, e), input.clone()));
            }
            out.counts.push("sugg:real-panics");
            "panic".to_string()
        }
        Ok(ls) => {
            if ls.is_empty() {
                out.counts.push("sugg:accepted(no case)");
                return out;
            }
            if ls.len() != 1 || ls[0].span.start != 0 || ls[0].span.end != w.len() || ls[0].lint_kind != LintKind::Spelling {
                out.fails.push(("sugg-lint-shape".into(), format!("SpellCheck on the single word {:?} reports {:?}", text, ls.iter().map(|l| (l.span.start, l.span.end, l.lint_kind)).collect::<Vec<_>>()), input.clone()));
                return out;
            }
            let mut sv: Vec<Vec<char>> = vec![];
            for s in &ls[0].suggestions {
                match s {
                    Suggestion::ReplaceWith(v) => sv.push(v.clone()),
                    other => out.fails.push(("sugg-not-replace".into(), format!("SpellCheck offers {:?} for {:?}", other, text), input.clone())),
                }
            }
            if sv.len() > 3 {
                out.fails.push(("sugg-more-than-three".into(), format!("SpellCheck offers {} suggestions for {:?}", sv.len(), text), input.clone()));
            }
            if real {
                // the property's clause: every suggestion is a listed word of the active dialect, up to its first letter's case
                for v in &sv {
                    let mut low_first = v.clone();
                    if let Some(c) = low_first.first_mut() {
                        let l: Vec<char> = c.to_lowercase().collect();
                        if l.len() == 1 {
                            *c = l[0];
                        }
                    }
                    let ok = [v, &low_first].iter().any(|cand| {
                        let cand: &[char] = cand.as_slice();
                        entries_for(cand).iter().any(|e| e.as_slice() == cand) && dict.get_word_metadata(cand).is_some_and(|m| m.dialect.is_none_or(|x| x == dialect))
                    });
                    if !ok {
                        out.fails.push(("suggestion-not-a-word".into(), format!("suggestion {:?} for {:?} is not a dictionary word of the dialect", v.iter().collect::<String>(), text), input.clone()));
                    }
                    out.counts.push("suggestion-checked");
                }
            }
            match sv.len() {
                0 => out.counts.push("sugg:offers-0"),
                1 => out.counts.push("sugg:offers-1"),
                2 => out.counts.push("sugg:offers-2"),
                _ => out.counts.push("sugg:offers-3"),
            }
            out.nontrivial = !sv.is_empty();
            words_line(&sv)
        }
    };
    // ---- the searches, from the public API
    let mut rounds: Vec<Vec<Vec<char>>> = vec![];
    let mut found = false;
    for dist in 2u8..5 {
        if found && !all_rounds {
            break;
        }
        let r: Vec<Vec<char>> = match guarded(|| suggest_correct_spelling(w, 100, dist, dict).into_iter().map(|v| v.to_vec()).collect()) {
            Ok(r) => r,
            Err(_) => {
                out.counts.push("sugg:search-panicked(no case)");
                return out;
            }
        };
        if !found && !r.is_empty() {
            found = true;
            out.counts.push(match dist { 2 => "sugg:found-at-distance-2", 3 => "sugg:found-at-distance-3", _ => "sugg:found-at-distance-4" });
            if r.len() > 3 {
                out.counts.push("sugg:more-than-three-candidates");
            }
            if real {
                out.monitors.push((HF, r.iter().all(|s| entries_for(s).iter().any(|e| e == s))));
            }
        }
        rounds.push(r);
    }
    if !found {
        out.counts.push("sugg:nothing-within-distance-4");
    }
    if all_rounds {
        out.counts.push("sugg:all-three-searches-given");
    }
    // ---- the entries the candidates name (+ decoys), the lower / normalize table (identity rows left out), the characters
    let mut canons: Vec<Vec<char>> = decoys.to_vec();
    for r in &rounds {
        for s in r {
            canons.extend(entries_for(s));
        }
    }
    canons.sort();
    canons.dedup();
    {
        let mut keys: Vec<String> = canons.iter().map(|c| lownorm(c)).collect();
        keys.sort();
        let n = keys.len();
        keys.dedup();
        out.monitors.push((SUGG_UNIQUE, keys.len() == n));
    }
    let mut dropped = false;
    let ent = canons
        .iter()
        .map(|c| {
            let ok = dict.get_word_metadata(c).map(|m| m.dialect.is_none_or(|d| d == dialect)).unwrap_or(false);
            if !ok && rounds.iter().find(|r| !r.is_empty()).is_some_and(|r| r.contains(c)) {
                dropped = true;
            }
            format!("{} {}", if ok { 1 } else { 0 }, field(c))
        })
        .collect::<Vec<_>>()
        .join(" ; ");
    if dropped {
        out.counts.push("sugg:a-candidate-of-another-dialect");
    }
    let mut strs: Vec<Vec<char>> = vec![];
    for x in canons.iter().chain(rounds.iter().flatten()) {
        for y in [x.clone(), x.normalized().to_vec()] {
            if !strs.contains(&y) {
                strs.push(y);
            }
        }
    }
    let tab = strs
        .iter()
        .filter(|s| s.to_lower().as_ref() != s.as_slice() || s.normalized().as_ref() != s.as_slice())
        .map(|s| format!("{} , {} , {}", field(s), field(&s.to_lower()), field(&s.normalized())))
        .collect::<Vec<_>>()
        .join(" ; ");
    // every letter of the word (the model reads the first one only — a model that read another would be caught), the first of every candidate
    let mut chars: Vec<char> = w.iter().copied().chain(rounds.iter().flatten().filter_map(|s| s.first().copied())).collect();
    chars.sort();
    chars.dedup();
    if w.first().is_some_and(|c| c.is_uppercase()) {
        out.counts.push("sugg:capitalised-word");
    } else if w.iter().any(|c| c.is_uppercase()) {
        out.counts.push("sugg:upper-case-letter-not-first");
    }
    let cf = chars.iter().map(|c| format!("{}/{}/{}", *c as u32, if c.is_uppercase() { "u" } else { "n" }, c.to_uppercase().next().unwrap_or(*c) as u32)).collect::<Vec<_>>().join(" ");
    let rs = rounds.iter().map(|r| r.iter().map(|s| field(s)).collect::<Vec<_>>().join(" , ")).collect::<Vec<_>>().join(" ; ");
    out.k = Some((format!("sugg | {} | {} | {} | {} | {}", field(w), rs, ent, tab, cf), imp));
    out
}

/// A small dictionary for the exhaustive scope: a real `MutableDictionary` (its `get_word_metadata`, `contains_exact_word`,
/// `fuzzy_match` are the code's) whose `fuzzy_match` additionally returns `ghost` — a word the dictionary does not contain —
/// when the distance allowed reaches `ghost.1` (the `unwrap()` in the dialect filter of `SpellCheck` is reached only so)
#[derive(Clone)]
struct SmallDict {
    inner: std::sync::Arc<MutableDictionary>,
    ghost: Option<(Vec<char>, u8)>,
    ghost_md: WordMetadata,
}

impl Dictionary for SmallDict {
    fn contains_word(&self, word: &[char]) -> bool {
        self.inner.contains_word(word)
    }
    fn contains_word_str(&self, word: &str) -> bool {
        self.inner.contains_word_str(word)
    }
    fn contains_exact_word(&self, word: &[char]) -> bool {
        self.inner.contains_exact_word(word)
    }
    fn contains_exact_word_str(&self, word: &str) -> bool {
        self.inner.contains_exact_word_str(word)
    }
    fn fuzzy_match(&self, word: &[char], max_distance: u8, max_results: usize) -> Vec<FuzzyMatchResult<'_>> {
        let mut v = self.inner.fuzzy_match(word, max_distance, max_results);
        if let Some((g, d)) = &self.ghost {
            if *d <= max_distance {
                v.push(FuzzyMatchResult { word: g, edit_distance: *d, metadata: &self.ghost_md });
            }
        }
        v
    }
    fn fuzzy_match_str(&self, word: &str, max_distance: u8, max_results: usize) -> Vec<FuzzyMatchResult<'_>> {
        let w: Vec<char> = word.chars().collect();
        self.fuzzy_match(&w, max_distance, max_results)
    }
    fn get_correct_capitalization_of(&self, word: &[char]) -> Option<&'_ [char]> {
        self.inner.get_correct_capitalization_of(word)
    }
    fn get_word_metadata(&self, word: &[char]) -> Option<&WordMetadata> {
        self.inner.get_word_metadata(word)
    }
    fn get_word_metadata_str(&self, word: &str) -> Option<&WordMetadata> {
        self.inner.get_word_metadata_str(word)
    }
    fn words_iter(&self) -> Box<dyn Iterator<Item = &'_ [char]> + Send + '_> {
        self.inner.words_iter()
    }
    fn word_count(&self) -> usize {
        self.inner.word_count()
    }
    fn get_word_from_id(&self, id: &WordId) -> Option<&[char]> {
        self.inner.get_word_from_id(id)
    }
}

fn merge_sugg(sess: &mut Session, o: SuggOut, key: &str) {
    for c in o.counts {
        sess.count(c);
    }
    for (m, held) in o.monitors {
        sess.monitor(m, held);
    }
    if o.nontrivial {
        sess.nontrivial(key);
    }
    if let Some((op, imp)) = o.k {
        sess.k(&op, &imp);
        sess.count("sugg:k-cases");
    }
    for (c, m, i) in o.fails {
        sess.fail(&c, m, i, None);
    }
}

/// the exhaustive small scope: every dictionary over six words (each absent / of every dialect / American / British) at
/// edit distances 1, 1, 2, 1 (capitalised entry), 3, 4 of the query × query `abcd` / `Abcd` / `aBCD` × no ghost / a ghost at distance 1 /
/// a ghost at distance 3 × SpellCheck American / British. `part` of `parts` (quick: a quarter, by seed).
const SMALL_POOL: [&str; 6] = ["abcx", "abcy", "abxy", "Abcq", "axyz", "wxyz"];
const SMALL_GHOSTS: [Option<(&str, u8)>; 3] = [None, Some(("abcg", 1)), Some(("azzz", 3))];
const SMALL_QUERIES: [&str; 3] = ["abcd", "Abcd", "aBCD"];

fn sugg_small_total() -> usize {
    4usize.pow(SMALL_POOL.len() as u32) * SMALL_QUERIES.len() * SMALL_GHOSTS.len() * 2
}

/// case `j` of the small scope
fn sugg_small_job(j: usize) -> SuggOut {
    let n_dicts = 4usize.pow(SMALL_POOL.len() as u32);
    let (di, rest) = (j % n_dicts, j / n_dicts);
    let (qi, rest) = (rest % SMALL_QUERIES.len(), rest / SMALL_QUERIES.len());
    let (gi, li) = (rest % SMALL_GHOSTS.len(), (rest / SMALL_GHOSTS.len()) % 2);
    let mut md = MutableDictionary::new();
    let mut listed: Vec<Vec<char>> = vec![];
    let mut code = di;
    for p in SMALL_POOL.iter() {
        let st = code % 4;
        code /= 4;
        if st == 0 {
            continue;
        }
        let mut m = WordMetadata::default();
        m.dialect = match st { 1 => None, 2 => Some(Dialect::American), _ => Some(Dialect::British) };
        md.append_word(cs(p), m);
        listed.push(cs(p));
    }
    let dict = SmallDict { inner: std::sync::Arc::new(md), ghost: SMALL_GHOSTS[gi].map(|(g, d)| (cs(g), d)), ghost_md: WordMetadata::default() };
    let w = cs(SMALL_QUERIES[qi]);
    let dialect = if li == 0 { Dialect::American } else { Dialect::British };
    let listed2 = listed.clone();
    let entries_for = move |s: &[char]| -> Vec<Vec<char>> { let k = lownorm(s); listed2.iter().filter(|e| lownorm(e) == k).cloned().collect() };
    // every listed word is handed to the model (not only those the candidates name)
    sugg_case(&dict, &entries_for, &listed, dialect, &w, true, false, json!({"kind": "sugg-small", "job": j}))
}

fn sugg_small_scope(sess: &mut Session, part: usize, parts: usize) {
    // a mixing hash picks the part (`j % parts` would pin the state of the first pool word)
    let mix = |j: usize| ((j as u64).wrapping_mul(0x9E37_79B9_7F4A_7C15) >> 33) as usize;
    let jobs: Vec<usize> = (0..sugg_small_total()).filter(|j| mix(*j) % parts == part).collect();
    let results = par_map(jobs.len(), 16, |ji| sugg_small_job(jobs[ji]));
    for (ji, o) in results.into_iter().enumerate() {
        sess.count("sugg:small-scope-cases");
        merge_sugg(sess, o, &format!("sugg-small:{}", jobs[ji]));
    }
}

/// corpus + random single-edit mutations of listed words, on the curated dictionary. One parallel pass (the thread-local
/// Levenshtein automaton builders of fst_dictionary.rs are expensive to set up for distances 3 and 4); returns the corpus cases and
/// the others separately, so that the K lines come corpus → small scope → random.
fn sugg_real_streams(ctx: &Ctx, words: &Words, dialects: &[usize], rng: &mut Rng) -> (Vec<(String, SuggOut)>, Vec<(String, SuggOut)>) {
    let thorough = ctx.tier == Tier::Thorough;
    let mut jobs: Vec<(Vec<char>, usize, bool, Vec<usize>)> = vec![]; // word, dialect index, all three searches, decoy entries
    // 1. corpus: every word as it is, capitalised, upper-case × dialects; all three searches for the plain form
    for t in SUGG_CORPUS.iter() {
        let base = cs(t);
        let mut forms: Vec<(Vec<char>, bool)> = vec![(base.clone(), false)];
        if let Some(c) = cap_first_form(&base) {
            forms.push((c, false));
        }
        let up: Vec<char> = t.to_uppercase().chars().collect();
        if !forms.iter().any(|f| f.0 == up) {
            forms.push((up, true));
        }
        // upper-case letters but not the first one: nothing is capitalised
        let inner: Vec<char> = base.iter().enumerate().map(|(i, c)| if i == 0 { *c } else { c.to_uppercase().next().unwrap_or(*c) }).collect();
        if base.first().is_some_and(|c| c.is_lowercase()) && !forms.iter().any(|f| f.0 == inner) {
            forms.push((inner, true));
        }
        for (fi, (f, upper)) in forms.iter().enumerate() {
            for &d in dialects {
                // upper-case forms find nothing within distance 2 (three searches, twice): quick tier, first dialect only
                if *upper && !thorough && d != dialects[0] {
                    continue;
                }
                jobs.push((f.clone(), d, fi == 0 && (thorough || d == dialects[0]), vec![rng.below(words.all.len())]));
            }
        }
    }
    let n_corpus = jobs.len();
    // 2. listed words of one dialect only, looked at from another dialect (flagged, the listed spelling itself is filtered out)
    let dict = FstDictionary::curated();
    let tagged: Vec<usize> = (0..words.all.len()).filter(|i| dict.get_word_metadata(&words.all[*i]).is_some_and(|m| m.dialect.is_some())).collect();
    let n_tag = if thorough { 400 } else { 60 };
    for _ in 0..n_tag.min(tagged.len()) {
        let w = words.all[*rng.pick(&tagged)].clone();
        for &d in dialects {
            let f = if rng.chance(1, 3) { cap_first_form(&w).unwrap_or(w.clone()) } else { w.clone() };
            jobs.push((f, d, false, vec![rng.below(words.all.len())]));
        }
    }
    // 3. random single edits of listed words (insert / replace / delete / swap / double a letter), a third of them capitalised,
    //    one in ten upper-case, one in ten with one inner letter upper-cased; one in thirty-two with all three searches
    let n_rand = if thorough { 6000 } else { 700 };
    for _ in 0..n_rand {
        let base = words.all[rng.below(words.all.len())].clone();
        let mut w: Vec<char> = base.iter().copied().filter(|c| c.is_alphabetic()).collect();
        if w.len() < 3 {
            continue;
        }
        let letter = |rng: &mut Rng| (b'a' + rng.below(26) as u8) as char;
        match rng.below(5) {
            0 => { let at = rng.below(w.len() + 1); let c = letter(rng); w.insert(at, c); }
            1 => { let at = rng.below(w.len()); w[at] = letter(rng); }
            2 => { let at = rng.below(w.len()); w.remove(at); }
            3 => { let at = rng.below(w.len() - 1); w.swap(at, at + 1); }
            _ => { let at = rng.below(w.len()); let c = w[at]; w.insert(at, c); }
        }
        match rng.below(10) {
            0..=2 => { if let Some(c) = cap_first_form(&w) { w = c; } }
            3 => { let u: Vec<char> = w.iter().collect::<String>().to_uppercase().chars().collect(); w = u; }
            4 => { let at = 1 + rng.below(w.len() - 1); w[at] = w[at].to_uppercase().next().unwrap_or(w[at]); }
            _ => {}
        }
        let d = dialects[rng.below(dialects.len())];
        jobs.push((w, d, rng.chance(1, 32), vec![rng.below(words.all.len()), rng.below(words.all.len())]));
    }
    let results = par_map(jobs.len(), 16, |i| {
        let (w, d, all, decoys) = &jobs[i];
        let dict = FstDictionary::curated();
        let entries_for = |s: &[char]| -> Vec<Vec<char>> { words.by_key.get(&lownorm(s)).map(|v| v.iter().map(|i| words.all[*i].clone()).collect()).unwrap_or_default() };
        let decoys: Vec<Vec<char>> = decoys.iter().map(|i| words.all[*i].clone()).collect();
        sugg_case(&dict, &entries_for, &decoys, DIALECTS[*d], w, *all, true, json!({"kind": "sugg", "text": w.iter().collect::<String>(), "dialect": d}))
    });
    let mut corpus = vec![];
    let mut rest = vec![];
    for (i, o) in results.into_iter().enumerate() {
        let key = format!("sugg:{}:{}", jobs[i].1, jobs[i].0.iter().collect::<String>());
        if i < n_corpus { corpus.push((key, o)) } else { rest.push((key, o)) }
    }
    (corpus, rest)
}

// ------------------------------------------------------------------------------------------------
// w25: words at random positions in random sentences (several sentences, several separators, the same non-word twice, Latin
// letters outside ASCII, plain and Markdown, all four dialects in both tiers, the front-ends' merged dictionary
// [curated, user, file], a long-lived LintGroup next to a fresh SpellCheck), the same texts through harper-wasm's `Linter`
// (`import_words`, `Language::Plain` / `Markdown`, every `Dialect`) and through harper-ls (user dictionary FILE, `dialect`
// setting, two documents open at once, `plaintext` and `markdown`). O only, plus K `acc` on a sample of the placed words.
// ------------------------------------------------------------------------------------------------

/// class of the recorded finding (known_findings.json; the same root as C07's `c07-other-dialect-word`): a word the USER dictionary
/// lists is reported when the curated dictionary lists the same letters for another dialect only
const C06_USER_OTHER_DIALECT: &str = "c06-user-word-of-other-dialect";

/// narrow matcher: the curated dictionary has an entry with the same letters (any capitalisation) whose dialect tag is another dialect
fn user_word_of_other_dialect(curated: &FstDictionary, w: &str, dialect: Dialect) -> bool {
    curated.get_word_metadata(&cs(w)).is_some_and(|m| m.dialect.is_some_and(|d| d != dialect))
}

/// one word put into a text: char offset, char length, kind 0 = listed by the curated dictionary and admitted by the dialect (in
/// a form the property names), 1 = in no capitalisation in any dictionary, 2 = listed by the user / file dictionary in exactly
/// this capitalisation
#[derive(Clone, Debug)]
struct Placed {
    at: usize,
    len: usize,
    word: String,
    kind: u8,
}

struct W25Dicts {
    user_words: Vec<String>,
    file_words: Vec<String>,
    merged: std::sync::Arc<harper_core::MergedDictionary>,
    /// lower∘normalize keys of the user and file words
    keys: std::collections::HashSet<String>,
}

const W25_USER: [&str; 8] = ["markdown", "github", "javascript", "Zqxvword", "zqxvlower", "HARPERISH", "blorked", "iphone"];
const W25_FILE: [&str; 5] = ["Fileonlyword", "zqxwfile", "Markdown", "blorkedly", "GitHub"];

fn w25_dicts() -> W25Dicts {
    use harper_core::MergedDictionary;
    use std::sync::Arc;
    let user_words: Vec<String> = W25_USER.iter().map(|s| s.to_string()).collect();
    let file_words: Vec<String> = W25_FILE.iter().map(|s| s.to_string()).collect();
    // filled the way harper-ls / harper-cli `load_dict` and harper-wasm `import_words` do: extend_words, default metadata
    let mut user = MutableDictionary::new();
    user.extend_words(user_words.iter().map(|w| (cs(w), WordMetadata::default())));
    let mut file = MutableDictionary::new();
    file.extend_words(file_words.iter().map(|w| (cs(w), WordMetadata::default())));
    let mut merged = MergedDictionary::new();
    merged.add_dictionary(FstDictionary::curated());
    merged.add_dictionary(Arc::new(user));
    merged.add_dictionary(Arc::new(file));
    let keys = user_words.iter().chain(file_words.iter()).map(|w| lownorm(&cs(w))).collect();
    // none of these words has a curated namesake tagged with a dialect (else the recorded finding above would apply)
    debug_assert!(user_words.iter().chain(file_words.iter()).all(|w| !FstDictionary::curated().get_word_metadata(&cs(w)).is_some_and(|m| m.dialect.is_some())));
    W25Dicts { user_words, file_words, merged: Arc::new(merged), keys }
}

fn only_spellcheck_on<D: Dictionary + 'static>(dict: std::sync::Arc<D>, dialect: Dialect) -> LintGroup {
    let mut lg = LintGroup::new_curated(dict, dialect);
    lg.config.clear();
    lg.set_all_rules_to(Some(false));
    lg.config.set_rule_enabled("SpellCheck", true);
    lg
}

/// a word of letters only that the lexer takes as one Word token
fn clean_word(w: &[char]) -> bool {
    w.len() >= 2 && w.iter().all(|c| crate::tokfmt::is_english_lingual(*c))
}

/// the clean words the dictionary tags with dialect `d`
fn w25_tagged(words: &Words, clean: &[usize], dict: &FstDictionary, d: Dialect) -> Vec<usize> {
    clean.iter().copied().filter(|i| dict.get_word_metadata(&words.all[*i]).is_some_and(|m| m.dialect == Some(d))).collect()
}

const W25_SEPS: [&str; 9] = [" ", " ", " ", ", ", "; ", ": ", " (", ") ", " - "];
const W25_ENDS: [&str; 5] = [". ", "! ", "? ", ".\n", ".\n\n"];
const W25_LATIN: [char; 8] = ['é', 'ö', 'ñ', 'ü', 'ç', 'å', 'É', 'Ø'];

/// a text of 1–3 sentences of 3–7 words: listed words admitted by `dialect` (listed form; lower-case entries also Capitalised and
/// UPPER-CASE), non-words (an earlier one again with probability 1/3; `latin`: with a letter outside ASCII), user / file words
fn w25_text(words: &Words, clean: &[usize], tagged: &[usize], dict: &FstDictionary, dialect: Dialect, extra: &[String], keys: &std::collections::HashSet<String>, latin: bool, ascii_only: bool, rng: &mut Rng) -> (String, Vec<Placed>) {
    let mut text = String::new();
    let mut n_chars = 0usize;
    let mut placed: Vec<Placed> = vec![];
    let mut nonwords: Vec<String> = vec![];
    let n_sent = rng.range(1, 3);
    for _ in 0..n_sent {
        let n_words = rng.range(3, 7);
        for wi in 0..n_words {
            let roll = rng.below(20);
            let (form, kind): (String, u8) = if roll < 3 {
                // a non-word
                if !nonwords.is_empty() && rng.chance(1, 3) {
                    (rng.pick(&nonwords).clone(), 1)
                } else {
                    let mut made = None;
                    for _ in 0..20 {
                        let base = &words.all[*rng.pick(clean)];
                        let mut w: Vec<char> = base.iter().copied().filter(|c| c.is_ascii_alphabetic()).collect();
                        if w.len() < 3 {
                            continue;
                        }
                        let letter = if latin && !ascii_only && rng.chance(1, 2) { *rng.pick(&W25_LATIN) } else { (b'a' + rng.below(26) as u8) as char };
                        match rng.below(4) {
                            0 => { let at = rng.below(w.len() + 1); w.insert(at, letter); }
                            1 => { let at = rng.below(w.len()); w[at] = letter; }
                            2 => { let at = rng.below(w.len() - 1); w.swap(at, at + 1); w.push(letter); }
                            _ => { w = (0..rng.range(4, 9)).map(|_| (b'a' + rng.below(26) as u8) as char).collect(); if latin && !ascii_only { let at = rng.below(w.len()); w[at] = letter; } }
                        }
                        let k = lownorm(&w);
                        if !words.by_key.contains_key(&k) && !keys.contains(&k) {
                            made = Some(w.iter().collect::<String>());
                            break;
                        }
                    }
                    match made {
                        Some(m) => { nonwords.push(m.clone()); (m, 1) }
                        None => ("qqzzxv".to_string(), 1),
                    }
                }
            } else if roll < 5 && !extra.is_empty() {
                (rng.pick(extra).clone(), 2)
            } else {
                // a listed word the dialect admits
                let mut pick = None;
                for _ in 0..50 {
                    // one in eight from the words the dictionary tags with this very dialect
                    let w = &words.all[if !tagged.is_empty() && rng.chance(1, 8) { *rng.pick(tagged) } else { *rng.pick(clean) }];
                    if ascii_only && !w.iter().all(|c| c.is_ascii()) {
                        continue;
                    }
                    if dict.get_word_metadata(w).is_some_and(|m| m.dialect.is_none_or(|x| x == dialect)) {
                        pick = Some(w.clone());
                        break;
                    }
                }
                let w = pick.unwrap_or_else(|| cs("word"));
                let ws: String = w.iter().collect();
                let lower_entry = w.iter().all(|c| c.is_lowercase());
                let form = if lower_entry && (rng.chance(1, 6) || (wi == 0 && rng.chance(1, 2))) {
                    cap_first_form(&w).map(|c| c.iter().collect()).unwrap_or(ws)
                } else if lower_entry && rng.chance(1, 10) && ws.to_uppercase().chars().count() == w.len() {
                    ws.to_uppercase()
                } else {
                    ws
                };
                (form, 0)
            };
            let len = form.chars().count();
            placed.push(Placed { at: n_chars, len, word: form.clone(), kind });
            text.push_str(&form);
            n_chars += len;
            let sep: &str = if wi + 1 == n_words { *rng.pick(&W25_ENDS[..]) } else { *rng.pick(&W25_SEPS[..]) };
            text.push_str(sep);
            n_chars += sep.chars().count();
        }
    }
    (text, placed)
}

/// the property's clauses on the spelling lints `lints` (char spans + suggestions) of a text; `single(at, len)` = the
/// word is one Word token of the document; `okword(cand)` = the active dictionary lists `cand` exactly and the dialect admits it.
/// Classes end in `suffix` (the stream they were observed in).
fn w25_judge(placed: &[Placed], single: &dyn Fn(usize, usize) -> bool, lints: &[(usize, usize, Vec<Vec<char>>)], okword: &dyn Fn(&[char]) -> bool, suffix: &str) -> (Vec<(String, String)>, Vec<&'static str>) {
    let mut fails = vec![];
    let mut counts = vec![];
    for p in placed {
        let covering: Vec<&(usize, usize, Vec<Vec<char>>)> = lints.iter().filter(|l| l.0 < p.at + p.len && p.at < l.1).collect();
        let one = single(p.at, p.len);
        match p.kind {
            1 => {
                if !one {
                    counts.push("w25:nonword-not-one-token");
                } else if covering.is_empty() {
                    fails.push((format!("nonword-accepted-{}", suffix), format!("{:?} is in no capitalisation in the dictionary but is not reported", p.word)));
                } else if !(covering.len() == 1 && covering[0].0 == p.at && covering[0].1 == p.at + p.len) {
                    fails.push((format!("span-not-exact-{}", suffix), format!("the spelling lint for {:?} at {}..{} covers {:?}", p.word, p.at, p.at + p.len, covering.iter().map(|l| (l.0, l.1)).collect::<Vec<_>>())));
                } else {
                    counts.push("w25:nonword-reported-exactly");
                }
            }
            k => {
                if !covering.is_empty() {
                    let class = if !one && unlexable_shape(&cs(&p.word)) { "c06-unlexable-entry".to_string() } else { format!("listed-word-flagged-{}", suffix) };
                    fails.push((class, format!("{:?} ({}) is reported misspelt", p.word, if k == 2 { "listed by the user / file dictionary in exactly this capitalisation" } else { "a form of a word the curated dictionary lists for this dialect" })));
                } else {
                    counts.push(if k == 2 { "w25:user-word-accepted" } else { "w25:listed-accepted" });
                }
            }
        }
    }
    for l in lints {
        for sv in &l.2 {
            let mut low_first = sv.clone();
            if let Some(c) = low_first.first_mut() {
                let lc: Vec<char> = c.to_lowercase().collect();
                if lc.len() == 1 {
                    *c = lc[0];
                }
            }
            if !(okword(sv) || okword(&low_first)) {
                fails.push((format!("suggestion-not-a-word-{}", suffix), format!("suggestion {:?} for the word at {}..{} is not a dictionary word of the dialect", sv.iter().collect::<String>(), l.0, l.1)));
            }
            counts.push("w25:suggestion-checked");
        }
    }
    (fails, counts)
}

fn w25_input(via: &str, text: &str, placed: &[Placed], dialect: usize, markdown: bool, merged: bool) -> Value {
    json!({"kind": "w25", "via": via, "text": text, "dialect": dialect, "markdown": markdown, "merged": merged,
           "placed": placed.iter().map(|p| json!([p.at, p.len, p.kind, p.word])).collect::<Vec<_>>()})
}

fn w25_placed_of(v: &Value) -> Vec<Placed> {
    v["placed"].as_array().map(|a| a.iter().map(|p| Placed { at: p[0].as_u64().unwrap_or(0) as usize, len: p[1].as_u64().unwrap_or(0) as usize, kind: p[2].as_u64().unwrap_or(0) as u8, word: p[3].as_str().unwrap_or("").to_string() }).collect()).unwrap_or_default()
}

fn w25_lints_of(ls: Vec<Lint>) -> Vec<(usize, usize, Vec<Vec<char>>)> {
    ls.into_iter()
        .filter(|l| l.lint_kind == LintKind::Spelling)
        .map(|l| (l.span.start, l.span.end, l.suggestions.iter().filter_map(|s| if let Suggestion::ReplaceWith(v) = s { Some(v.clone()) } else { None }).collect()))
        .collect()
}

struct W25Out {
    fails: Vec<(String, String)>,
    counts: Vec<&'static str>,
    /// (word, accepted) of the placed words that are single Word tokens, for K `acc`
    decisions: Vec<(Vec<char>, bool)>,
}

/// harper-core: `Document::new` with the parser and the active dictionary, the lints of `lg` (long-lived) or of a fresh `SpellCheck`
fn w25_core<D: Dictionary + Clone>(text: &str, placed: &[Placed], dialect: Dialect, markdown: bool, dict: &D, lg: Option<&mut LintGroup>, suffix: &str) -> Result<W25Out, String> {
    let r = guarded(|| {
        let doc = if markdown { Document::new(text, &harper_core::parsers::Markdown::default(), dict) } else { Document::new(text, &PlainEnglish, dict) };
        let lints = match lg {
            Some(lg) => lg.lint(&doc),
            None => SpellCheck::new(dict.clone(), dialect).lint(&doc),
        };
        (doc, w25_lints_of(lints))
    })?;
    let (doc, lints) = r;
    let single = |at: usize, len: usize| doc.get_tokens().iter().any(|t| matches!(t.kind, TokenKind::Word(_)) && t.span.start == at && t.span.end == at + len);
    let okword = |c: &[char]| dict.contains_exact_word(c) && dict.get_word_metadata(c).is_some_and(|m| m.dialect.is_none_or(|x| x == dialect));
    let (fails, counts) = w25_judge(placed, &single, &lints, &okword, suffix);
    let decisions = placed.iter().filter(|p| p.kind != 2 && single(p.at, p.len)).map(|p| (cs(&p.word), !lints.iter().any(|l| l.0 < p.at + p.len && p.at < l.1))).collect();
    Ok(W25Out { fails, counts, decisions })
}

fn w25_sentences(sess: &mut Session, ctx: &Ctx, words: &Words, dicts: &W25Dicts, rng: &mut Rng) {
    let thorough = ctx.tier == Tier::Thorough;
    let dict = FstDictionary::curated();
    let clean: Vec<usize> = (0..words.all.len()).filter(|i| clean_word(&words.all[*i])).collect();
    let extra: Vec<String> = dicts.user_words.iter().chain(dicts.file_words.iter()).cloned().collect();
    // (text, placed, dialect index, markdown, merged dictionary)
    let n = if thorough { 12000 } else { 2400 };
    let tagged: Vec<Vec<usize>> = (0..4).map(|d| w25_tagged(words, &clean, &dict, DIALECTS[d])).collect();
    let mut jobs: Vec<(String, Vec<Placed>, usize, bool, bool)> = vec![];
    for i in 0..n {
        let d = i % 4;
        let merged = (i / 4) % 2 == 1;
        let markdown = (i / 8) % 2 == 1;
        let latin = rng.chance(1, 3);
        let (text, placed) = w25_text(words, &clean, &tagged[d], &dict, DIALECTS[d], if merged { &extra } else { &[] }, &dicts.keys, latin, false, rng);
        jobs.push((text, placed, d, markdown, merged));
    }
    // one long-lived group per (dialect, dictionary) and chunk; every fourth text also through a fresh SpellCheck
    let chunks: Vec<&[(String, Vec<Placed>, usize, bool, bool)]> = jobs.chunks(200).collect();
    let results = par_map(chunks.len(), 16, |ci| {
        let dict = FstDictionary::curated();
        let mut groups: HashMap<(usize, bool), LintGroup> = HashMap::new();
        let mut out: Vec<(Result<W25Out, String>, Option<Result<W25Out, String>>)> = vec![];
        for (ti, (text, placed, d, markdown, merged)) in chunks[ci].iter().enumerate() {
            let lg = groups.entry((*d, *merged)).or_insert_with(|| if *merged { only_spellcheck_on(dicts.merged.clone(), DIALECTS[*d]) } else { only_spellcheck(DIALECTS[*d]) });
            let a = if *merged { w25_core(text, placed, DIALECTS[*d], *markdown, &dicts.merged, Some(lg), "in-sentence") } else { w25_core(text, placed, DIALECTS[*d], *markdown, &dict, Some(lg), "in-sentence") };
            let b = if ti % 4 == 0 {
                Some(if *merged { w25_core(text, placed, DIALECTS[*d], *markdown, &dicts.merged, None, "in-sentence") } else { w25_core(text, placed, DIALECTS[*d], *markdown, &dict, None, "in-sentence") })
            } else {
                None
            };
            out.push((a, b));
        }
        out
    });
    let mut ji = 0;
    for rs in results {
        for (a, b) in rs {
            let (text, placed, d, markdown, merged) = &jobs[ji];
            ji += 1;
            sess.count(&format!("w25:sentence:{:?}:{}:{}", DIALECTS[*d], if *markdown { "markdown" } else { "plain" }, if *merged { "merged[curated,user,file]" } else { "curated" }));
            for (which, r) in [("long-lived LintGroup", Some(a)), ("fresh SpellCheck", b)] {
                let Some(r) = r else { continue };
                sess.o();
                let input = w25_input("core", text, placed, *d, *markdown, *merged);
                match r {
                    Err(e) => sess.fail("panic", format!("{}: {}", which, trunc(&e, 100)), input, None),
                    Ok(o) => {
                        for c in o.counts {
                            sess.count(c);
                        }
                        if o.fails.is_empty() && placed.iter().any(|p| p.kind == 1) {
                            sess.nontrivial(&format!("w25:{}:{}", d, text));
                        }
                        for (class, desc) in o.fails {
                            sess.fail(&class, format!("{} ({:?}, {}): {} — text {:?}", which, DIALECTS[*d], if *markdown { "Markdown" } else { "plain" }, desc, trunc(text, 120)), input.clone(), None);
                        }
                        // K `acc` on a sample of the decisions (the model is given the curated entries: curated dictionary only)
                        if !*merged && which.starts_with("long") {
                            for (w, acc) in o.decisions {
                                if rng.chance(1, 6) {
                                    k_case(sess, words, &dict, *d, &w, rng, Some(acc));
                                    sess.count("w25:k-acc-in-sentence");
                                }
                            }
                        }
                    }
                }
            }
        }
    }
}

/// harper-wasm's `Linter`: every dialect, only SpellCheck on, with and without imported words, plain and Markdown, one long-lived
/// instance per dialect
fn w25_js(sess: &mut Session, ctx: &Ctx, words: &Words, dicts: &W25Dicts, rng: &mut Rng) {
    use harper_wasm::{Dialect as WDialect, Language, Linter as WLinter};
    let thorough = ctx.tier == Tier::Thorough;
    let dict = FstDictionary::curated();
    let clean: Vec<usize> = (0..words.all.len()).filter(|i| clean_word(&words.all[*i])).collect();
    let linters = serde_json::to_string(&only_spellcheck(Dialect::American).config).unwrap_or_default();
    for (d, wd) in [(0usize, WDialect::American), (1, WDialect::British), (2, WDialect::Canadian), (3, WDialect::Australian)] {
        let Ok(mut js) = guarded(|| WLinter::new(wd)) else {
            sess.fail("panic", "harper_wasm::Linter::new panicked".into(), json!({"kind": "w25", "via": "js", "dialect": d}), None);
            continue;
        };
        if js.set_lint_config_from_json(linters.clone()).is_err() {
            sess.count("w25:js-config-rejected");
            continue;
        }
        let n = if thorough { 200 } else { 60 };
        let tagged = w25_tagged(words, &clean, &dict, DIALECTS[d]);
        let mut extra: Vec<String> = vec![];
        for i in 0..n {
            // the second half of the texts after import_words (in two calls: the second call adds to the first)
            let imported = i >= n / 2;
            if i == n / 2 {
                js.import_words(dicts.user_words.clone());
                js.import_words(dicts.file_words.clone());
                // ONE user dictionary: of two spellings with the same letters the later replaces the earlier (C07's recorded
                // key collision); what the dictionary lists now is what `export_words` returns
                extra = js.export_words();
                extra.sort();
                sess.add("w25:js-words-listed-after-import", extra.len() as u64);
            }
            let markdown = i % 2 == 1;
            let latin = rng.chance(1, 3);
            let (text, placed) = w25_text(words, &clean, &tagged, &dict, DIALECTS[d], if imported { &extra } else { &[] }, &dicts.keys, latin, false, rng);
            let input = w25_input("js", &text, &placed, d, markdown, imported);
            sess.o();
            sess.count(&format!("w25:js:{:?}:{}:{}", DIALECTS[d], if markdown { "markdown" } else { "plain" }, if imported { "imported-words" } else { "no-user-words" }));
            let r = guarded(|| js.lint(text.clone(), if markdown { Language::Markdown } else { Language::Plain }).iter().map(|l| (l.span().start, l.span().end)).collect::<Vec<(usize, usize)>>());
            let Ok(lints) = r else {
                sess.fail("panic", "harper_wasm::Linter::lint panicked".into(), input, None);
                continue;
            };
            // only SpellCheck is on: every lint is a spelling lint. Suggestions are judged in the harper-core stream; here: which
            // words are reported, and where
            let lints: Vec<(usize, usize, Vec<Vec<char>>)> = lints.into_iter().map(|l| (l.0, l.1, vec![])).collect();
            let doc = if markdown { Document::new(&text, &harper_core::parsers::Markdown::default(), &*dicts.merged) } else { Document::new(&text, &PlainEnglish, &*dicts.merged) };
            let single = |at: usize, len: usize| doc.get_tokens().iter().any(|t| matches!(t.kind, TokenKind::Word(_)) && t.span.start == at && t.span.end == at + len);
            let (fails, counts) = w25_judge(&placed, &single, &lints, &|_| true, "by-js");
            for c in counts {
                sess.count(c);
            }
            if fails.is_empty() {
                sess.nontrivial(&format!("w25js:{}:{}", d, text));
            }
            for (class, desc) in fails {
                sess.fail(&class, format!("harper_wasm::Linter ({:?}, {}, {}): {} — text {:?}", DIALECTS[d], if markdown { "Markdown" } else { "plain" }, if imported { "after import_words" } else { "no user words" }, desc, trunc(&text, 120)), input.clone(), None);
            }
        }
    }
}

/// harper-ls: the user dictionary is a FILE at the configured default path, `dialect` and `linters` come from the client's
/// configuration, two documents are open at once (`plaintext` and `markdown`), each is changed once. ASCII texts, one
/// publication per text: the diagnostics' ranges are the non-words' (line, column) ranges.
fn w25_server(sess: &mut Session, ctx: &Ctx, words: &Words, dicts: &W25Dicts, rng: &mut Rng) -> Result<(), crate::lsclient::LsError> {
    use crate::lsclient::*;
    let thorough = ctx.tier == Tier::Thorough;
    let (user_path, _file_dir, _) = set_home(&ctx.out.join("c06-home"));
    if let Some(p) = user_path.parent() {
        let _ = std::fs::create_dir_all(p);
    }
    // ONE dictionary file: only words with distinct lower-case forms (of two the later line would replace the earlier: C07)
    let user_keys: std::collections::HashSet<String> = dicts.user_words.iter().map(|w| lownorm(&cs(w))).collect();
    let all_user: Vec<String> = dicts.user_words.iter().cloned().chain(dicts.file_words.iter().filter(|w| !user_keys.contains(&lownorm(&cs(w)))).cloned()).collect();
    if std::fs::write(&user_path, all_user.join("\n") + "\n").is_err() {
        sess.count("w25:server-user-dictionary-not-writable");
        return Ok(());
    }
    let dict = FstDictionary::curated();
    let clean: Vec<usize> = (0..words.all.len()).filter(|i| clean_word(&words.all[*i])).collect();
    let linters = serde_json::to_value(&only_spellcheck(Dialect::American).config).unwrap_or(Value::Null);
    let sessions: Vec<(usize, &str)> = if thorough { vec![(0, "American"), (1, "British"), (2, "Canadian"), (3, "Australian")] } else { vec![(1, "British"), (3, "Australian")] };
    for (d, dname) in sessions {
        let cfg = json!({"harper-ls": {"linters": linters, "dialect": dname}});
        let mut ls = LsSession::start()?;
        ls.initialize(&cfg)?;
        let docs = [("file:///c06-server/notes.txt", "plaintext", false), ("file:///c06-server/readme.md", "markdown", true)];
        let rounds = if thorough { 8 } else { 5 };
        let tagged = w25_tagged(words, &clean, &dict, DIALECTS[d]);
        for round in 0..rounds {
            // both documents get a text before either publication is read
            let mut sent: Vec<(String, Vec<Placed>)> = vec![];
            for (uri, lang, _) in docs.iter() {
                let mut text = String::new();
                let mut placed: Vec<Placed> = vec![];
                for _ in 0..3 {
                    let (t, p) = w25_text(words, &clean, &tagged, &dict, DIALECTS[d], &all_user, &dicts.keys, false, true, rng);
                    let off = text.chars().count();
                    placed.extend(p.into_iter().map(|mut x| { x.at += off; x }));
                    text.push_str(&t);
                }
                if round == 0 {
                    ls.notify("textDocument/didOpen", did_open(uri, lang, &text))?;
                } else {
                    ls.notify("textDocument/didChange", did_change(uri, round as i64 + 1, &text))?;
                }
                sent.push((text, placed));
            }
            ls.quiesce(&cfg)?;
            for ((uri, _, markdown), (text, placed)) in docs.iter().zip(sent.iter()) {
                sess.o();
                sess.count(&format!("w25:server:{}:{}", dname, if *markdown { "markdown" } else { "plaintext" }));
                let input = w25_input("server", text, placed, d, *markdown, true);
                let Some(publ) = ls.last_publication(uri) else {
                    sess.count("w25:server-no-publication");
                    continue;
                };
                // ASCII text: (line, column) → char offset
                let line_starts: Vec<usize> = std::iter::once(0).chain(text.char_indices().filter(|(_, c)| *c == '\n').map(|(i, _)| i + 1)).collect();
                let off = |p: &Value| -> usize { line_starts.get(p["line"].as_u64().unwrap_or(0) as usize).copied().unwrap_or(0) + p["character"].as_u64().unwrap_or(0) as usize };
                let lints: Vec<(usize, usize, Vec<Vec<char>>)> = publ.as_array().map(|a| a.iter().map(|dg| (off(&dg["range"]["start"]), off(&dg["range"]["end"]), vec![])).collect()).unwrap_or_default();
                let doc = if *markdown { Document::new(text, &harper_core::parsers::Markdown::default(), &*dicts.merged) } else { Document::new(text, &PlainEnglish, &*dicts.merged) };
                let single = |at: usize, len: usize| doc.get_tokens().iter().any(|t| matches!(t.kind, TokenKind::Word(_)) && t.span.start == at && t.span.end == at + len);
                let (fails, counts) = w25_judge(placed, &single, &lints, &|_| true, "by-server");
                for c in counts {
                    sess.count(c);
                }
                if fails.is_empty() {
                    sess.nontrivial(&format!("w25ls:{}:{}", d, text));
                }
                for (class, desc) in fails {
                    sess.fail(&class, format!("harper-ls ({}, {}, user dictionary file): {} — text {:?}", dname, if *markdown { "markdown" } else { "plaintext" }, desc, trunc(text, 120)), input.clone(), None);
                }
            }
        }
        ls.shutdown(&cfg)?;
    }
    Ok(())
}

/// the words the dictionary tags with a dialect, under all four dialects (the quick tier's main pass runs two): accepted exactly
/// under their own dialect, alone and embedded
fn w25_tagged_words(sess: &mut Session, ctx: &Ctx, words: &Words) {
    let dict = FstDictionary::curated();
    let tagged: Vec<usize> = (0..words.all.len()).filter(|i| clean_word(&words.all[*i]) && dict.get_word_metadata(&words.all[*i]).is_some_and(|m| m.dialect.is_some())).collect();
    let stride = if ctx.tier == Tier::Thorough { 1 } else { 2 };
    let results = par_map(4, 4, |d| {
        let mut lg = only_spellcheck(DIALECTS[d]);
        let dict = FstDictionary::curated();
        let mut out = vec![];
        for (n, &i) in tagged.iter().enumerate() {
            if (n + ctx.seed as usize) % stride != 0 {
                continue;
            }
            let w = &words.all[i];
            let ws: String = w.iter().collect();
            let admitted = dict.get_word_metadata(w).is_some_and(|m| m.dialect.is_none_or(|x| x == DIALECTS[d]));
            for text in [ws.clone(), format!("They {} it, we saw.", ws)] {
                let at = if text.len() == ws.len() { 0 } else { 5 };
                let r = spelling_lints(&mut lg, &text).map(|(doc, lints)| {
                    let flagged = lints.iter().any(|l| l.span.start < at + w.len() && at < l.span.end);
                    let single = doc.get_tokens().iter().any(|t| matches!(t.kind, TokenKind::Word(_)) && t.span.start == at && t.span.end == at + w.len());
                    (flagged, single)
                });
                out.push((text, admitted, r));
            }
        }
        out
    });
    for (d, rs) in results.into_iter().enumerate() {
        for (text, admitted, r) in rs {
            sess.o();
            let input = json!({"text": text, "dialect": d, "expect_flagged": !admitted});
            match r {
                Err(e) => sess.fail("panic", e, input, None),
                Ok((flagged, single)) => {
                    if admitted && flagged {
                        sess.fail("listed-word-flagged-dialect-word", format!("{:?} is listed for {:?} but reported under it", text, DIALECTS[d]), input, None);
                    } else if !admitted && !flagged && single {
                        sess.fail("other-dialect-accepted-dialect-word", format!("{:?} is listed for another dialect only but accepted under {:?}", text, DIALECTS[d]), input, None);
                    } else {
                        sess.count(if admitted { "w25:dialect-word-accepted-under-its-dialect" } else { "w25:dialect-word-flagged-under-another" });
                        sess.count(&format!("w25:dialect-words:{:?}", DIALECTS[d]));
                    }
                }
            }
        }
    }
}

fn w25_replay(sess: &mut Session, ctx: &Ctx, words: &Words, v: &Value) {
    let dicts = w25_dicts();
    let text = v["text"].as_str().unwrap_or("").to_string();
    let placed = w25_placed_of(v);
    let d = (v["dialect"].as_u64().unwrap_or(0) as usize).min(3);
    let markdown = v["markdown"].as_bool().unwrap_or(false);
    let merged = v["merged"].as_bool().unwrap_or(false) || v["via"].as_str() != Some("core");
    let _ = (ctx, words);
    let dict = FstDictionary::curated();
    for fresh in [false, true] {
        let mut lg = if merged { only_spellcheck_on(dicts.merged.clone(), DIALECTS[d]) } else { only_spellcheck(DIALECTS[d]) };
        let lgo = if fresh { None } else { Some(&mut lg) };
        let r = if merged { w25_core(&text, &placed, DIALECTS[d], markdown, &dicts.merged, lgo, "in-sentence") } else { w25_core(&text, &placed, DIALECTS[d], markdown, &dict, lgo, "in-sentence") };
        sess.o();
        match r {
            Err(e) => sess.fail("panic", e, v.clone(), None),
            Ok(o) => {
                for (class, desc) in o.fails {
                    sess.fail(&class, desc, v.clone(), None);
                }
            }
        }
    }
}

fn w25_streams(sess: &mut Session, ctx: &Ctx, words: &Words) {
    // its own generator state: the streams above draw the same numbers as before
    let mut rng = Rng::new(ctx.seed ^ 0x7732_3563_3036);
    let dicts = w25_dicts();
    let t0 = std::time::Instant::now();
    w25_tagged_words(sess, ctx, words);
    let t1 = std::time::Instant::now();
    w25_sentences(sess, ctx, words, &dicts, &mut rng);
    let t2 = std::time::Instant::now();
    w25_js(sess, ctx, words, &dicts, &mut rng);
    let t3 = std::time::Instant::now();
    if let Err(e) = w25_server(sess, ctx, words, &dicts, &mut rng) {
        sess.count(&format!("w25:server-session-error:{}", trunc(&e.to_string(), 40)));
    }
    let t4 = std::time::Instant::now();
    sess.add("w25:ms:dialect-words", (t1 - t0).as_millis() as u64);
    sess.add("w25:ms:sentences", (t2 - t1).as_millis() as u64);
    sess.add("w25:ms:js", (t3 - t2).as_millis() as u64);
    sess.add("w25:ms:server", (t4 - t3).as_millis() as u64);
}

pub fn run(ctx: &Ctx) {
    let mut sess = Session::new(ctx);
    let mut rng = Rng::new(ctx.seed);
    let dict = FstDictionary::curated();
    let all: Vec<Vec<char>> = { let mut v: Vec<Vec<char>> = dict.words_iter().map(|w| w.to_vec()).collect(); v.sort(); v };
    let mut by_key: HashMap<String, Vec<usize>> = HashMap::new();
    for (i, w) in all.iter().enumerate() {
        by_key.entry(lownorm(w)).or_default().push(i);
    }
    // monitor: keys unique (UniqueKeys hypothesis of the theorems)
    let dup = by_key.values().filter(|v| v.len() > 1).count();
    sess.monitors.insert("UniqueKeys (no two listed words share a lower-cased normalized spelling)".into(), (by_key.len() as u64, dup as u64));
    let words = Words { all, by_key };
    sess.add("dictionary_words", words.all.len() as u64);

    if let Some(v) = replay_input(ctx) {
        let text = v["text"].as_str().unwrap_or("").to_string();
        let d = v["dialect"].as_u64().unwrap_or(0) as usize;
        if let Some(uw) = v.get("merged_user_words").and_then(|a| a.as_array()) {
            use harper_core::{MergedDictionary, MutableDictionary, WordMetadata};
            use std::sync::Arc;
            let mut user = MutableDictionary::new();
            for w in uw.iter().filter_map(|w| w.as_str()) {
                user.append_word_str(w, WordMetadata::default());
            }
            let mut merged = MergedDictionary::new();
            merged.add_dictionary(FstDictionary::curated());
            merged.add_dictionary(Arc::new(user));
            let merged = Arc::new(merged);
            let mut lg = LintGroup::new_curated(merged.clone(), Dialect::American);
            lg.config.clear();
            lg.set_all_rules_to(Some(false));
            lg.config.set_rule_enabled("SpellCheck", true);
            let flagged = guarded(|| {
                let doc = Document::new(&text, &PlainEnglish, &*merged);
                lg.lint(&doc).into_iter().any(|l| l.lint_kind == LintKind::Spelling)
            });
            if flagged != Ok(false) {
                let class = if uw.iter().filter_map(|w| w.as_str()).any(|w| user_word_of_other_dialect(&dict, w, Dialect::American)) { C06_USER_OTHER_DIALECT } else { "listed-word-flagged" };
                sess.fail(class, format!("still fails: {}", v), v.clone(), None);
            }
            sess.o();
            sess.nontrivial("replay-a");
            sess.nontrivial("replay-b");
            sess.finish("replay of one recorded merged-dictionary input", false, json!({}));
            return;
        }
        if v["kind"].as_str() == Some("w25") {
            w25_replay(&mut sess, ctx, &words, &v);
            sess.nontrivial("replay-a");
            sess.nontrivial("replay-b");
            sess.finish("replay of one recorded w25 text", false, json!({}));
            return;
        }
        if v["kind"].as_str() == Some("sugg-small") {
            let o = sugg_small_job(v["job"].as_u64().unwrap_or(0) as usize % sugg_small_total());
            merge_sugg(&mut sess, o, "replay-sugg-small");
            sess.o();
            sess.nontrivial("replay-a");
            sess.nontrivial("replay-b");
            sess.finish("replay of one recorded sugg small-scope case", false, json!({}));
            return;
        }
        if v["kind"].as_str() == Some("sugg") {
            let entries_for = |s: &[char]| -> Vec<Vec<char>> { words.by_key.get(&lownorm(s)).map(|v| v.iter().map(|i| words.all[*i].clone()).collect()).unwrap_or_default() };
            let o = sugg_case(&dict, &entries_for, &[], DIALECTS[d.min(3)], &cs(&text), true, true, v.clone());
            merge_sugg(&mut sess, o, "replay-sugg");
            sess.o();
            sess.nontrivial("replay-a");
            sess.nontrivial("replay-b");
            sess.finish("replay of one recorded sugg input", false, json!({}));
            return;
        }
        let mut lg = only_spellcheck(DIALECTS[d]);
        if let Ok((doc, lints)) = spelling_lints(&mut lg, &text) {
            sess.sample(json!({"text": text, "tokens": crate::tokfmt::toks_show(doc.get_tokens()), "spelling_lints": lints.iter().map(|l| (l.span.start, l.span.end)).collect::<Vec<_>>()}));
            if let Some(exp) = v.get("expect_flagged").and_then(|b| b.as_bool()) {
                if exp != !lints.is_empty() {
                    sess.fail("replayed", format!("still fails: {}", v), v.clone(), None);
                }
            }
        }
        sess.o();
        sess.nontrivial("replay-a");
        sess.nontrivial("replay-b");
        sess.finish("replay of one recorded input", false, json!({}));
        return;
    }

    let dialects: Vec<usize> = if ctx.tier == Tier::Thorough { vec![0, 1, 2, 3] } else { vec![0, 1] };
    let stride = if ctx.tier == Tier::Thorough { 1 } else { 3 };
    let offset = (ctx.seed as usize) % stride;
    let idxs: Vec<usize> = (0..words.all.len()).filter(|i| i % stride == offset).collect();
    // ---- O1: every listed word, alone and embedded; capitalised / upper-case forms -----------------
    struct R {
        k: Option<(Vec<char>, bool)>,
        fails: Vec<(String, String, Value)>,
        counts: Vec<&'static str>,
    }
    for &d in &dialects {
        let chunks: Vec<&[usize]> = idxs.chunks(2000).collect();
        let results = par_map(chunks.len(), 16, |ci| {
            let mut lg = only_spellcheck(DIALECTS[d]);
            let dict = FstDictionary::curated();
            let mut out: Vec<R> = vec![];
            for &i in chunks[ci] {
                let w = &words.all[i];
                let ws: String = w.iter().collect();
                let mut r = R { k: None, fails: vec![], counts: vec![] };
                let admitted = dict.get_word_metadata(w).map(|m| m.dialect.is_none_or(|x| x == DIALECTS[d])).unwrap_or(false);
                let forms: Vec<(String, &'static str)> = {
                    let mut f = vec![(ws.clone(), "listed")];
                    if w.iter().all(|c| c.is_lowercase() || !c.is_alphabetic()) && w.first().is_some_and(|c| c.is_alphabetic()) {
                        let mut cap = w.clone();
                        let up: Vec<char> = cap[0].to_uppercase().collect();
                        if up.len() == 1 {
                            cap[0] = up[0];
                            f.push((cap.iter().collect(), "capitalised"));
                        }
                        let upper: String = ws.to_uppercase();
                        if upper.chars().count() == w.len() {
                            f.push((upper, "upper-case"));
                        }
                    }
                    f
                };
                for (form, what) in forms {
                    let fc = cs(&form);
                    for embed in [false, true] {
                        let (text, at) = if embed { (format!("We saw {} today.", form), 7usize) } else { (form.clone(), 0usize) };
                        match spelling_lints(&mut lg, &text) {
                            Err(m) => r.fails.push(("panic".into(), m, json!({"text": text, "dialect": d}))),
                            Ok((doc, lints)) => {
                                let covering: Vec<&Lint> = lints.iter().filter(|l| l.span.start < at + fc.len() && at < l.span.end).collect();
                                let flagged = !covering.is_empty();
                                let single = doc.get_tokens().iter().any(|t| matches!(t.kind, TokenKind::Word(_)) && t.span.start == at && t.span.end == at + fc.len());
                                if !embed && what == "listed" {
                                    r.k = Some((w.clone(), !flagged && single));
                                    if !single {
                                        r.k = None;
                                    }
                                }
                                if admitted && flagged {
                                    let class = if !single && unlexable_shape(&fc) { "c06-unlexable-entry" } else { "listed-word-flagged" };
                                    r.fails.push((class.into(), format!("{} form {:?} of a listed word is reported misspelt ({})", what, form, if embed { "embedded" } else { "alone" }), json!({"text": text, "dialect": d, "expect_flagged": false})));
                                } else if admitted {
                                    r.counts.push("listed-accepted");
                                } else if !flagged && single && what == "listed" {
                                    // a word of another dialect only must be reported
                                    let other_entry_ok = false;
                                    if !other_entry_ok {
                                        r.fails.push(("other-dialect-accepted".into(), format!("{:?} is listed for another dialect only but accepted", form), json!({"text": text, "dialect": d, "expect_flagged": true})));
                                    }
                                } else {
                                    r.counts.push("other-dialect-flagged");
                                }
                                // suggestions are words of the active dialect (up to the first letter's case)
                                for l in &covering {
                                    for s in &l.suggestions {
                                        if let Suggestion::ReplaceWith(sv) = s {
                                            let mut low_first = sv.clone();
                                            if let Some(c) = low_first.first_mut() {
                                                let l: Vec<char> = c.to_lowercase().collect();
                                                if l.len() == 1 {
                                                    *c = l[0];
                                                }
                                            }
                                            let ok = [sv, &low_first].iter().any(|cand| {
                                                dict.contains_exact_word(cand) && dict.get_word_metadata(cand).is_some_and(|m| m.dialect.is_none_or(|x| x == DIALECTS[d]))
                                            });
                                            if !ok {
                                                r.fails.push(("suggestion-not-a-word".into(), format!("suggestion {:?} for {:?} is not a dictionary word of the dialect", sv.iter().collect::<String>(), form), json!({"text": text, "dialect": d})));
                                            }
                                            r.counts.push("suggestion-checked");
                                        }
                                    }
                                }
                            }
                        }
                    }
                }
                out.push(r);
            }
            out
        });
        for rs in results {
            for r in rs {
                sess.o();
                for c in r.counts {
                    sess.count(c);
                }
                if let Some((w, acc)) = r.k {
                    if rng.chance(1, 8) {
                        k_case(&mut sess, &words, &dict, d, &w, &mut rng, Some(acc));
                        sess.nontrivial(&format!("{}:{}", d, w.iter().collect::<String>()));
                    }
                }
                for (c, m, i) in r.fails {
                    sess.fail(&c, m, i, None);
                }
            }
        }
    }
    // ---- O2 + K: non-words (edited dictionary words, random letter strings, re-cased entries) -------
    let n_non = if ctx.tier == Tier::Thorough { 60000 } else { 12000 };
    let mut cands: Vec<(Vec<char>, usize)> = vec![];
    for _ in 0..n_non {
        let base = words.all[rng.below(words.all.len())].clone();
        let mut w: Vec<char> = base.iter().copied().filter(|c| c.is_ascii_alphabetic()).collect();
        if w.len() < 3 {
            continue;
        }
        match rng.below(5) {
            0 => { let at = rng.below(w.len()); w.insert(at, (b'a' + rng.below(26) as u8) as char); }
            1 => { let at = rng.below(w.len()); w[at] = (b'a' + rng.below(26) as u8) as char; }
            2 => { let at = rng.below(w.len() - 1); w.swap(at, at + 1); }
            3 => { w = (0..rng.range(4, 10)).map(|_| (b'a' + rng.below(26) as u8) as char).collect(); }
            _ => { // re-case: lower-case a capitalised entry / random case
                for c in w.iter_mut() { if rng.chance(1, 3) { *c = if c.is_lowercase() { c.to_ascii_uppercase() } else { c.to_ascii_lowercase() }; } }
            }
        }
        cands.push((w, rng.below(dialects.len())));
    }
    let chunks: Vec<&[(Vec<char>, usize)]> = cands.chunks(1000).collect();
    let results = par_map(chunks.len(), 16, |ci| {
        let dict = FstDictionary::curated();
        let mut groups: HashMap<usize, LintGroup> = HashMap::new();
        let mut out = vec![];
        for (w, di) in chunks[ci] {
            let d = dialects[*di];
            let lg = groups.entry(d).or_insert_with(|| only_spellcheck(DIALECTS[d]));
            let form: String = w.iter().collect();
            let text = format!("We saw {} today.", form);
            let r = spelling_lints(lg, &text);
            // ground truth, computed without WordId: is there a listed word with the same letters
            // under some capitalisation the property admits?
            let key = lownorm(w);
            let listed: Vec<&Vec<char>> = words.by_key.get(&key).map(|v| v.iter().map(|i| &words.all[*i]).collect()).unwrap_or_default();
            out.push((w.clone(), d, text, r, listed.iter().map(|x| (*x).clone()).collect::<Vec<_>>()));
        }
        let _ = dict;
        out
    });
    for rs in results {
        for (w, d, text, r, listed) in rs {
            sess.o();
            let Ok((doc, lints)) = r else {
                sess.fail("panic", "lint panicked".into(), json!({"text": text, "dialect": d}), None);
                continue;
            };
            let at = 7usize;
            let covering: Vec<&Lint> = lints.iter().filter(|l| l.span.start < at + w.len() && at < l.span.end).collect();
            let flagged = !covering.is_empty();
            if listed.is_empty() {
                sess.count("nonword");
                // "every Latin-alphabet word the dictionary does not contain under any capitalisation is reported,
                // with a span covering exactly that word"
                if !flagged {
                    sess.fail("nonword-accepted", format!("{:?} is in no capitalisation in the dictionary but is not reported", w.iter().collect::<String>()), json!({"text": text, "dialect": d, "expect_flagged": true}), None);
                } else if !(covering.len() == 1 && covering[0].span.start == at && covering[0].span.end == at + w.len()) {
                    sess.fail("span-not-exact", format!("spelling lint for {:?} covers {:?}", w.iter().collect::<String>(), covering.iter().map(|l| (l.span.start, l.span.end)).collect::<Vec<_>>()), json!({"text": text, "dialect": d}), None);
                }
                sess.nontrivial(&format!("non:{}", w.iter().collect::<String>()));
            } else {
                sess.count("recased-listed");
            }
            // K on the decision for this word
            let single = doc.get_tokens().iter().any(|t| matches!(t.kind, TokenKind::Word(_)) && t.span.start == at && t.span.end == at + w.len());
            if single {
                k_case(&mut sess, &words, &dict, d, &w, &mut rng, Some(!flagged));
            }
        }
    }
    // ---- the ACTIVE dictionary of every front-end is a merged one: curated first, then the user's
    //      (harper-ls, harper-cli, harper-wasm all build `MergedDictionary[curated, user, …]`). Words
    //      the user lists must be accepted in their listed capitalisation — also when the curated
    //      dictionary lists the same letters in another case (`markdown` next to `Markdown`).
    {
        use harper_core::{MergedDictionary, MutableDictionary, WordMetadata};
        use std::sync::Arc;
        let mut user_words: Vec<String> = vec!["markdown".into(), "github".into(), "javascript".into(), "Zqxvword".into(), "zqxvlower".into(), "naïvetéx".into()];
        // w25: the witnesses of the recorded finding `c06-user-word-of-other-dialect`, so that every run shows it
        user_words.push("colour".into());
        user_words.push("ARBOUR".into());
        // case variants of curated entries: lower-cased proper nouns, capitalised / upper-cased common words
        let nvar = if ctx.tier == Tier::Thorough { 1500 } else { 200 };
        let mut seen = 0;
        for (i, w) in words.all.iter().enumerate() {
            if (i + ctx.seed as usize) % 97 != 0 || unlexable_shape(w) || w.len() < 3 {
                continue;
            }
            let ws: String = w.iter().collect();
            if ws.chars().any(|c| c.is_uppercase()) {
                user_words.push(ws.to_lowercase());
            } else {
                user_words.push(ws.to_uppercase());
                let mut c = ws.chars();
                if let Some(f) = c.next() {
                    user_words.push(format!("{}{}x", f.to_uppercase(), c.as_str())); // a NEW word next to it
                }
            }
            seen += 1;
            if seen >= nvar {
                break;
            }
        }
        user_words.sort();
        user_words.dedup();
        let mut user = MutableDictionary::new();
        for w in &user_words {
            user.append_word_str(w, WordMetadata::default());
        }
        let mut merged = MergedDictionary::new();
        merged.add_dictionary(FstDictionary::curated());
        merged.add_dictionary(Arc::new(user));
        let merged = Arc::new(merged);
        let mut lg = LintGroup::new_curated(merged.clone(), Dialect::American);
        lg.config.clear();
        lg.set_all_rules_to(Some(false));
        lg.config.set_rule_enabled("SpellCheck", true);
        sess.monitor("the merged dictionary lists every user word in its listed capitalisation (words_iter)", user_words.iter().all(|w| merged.words_iter().any(|x| x.iter().copied().eq(w.chars()))));
        for w in &user_words {
            for text in [w.clone(), format!("We saw {} today.", w)] {
                sess.o();
                let at = if text.len() == w.len() { 0 } else { 7 };
                let wl = w.chars().count();
                let r = guarded(|| {
                    let doc = Document::new(&text, &PlainEnglish, &*merged);
                    let l: Vec<Lint> = lg.lint(&doc).into_iter().filter(|l| l.lint_kind == LintKind::Spelling).collect();
                    let single = doc.get_tokens().iter().any(|t| matches!(t.kind, TokenKind::Word(_)) && t.span.start == at && t.span.end == at + wl);
                    (l, single)
                });
                let Ok((lints, single)) = r else {
                    sess.fail("panic", "lint panicked".into(), json!({"text": text, "merged_user_words": [w]}), None);
                    continue;
                };
                if !single {
                    sess.count("merged:not-one-word-token");
                    continue;
                }
                sess.count("merged:user-word");
                if lints.iter().any(|l| l.span.start < at + wl && at < l.span.end) {
                    // w25: the thorough tier (1 500 case variants) reaches upper-cased entries of another dialect (`ARBOUR`): the recorded
                    // defect C07 knows as `c07-other-dialect-word`, classified narrowly here
                    let class = if user_word_of_other_dialect(&dict, w, Dialect::American) { C06_USER_OTHER_DIALECT } else { "listed-word-flagged" };
                    sess.fail(class, format!("{:?} is listed by the user dictionary of the merged (active) dictionary in exactly this capitalisation but is reported", w), json!({"text": text, "merged_user_words": [w], "dialect": 0}), None);
                } else {
                    sess.nontrivial(&format!("merged:{}", w));
                }
            }
        }
    }
    // ---- K `sugg`: corpus → exhaustive small scope → random single edits -----------------------------------
    let (corpus_cases, other_cases) = sugg_real_streams(ctx, &words, &dialects, &mut rng);
    for (key, o) in corpus_cases {
        sess.count("sugg:corpus-cases");
        merge_sugg(&mut sess, o, &key);
    }
    let parts = if ctx.tier == Tier::Thorough { 1 } else { 4 };
    sugg_small_scope(&mut sess, (ctx.seed as usize) % parts, parts);
    for (key, o) in other_cases {
        sess.count("sugg:dialect-word-and-random-edit-cases");
        merge_sugg(&mut sess, o, &key);
    }
    // ---- w25: random sentences, plain and Markdown, four dialects, merged dictionary, harper-wasm, harper-ls ----
    w25_streams(&mut sess, ctx, &words);
    sess.finish(
        "O: every listed word of the curated dictionary (quick: every 3rd, offset by seed; thorough: all) × dialects (quick: American, British; thorough: all 4), alone and embedded in `We saw _ today.`, in its listed form and — for lower-case entries — capitalised and upper-case: must not be reported when the dialect admits it, must be reported when it is listed for another dialect only; non-words (edited / re-cased dictionary words, random letter strings; ground truth from an index keyed by to_lower∘normalized, independent of WordId) must be reported with a span covering exactly the word; every suggestion must be a word of the active dialect up to its first letter's case; the same through a MERGED dictionary (curated + a user dictionary holding case variants of curated entries and new words): every user word is accepted in its listed capitalisation. K: accept / contains_word / contains_exact_word vs the Lean model on a sample of those words, the model being given the matching slice of the real word list plus decoys. K sugg: the suggestion list of the lint a fresh REAL SpellCheck reports on a single flagged word vs Spell.lintSuggestions (the function suggestions_are_words_strong / lintSuggestions_are_words are about) given what suggest_correct_spelling(w, 100, 2|3|4) returns (the searches the back-off loop runs; all three in a share of the cases), the entries of the word list the candidates name with their dialect flag (from an index independent of WordId) plus decoys, the to_lower / normalized images and is_uppercase / to_uppercase of the first letters; streams: 44 misspellings (unit tests of spell_check.rs and spell/mod.rs, dialect words, no candidate within distance 2, non-ASCII first letters) plain / Capitalised / UPPER / all-but-the-first-letter upper-cased × dialects; EXHAUSTIVE small scope: every dictionary over six words at distances 1, 1, 2, 1 (capitalised entry), 3, 4 of the query, each absent / untagged / American / British (a real MutableDictionary) × query abcd / Abcd / aBCD (upper-case letters, but not the first) × no ghost / a candidate the dictionary does not know at distance 1 / at distance 3 (the unwrap of the dialect filter: panic) × SpellCheck American / British (quick: a quarter of the 73728, by seed); words listed for one dialect only seen from the dialects run; random single edits (insert / replace / delete / swap / double) of listed words, 30 % capitalised, 10 % upper-case, 10 % one inner letter upper-cased. O on them: one Spelling lint on exactly the word, at most three suggestions, all ReplaceWith, each a listed word of the active dialect up to its first letter's case, no panic on the curated dictionary; monitors: hf (every candidate is a listed spelling), UniqueKeys on the entries handed over. Non-trivial = distinct (dialect, word) K cases, distinct non-words and sugg cases with at least one suggestion. w25 (O + K acc on a sample): every dialect-tagged word × all four dialects (both tiers), alone and embedded; random texts of 1–3 sentences of 3–7 words (listed words admitted by the dialect in listed / Capitalised / UPPER form, 1 in 8 tagged with that dialect; non-words incl. Latin letters outside ASCII, an earlier non-word again with probability 1/3; user / file words) with nine separators and five sentence ends × 4 dialects × plain / Markdown × curated / merged[curated,user,file] through a long-lived LintGroup and (every 4th) a fresh SpellCheck: listed and user words not reported, non-words that are one Word token reported once with the exact span, every suggestion a word of the dialect; the same texts through harper_wasm::Linter (4 dialects, only SpellCheck on, before / after import_words, Plain / Markdown) and through harper-ls (user dictionary file, dialect + linters from the client configuration, a plaintext and a markdown document open at once, didOpen then didChange).",
        ctx.tier == Tier::Thorough,
        json!({"exhaustive_scope": if ctx.tier == Tier::Thorough { "all dictionary words × 4 dialects × {listed, Capitalised, UPPER} × {alone, embedded}" } else { "one third of the dictionary × 2 dialects" }}),
    );
}
