//! C06 — misspelt exactly when not in the dictionary.
//! K: the accept / contains_word / contains_exact_word decision vs the Lean model, fed with the
//!    slice of the real word list whose lower-cased normalized spelling equals the query's.
//! O: exhaustive pass over the real word list × 4 dialects (alone and embedded), capitalised and
//!    upper-case forms, non-words, suggestions.
use crate::c01::DIALECTS;
use crate::common::*;
use harper_core::linting::{Lint, LintGroup, LintKind, Linter, Suggestion};
use harper_core::parsers::PlainEnglish;
use harper_core::{CharStringExt, Dialect, Dictionary, Document, FstDictionary, TokenKind};
use serde_json::{Value, json};
use std::collections::HashMap;

fn only_spellcheck(dialect: Dialect) -> LintGroup {
    let mut lg = LintGroup::new_curated(FstDictionary::curated(), dialect);
    lg.config.clear();
    lg.set_all_rules_to(Some(false));
    lg.config.set_rule_enabled("SpellCheck", true);
    lg
}

fn cs(s: &str) -> Vec<char> {
    s.chars().collect()
}

fn lownorm(w: &[char]) -> String {
    w.normalized().to_lower().iter().collect()
}

struct Words {
    all: Vec<Vec<char>>,
    by_key: HashMap<String, Vec<usize>>,
}

fn spelling_lints(lg: &mut LintGroup, text: &str) -> Result<(Document, Vec<Lint>), String> {
    let dict = FstDictionary::curated();
    guarded(|| {
        let doc = Document::new(text, &PlainEnglish, &dict);
        let l: Vec<Lint> = lg.lint(&doc).into_iter().filter(|l| l.lint_kind == LintKind::Spelling).collect();
        (doc, l)
    })
}

/// does `w` come out of the lexer + condense passes as exactly one Word token?
fn one_word_token(doc: &Document, len: usize) -> bool {
    let t = doc.get_tokens();
    t.len() == 1 && matches!(t[0].kind, TokenKind::Word(_)) && t[0].span.start == 0 && t[0].span.end == len
}

/// narrow matcher of the recorded finding: the entry contains a character the lexer never puts
/// inside a single Word token, or an apostrophe pattern `condense_contractions` does not join
fn unlexable_shape(w: &[char]) -> bool {
    let apos = w.iter().filter(|c| matches!(**c, '\'' | '’')).count();
    // a character `lex_word` does not take: not English-lingual (e.g. the modifier letter `ʻ` of `Nukuʻalofa`, a
    // letter of another script), not an ASCII digit, not an apostrophe
    let odd_char = w.iter().any(|c| !(crate::tokfmt::is_english_lingual(*c) || c.is_ascii_digit() || matches!(*c, '\'' | '’')));
    let edge_apos = matches!(w.first(), Some('\'' | '’')) || matches!(w.last(), Some('\'' | '’'));
    let digit_lead = w.first().is_some_and(|c| c.is_ascii_digit()) || w.iter().any(|c| c.is_ascii_digit());
    let dotted = w.contains(&'.');
    odd_char || apos >= 2 || edge_apos || digit_lead || dotted
}

fn field(s: &[char]) -> String {
    chars_field(s)
}

fn k_case(sess: &mut Session, words: &Words, dict: &FstDictionary, dialect: usize, w: &[char], rng: &mut Rng, real_accept: Option<bool>) {
    // closure of the strings the model touches under lower / normalize
    let mut strs: Vec<Vec<char>> = vec![w.to_vec()];
    let key = lownorm(w);
    let mut entries: Vec<usize> = words.by_key.get(&key).cloned().unwrap_or_default();
    for _ in 0..2 {
        entries.push(rng.below(words.all.len()));
    }
    entries.sort();
    entries.dedup();
    // entries whose key equals the query's come from an independent index (to_lower ∘ normalized),
    // not from WordId
    for e in &entries {
        strs.push(words.all[*e].clone());
    }
    let mut i = 0;
    while i < strs.len() && strs.len() < 64 {
        let s = strs[i].clone();
        for img in [s.to_lower().to_vec(), s.normalized().to_vec()] {
            if !strs.contains(&img) {
                strs.push(img);
            }
        }
        i += 1;
    }
    let ent = entries
        .iter()
        .map(|e| {
            let c = &words.all[*e];
            let ok = dict.get_word_metadata(c).map(|m| m.dialect.is_none_or(|d| d == DIALECTS[dialect])).unwrap_or(false);
            format!("{} {}", if ok { 1 } else { 0 }, field(c))
        })
        .collect::<Vec<_>>()
        .join(" ; ");
    let tab = strs.iter().map(|s| format!("{} , {} , {}", field(s), field(&s.to_lower()), field(&s.normalized()))).collect::<Vec<_>>().join(" ; ");
    let op = format!("acc | {} | {} | {}", field(w), ent, tab);
    let Some(acc) = real_accept else { return };
    let imp = format!("ok {} {} {}", acc as u8, dict.contains_word(w) as u8, dict.contains_exact_word(w) as u8);
    sess.k(&op, &imp);
    // law monitors of the theorems
    let n = w.normalized();
    sess.monitor("Laws.norm_idem (normalized is idempotent)", n.normalized() == n);
    sess.monitor("Laws.key_lower (lower∘normalize∘lower = lower∘normalize)", lownorm(&w.to_lower()) == lownorm(w));
}

pub fn run(ctx: &Ctx) {
    let mut sess = Session::new(ctx);
    let mut rng = Rng::new(ctx.seed);
    let dict = FstDictionary::curated();
    let all: Vec<Vec<char>> = { let mut v: Vec<Vec<char>> = dict.words_iter().map(|w| w.to_vec()).collect(); v.sort(); v };
    let mut by_key: HashMap<String, Vec<usize>> = HashMap::new();
    for (i, w) in all.iter().enumerate() {
        by_key.entry(lownorm(w)).or_default().push(i);
    }
    // monitor: keys unique (UniqueKeys hypothesis of the theorems)
    let dup = by_key.values().filter(|v| v.len() > 1).count();
    sess.monitors.insert("UniqueKeys (no two listed words share a lower-cased normalized spelling)".into(), (by_key.len() as u64, dup as u64));
    let words = Words { all, by_key };
    sess.add("dictionary_words", words.all.len() as u64);

    if let Some(v) = replay_input(ctx) {
        let text = v["text"].as_str().unwrap_or("").to_string();
        let d = v["dialect"].as_u64().unwrap_or(0) as usize;
        if let Some(uw) = v.get("merged_user_words").and_then(|a| a.as_array()) {
            use harper_core::{MergedDictionary, MutableDictionary, WordMetadata};
            use std::sync::Arc;
            let mut user = MutableDictionary::new();
            for w in uw.iter().filter_map(|w| w.as_str()) {
                user.append_word_str(w, WordMetadata::default());
            }
            let mut merged = MergedDictionary::new();
            merged.add_dictionary(FstDictionary::curated());
            merged.add_dictionary(Arc::new(user));
            let merged = Arc::new(merged);
            let mut lg = LintGroup::new_curated(merged.clone(), Dialect::American);
            lg.config.clear();
            lg.set_all_rules_to(Some(false));
            lg.config.set_rule_enabled("SpellCheck", true);
            let flagged = guarded(|| {
                let doc = Document::new(&text, &PlainEnglish, &*merged);
                lg.lint(&doc).into_iter().any(|l| l.lint_kind == LintKind::Spelling)
            });
            if flagged != Ok(false) {
                sess.fail("listed-word-flagged", format!("still fails: {}", v), v.clone(), None);
            }
            sess.o();
            sess.nontrivial("replay-a");
            sess.nontrivial("replay-b");
            sess.finish("replay of one recorded merged-dictionary input", false, json!({}));
            return;
        }
        let mut lg = only_spellcheck(DIALECTS[d]);
        if let Ok((doc, lints)) = spelling_lints(&mut lg, &text) {
            sess.sample(json!({"text": text, "tokens": crate::tokfmt::toks_show(doc.get_tokens()), "spelling_lints": lints.iter().map(|l| (l.span.start, l.span.end)).collect::<Vec<_>>()}));
            if let Some(exp) = v.get("expect_flagged").and_then(|b| b.as_bool()) {
                if exp != !lints.is_empty() {
                    sess.fail("replayed", format!("still fails: {}", v), v.clone(), None);
                }
            }
        }
        sess.o();
        sess.nontrivial("replay-a");
        sess.nontrivial("replay-b");
        sess.finish("replay of one recorded input", false, json!({}));
        return;
    }

    let dialects: Vec<usize> = if ctx.tier == Tier::Thorough { vec![0, 1, 2, 3] } else { vec![0, 1] };
    let stride = if ctx.tier == Tier::Thorough { 1 } else { 3 };
    let offset = (ctx.seed as usize) % stride;
    let idxs: Vec<usize> = (0..words.all.len()).filter(|i| i % stride == offset).collect();
    // ---- O1: every listed word, alone and embedded; capitalised / upper-case forms -----------------
    struct R {
        k: Option<(Vec<char>, bool)>,
        fails: Vec<(String, String, Value)>,
        counts: Vec<&'static str>,
    }
    for &d in &dialects {
        let chunks: Vec<&[usize]> = idxs.chunks(2000).collect();
        let results = par_map(chunks.len(), 16, |ci| {
            let mut lg = only_spellcheck(DIALECTS[d]);
            let dict = FstDictionary::curated();
            let mut out: Vec<R> = vec![];
            for &i in chunks[ci] {
                let w = &words.all[i];
                let ws: String = w.iter().collect();
                let mut r = R { k: None, fails: vec![], counts: vec![] };
                let admitted = dict.get_word_metadata(w).map(|m| m.dialect.is_none_or(|x| x == DIALECTS[d])).unwrap_or(false);
                let forms: Vec<(String, &'static str)> = {
                    let mut f = vec![(ws.clone(), "listed")];
                    if w.iter().all(|c| c.is_lowercase() || !c.is_alphabetic()) && w.first().is_some_and(|c| c.is_alphabetic()) {
                        let mut cap = w.clone();
                        let up: Vec<char> = cap[0].to_uppercase().collect();
                        if up.len() == 1 {
                            cap[0] = up[0];
                            f.push((cap.iter().collect(), "capitalised"));
                        }
                        let upper: String = ws.to_uppercase();
                        if upper.chars().count() == w.len() {
                            f.push((upper, "upper-case"));
                        }
                    }
                    f
                };
                for (form, what) in forms {
                    let fc = cs(&form);
                    for embed in [false, true] {
                        let (text, at) = if embed { (format!("We saw {} today.", form), 7usize) } else { (form.clone(), 0usize) };
                        match spelling_lints(&mut lg, &text) {
                            Err(m) => r.fails.push(("panic".into(), m, json!({"text": text, "dialect": d}))),
                            Ok((doc, lints)) => {
                                let covering: Vec<&Lint> = lints.iter().filter(|l| l.span.start < at + fc.len() && at < l.span.end).collect();
                                let flagged = !covering.is_empty();
                                let single = doc.get_tokens().iter().any(|t| matches!(t.kind, TokenKind::Word(_)) && t.span.start == at && t.span.end == at + fc.len());
                                if !embed && what == "listed" {
                                    r.k = Some((w.clone(), !flagged && single));
                                    if !single {
                                        r.k = None;
                                    }
                                }
                                if admitted && flagged {
                                    let class = if !single && unlexable_shape(&fc) { "c06-unlexable-entry" } else { "listed-word-flagged" };
                                    r.fails.push((class.into(), format!("{} form {:?} of a listed word is reported misspelt ({})", what, form, if embed { "embedded" } else { "alone" }), json!({"text": text, "dialect": d, "expect_flagged": false})));
                                } else if admitted {
                                    r.counts.push("listed-accepted");
                                } else if !flagged && single && what == "listed" {
                                    // a word of another dialect only must be reported
                                    let other_entry_ok = false;
                                    if !other_entry_ok {
                                        r.fails.push(("other-dialect-accepted".into(), format!("{:?} is listed for another dialect only but accepted", form), json!({"text": text, "dialect": d, "expect_flagged": true})));
                                    }
                                } else {
                                    r.counts.push("other-dialect-flagged");
                                }
                                // suggestions are words of the active dialect (up to the first letter's case)
                                for l in &covering {
                                    for s in &l.suggestions {
                                        if let Suggestion::ReplaceWith(sv) = s {
                                            let mut low_first = sv.clone();
                                            if let Some(c) = low_first.first_mut() {
                                                let l: Vec<char> = c.to_lowercase().collect();
                                                if l.len() == 1 {
                                                    *c = l[0];
                                                }
                                            }
                                            let ok = [sv, &low_first].iter().any(|cand| {
                                                dict.contains_exact_word(cand) && dict.get_word_metadata(cand).is_some_and(|m| m.dialect.is_none_or(|x| x == DIALECTS[d]))
                                            });
                                            if !ok {
                                                r.fails.push(("suggestion-not-a-word".into(), format!("suggestion {:?} for {:?} is not a dictionary word of the dialect", sv.iter().collect::<String>(), form), json!({"text": text, "dialect": d})));
                                            }
                                            r.counts.push("suggestion-checked");
                                        }
                                    }
                                }
                            }
                        }
                    }
                }
                out.push(r);
            }
            out
        });
        for rs in results {
            for r in rs {
                sess.o();
                for c in r.counts {
                    sess.count(c);
                }
                if let Some((w, acc)) = r.k {
                    if rng.chance(1, 8) {
                        k_case(&mut sess, &words, &dict, d, &w, &mut rng, Some(acc));
                        sess.nontrivial(&format!("{}:{}", d, w.iter().collect::<String>()));
                    }
                }
                for (c, m, i) in r.fails {
                    sess.fail(&c, m, i, None);
                }
            }
        }
    }
    // ---- O2 + K: non-words (edited dictionary words, random letter strings, re-cased entries) -------
    let n_non = if ctx.tier == Tier::Thorough { 60000 } else { 12000 };
    let mut cands: Vec<(Vec<char>, usize)> = vec![];
    for _ in 0..n_non {
        let base = words.all[rng.below(words.all.len())].clone();
        let mut w: Vec<char> = base.iter().copied().filter(|c| c.is_ascii_alphabetic()).collect();
        if w.len() < 3 {
            continue;
        }
        match rng.below(5) {
            0 => { let at = rng.below(w.len()); w.insert(at, (b'a' + rng.below(26) as u8) as char); }
            1 => { let at = rng.below(w.len()); w[at] = (b'a' + rng.below(26) as u8) as char; }
            2 => { let at = rng.below(w.len() - 1); w.swap(at, at + 1); }
            3 => { w = (0..rng.range(4, 10)).map(|_| (b'a' + rng.below(26) as u8) as char).collect(); }
            _ => { // re-case: lower-case a capitalised entry / random case
                for c in w.iter_mut() { if rng.chance(1, 3) { *c = if c.is_lowercase() { c.to_ascii_uppercase() } else { c.to_ascii_lowercase() }; } }
            }
        }
        cands.push((w, rng.below(dialects.len())));
    }
    let chunks: Vec<&[(Vec<char>, usize)]> = cands.chunks(1000).collect();
    let results = par_map(chunks.len(), 16, |ci| {
        let dict = FstDictionary::curated();
        let mut groups: HashMap<usize, LintGroup> = HashMap::new();
        let mut out = vec![];
        for (w, di) in chunks[ci] {
            let d = dialects[*di];
            let lg = groups.entry(d).or_insert_with(|| only_spellcheck(DIALECTS[d]));
            let form: String = w.iter().collect();
            let text = format!("We saw {} today.", form);
            let r = spelling_lints(lg, &text);
            // ground truth, computed without WordId: is there a listed word with the same letters
            // under some capitalisation the property admits?
            let key = lownorm(w);
            let listed: Vec<&Vec<char>> = words.by_key.get(&key).map(|v| v.iter().map(|i| &words.all[*i]).collect()).unwrap_or_default();
            out.push((w.clone(), d, text, r, listed.iter().map(|x| (*x).clone()).collect::<Vec<_>>()));
        }
        let _ = dict;
        out
    });
    for rs in results {
        for (w, d, text, r, listed) in rs {
            sess.o();
            let Ok((doc, lints)) = r else {
                sess.fail("panic", "lint panicked".into(), json!({"text": text, "dialect": d}), None);
                continue;
            };
            let at = 7usize;
            let covering: Vec<&Lint> = lints.iter().filter(|l| l.span.start < at + w.len() && at < l.span.end).collect();
            let flagged = !covering.is_empty();
            if listed.is_empty() {
                sess.count("nonword");
                // "every Latin-alphabet word the dictionary does not contain under any capitalisation is reported,
                // with a span covering exactly that word"
                if !flagged {
                    sess.fail("nonword-accepted", format!("{:?} is in no capitalisation in the dictionary but is not reported", w.iter().collect::<String>()), json!({"text": text, "dialect": d, "expect_flagged": true}), None);
                } else if !(covering.len() == 1 && covering[0].span.start == at && covering[0].span.end == at + w.len()) {
                    sess.fail("span-not-exact", format!("spelling lint for {:?} covers {:?}", w.iter().collect::<String>(), covering.iter().map(|l| (l.span.start, l.span.end)).collect::<Vec<_>>()), json!({"text": text, "dialect": d}), None);
                }
                sess.nontrivial(&format!("non:{}", w.iter().collect::<String>()));
            } else {
                sess.count("recased-listed");
            }
            // K on the decision for this word
            let single = doc.get_tokens().iter().any(|t| matches!(t.kind, TokenKind::Word(_)) && t.span.start == at && t.span.end == at + w.len());
            if single {
                k_case(&mut sess, &words, &dict, d, &w, &mut rng, Some(!flagged));
            }
        }
    }
    // ---- the ACTIVE dictionary of every front-end is a merged one: curated first, then the user's
    //      (harper-ls, harper-cli, harper-wasm all build `MergedDictionary[curated, user, …]`). Words
    //      the user lists must be accepted in their listed capitalisation — also when the curated
    //      dictionary lists the same letters in another case (`markdown` next to `Markdown`).
    {
        use harper_core::{MergedDictionary, MutableDictionary, WordMetadata};
        use std::sync::Arc;
        let mut user_words: Vec<String> = vec!["markdown".into(), "github".into(), "javascript".into(), "Zqxvword".into(), "zqxvlower".into(), "naïvetéx".into()];
        // case variants of curated entries: lower-cased proper nouns, capitalised / upper-cased common words
        let nvar = if ctx.tier == Tier::Thorough { 1500 } else { 200 };
        let mut seen = 0;
        for (i, w) in words.all.iter().enumerate() {
            if (i + ctx.seed as usize) % 97 != 0 || unlexable_shape(w) || w.len() < 3 {
                continue;
            }
            let ws: String = w.iter().collect();
            if ws.chars().any(|c| c.is_uppercase()) {
                user_words.push(ws.to_lowercase());
            } else {
                user_words.push(ws.to_uppercase());
                let mut c = ws.chars();
                if let Some(f) = c.next() {
                    user_words.push(format!("{}{}x", f.to_uppercase(), c.as_str())); // a NEW word next to it
                }
            }
            seen += 1;
            if seen >= nvar {
                break;
            }
        }
        user_words.sort();
        user_words.dedup();
        let mut user = MutableDictionary::new();
        for w in &user_words {
            user.append_word_str(w, WordMetadata::default());
        }
        let mut merged = MergedDictionary::new();
        merged.add_dictionary(FstDictionary::curated());
        merged.add_dictionary(Arc::new(user));
        let merged = Arc::new(merged);
        let mut lg = LintGroup::new_curated(merged.clone(), Dialect::American);
        lg.config.clear();
        lg.set_all_rules_to(Some(false));
        lg.config.set_rule_enabled("SpellCheck", true);
        sess.monitor("the merged dictionary lists every user word in its listed capitalisation (words_iter)", user_words.iter().all(|w| merged.words_iter().any(|x| x.iter().copied().eq(w.chars()))));
        for w in &user_words {
            for text in [w.clone(), format!("We saw {} today.", w)] {
                sess.o();
                let at = if text.len() == w.len() { 0 } else { 7 };
                let wl = w.chars().count();
                let r = guarded(|| {
                    let doc = Document::new(&text, &PlainEnglish, &*merged);
                    let l: Vec<Lint> = lg.lint(&doc).into_iter().filter(|l| l.lint_kind == LintKind::Spelling).collect();
                    let single = doc.get_tokens().iter().any(|t| matches!(t.kind, TokenKind::Word(_)) && t.span.start == at && t.span.end == at + wl);
                    (l, single)
                });
                let Ok((lints, single)) = r else {
                    sess.fail("panic", "lint panicked".into(), json!({"text": text, "merged_user_words": [w]}), None);
                    continue;
                };
                if !single {
                    sess.count("merged:not-one-word-token");
                    continue;
                }
                sess.count("merged:user-word");
                if lints.iter().any(|l| l.span.start < at + wl && at < l.span.end) {
                    sess.fail("listed-word-flagged", format!("{:?} is listed by the user dictionary of the merged (active) dictionary in exactly this capitalisation but is reported", w), json!({"text": text, "merged_user_words": [w], "dialect": 0}), None);
                } else {
                    sess.nontrivial(&format!("merged:{}", w));
                }
            }
        }
    }
    sess.finish(
        "O: every listed word of the curated dictionary (quick: every 3rd, offset by seed; thorough: all) × dialects (quick: American, British; thorough: all 4), alone and embedded in `We saw _ today.`, in its listed form and — for lower-case entries — capitalised and upper-case: must not be reported when the dialect admits it, must be reported when it is listed for another dialect only; non-words (edited / re-cased dictionary words, random letter strings; ground truth from an index keyed by to_lower∘normalized, independent of WordId) must be reported with a span covering exactly the word; every suggestion must be a word of the active dialect up to its first letter's case; the same through a MERGED dictionary (curated + a user dictionary holding case variants of curated entries and new words): every user word is accepted in its listed capitalisation. K: accept / contains_word / contains_exact_word vs the Lean model on a sample of those words, the model being given the matching slice of the real word list plus decoys. Non-trivial = distinct (dialect, word) K cases and distinct non-words.",
        ctx.tier == Tier::Thorough,
        json!({"exhaustive_scope": if ctx.tier == Tier::Thorough { "all dictionary words × 4 dialects × {listed, Capitalised, UPPER} × {alone, embedded}" } else { "one third of the dictionary × 2 dialects" }}),
    );
}
